package main

import (
	"go/constant"
	"go/token"
	"go/types"
	"math/big"
	"strings"

	"golang.org/x/tools/go/ssa"
)

// fact: "X op Y" holds at a program point because a dominating conditional branch
// (exclusive edge) established it.
type fact struct {
	X, Y ssa.Value
	Op   token.Token
	If   *ssa.If
}

func negate(op token.Token) token.Token {
	switch op {
	case token.LSS:
		return token.GEQ
	case token.LEQ:
		return token.GTR
	case token.GTR:
		return token.LEQ
	case token.GEQ:
		return token.LSS
	case token.EQL:
		return token.NEQ
	case token.NEQ:
		return token.EQL
	}
	return token.ILLEGAL
}

func swap(op token.Token) token.Token {
	switch op {
	case token.LSS:
		return token.GTR
	case token.LEQ:
		return token.GEQ
	case token.GTR:
		return token.LSS
	case token.GEQ:
		return token.LEQ
	}
	return op
}

// factsAt collects the comparison facts that hold on entry to block b (or, with inBlock,
// also those established by b's own dominators only).
func factsAt(b *ssa.BasicBlock) []fact {
	var out []fact
	for _, p := range b.Parent().Blocks {
		if len(p.Instrs) == 0 {
			continue
		}
		iff, ok := p.Instrs[len(p.Instrs)-1].(*ssa.If)
		if !ok {
			continue
		}
		t, f := p.Succs[0], p.Succs[1]
		var pol bool
		switch {
		case branchCovers(t, b) && !branchCovers(f, b):
			pol = true
		case branchCovers(f, b) && !branchCovers(t, b):
			pol = false
		default:
			continue
		}
		cond := iff.Cond
		for {
			u, ok := cond.(*ssa.UnOp)
			if !ok || u.Op != token.NOT {
				break
			}
			cond, pol = u.X, !pol
		}
		switch x := cond.(type) {
		case *ssa.BinOp:
			op := x.Op
			if !pol {
				op = negate(op)
			}
			if op != token.ILLEGAL {
				out = append(out, fact{x.X, x.Y, op, iff})
			}
		case *ssa.Call:
			// boolean predicate call, e.g. clock.Defined(): recorded as X == true
			if pol {
				out = append(out, fact{x, nil, token.EQL, iff})
			} else {
				out = append(out, fact{x, nil, token.NEQ, iff})
			}
		default:
			// any other boolean value (a bool result extracted from a call, a phi, …)
			if cond != nil {
				if pol {
					out = append(out, fact{cond, nil, token.EQL, iff})
				} else {
					out = append(out, fact{cond, nil, token.NEQ, iff})
				}
			}
		}
	}
	return out
}

func sameVal(a, b ssa.Value) bool {
	if a == b {
		return true
	}
	return nf(a) == nf(b)
}

func bigOf(v ssa.Value) (*big.Int, bool) {
	k, ok := v.(*ssa.Const)
	if !ok || k.Value == nil || k.Value.Kind() != constant.Int {
		return nil, false
	}
	bi, ok := new(big.Int).SetString(k.Value.ExactString(), 10)
	return bi, ok
}

// upperBoundConst: a constant K with v <= K established at b (nil if none).
func upperBoundConst(v ssa.Value, b *ssa.BasicBlock) *big.Int {
	var best *big.Int
	upd := func(k *big.Int) {
		if best == nil || k.Cmp(best) < 0 {
			best = k
		}
	}
	for _, f := range factsAt(b) {
		if f.Y == nil {
			continue
		}
		x, y, op := f.X, f.Y, f.Op
		if !sameVal(x, v) {
			if sameVal(y, v) {
				x, y, op = y, x, swap(op)
			} else {
				continue
			}
		}
		k, ok := bigOf(y)
		if !ok {
			continue
		}
		switch op {
		case token.LEQ, token.EQL:
			upd(k)
		case token.LSS:
			upd(new(big.Int).Sub(k, big.NewInt(1)))
		}
	}
	return best
}

// lowerBoundConst: a constant K with v >= K established at b (nil if none).
func lowerBoundConst(v ssa.Value, b *ssa.BasicBlock) *big.Int {
	var best *big.Int
	upd := func(k *big.Int) {
		if best == nil || k.Cmp(best) > 0 {
			best = k
		}
	}
	for _, f := range factsAt(b) {
		if f.Y == nil {
			continue
		}
		x, y, op := f.X, f.Y, f.Op
		if !sameVal(x, v) {
			if sameVal(y, v) {
				x, y, op = y, x, swap(op)
			} else {
				continue
			}
		}
		k, ok := bigOf(y)
		if !ok {
			continue
		}
		switch op {
		case token.GEQ, token.EQL:
			upd(k)
		case token.GTR:
			upd(new(big.Int).Add(k, big.NewInt(1)))
		}
	}
	return best
}

// boundedAbove: some fact v <= w / v < w holds at b with w satisfying pred.
func boundedAboveBy(v ssa.Value, b *ssa.BasicBlock, pred func(ssa.Value) bool) bool {
	for _, f := range factsAt(b) {
		if f.Y == nil {
			continue
		}
		x, y, op := f.X, f.Y, f.Op
		if !sameVal(x, v) {
			if sameVal(y, v) {
				x, y, op = y, x, swap(op)
			} else {
				continue
			}
		}
		if (op == token.LEQ || op == token.LSS || op == token.EQL) && pred(y) {
			return true
		}
	}
	return false
}

// nonNilAt: a dominating exclusive branch established v != nil (compared as the pointer
// itself, by normal form) at block b.
func nonNilAt(v ssa.Value, b *ssa.BasicBlock) bool {
	for _, f := range factsAt(b) {
		if f.Y == nil || f.Op != token.NEQ {
			continue
		}
		x, y := f.X, f.Y
		if isNilConst(x) {
			x, y = y, x
		}
		if !isNilConst(y) {
			continue
		}
		if _, isIface := x.Type().Underlying().(*types.Interface); isIface {
			if _, vIsIface := v.Type().Underlying().(*types.Interface); !vIsIface {
				continue // a nil test of the boxing interface says nothing about the pointer inside
			}
		}
		if sameVal(x, v) {
			return true
		}
	}
	return false
}

// intRange of a basic integer type as big ints (word size from sizes).
func intRange(t types.Type, wordBits int) (lo, hi *big.Int, ok bool) {
	b, isB := t.Underlying().(*types.Basic)
	if !isB || b.Info()&types.IsInteger == 0 {
		return nil, nil, false
	}
	bits := 0
	signed := b.Info()&types.IsUnsigned == 0
	switch b.Kind() {
	case types.Int8, types.Uint8:
		bits = 8
	case types.Int16, types.Uint16:
		bits = 16
	case types.Int32, types.Uint32:
		bits = 32
	case types.Int64, types.Uint64:
		bits = 64
	case types.Int, types.Uint, types.Uintptr:
		bits = wordBits
	default:
		return nil, nil, false
	}
	one := big.NewInt(1)
	if signed {
		hi = new(big.Int).Sub(new(big.Int).Lsh(one, uint(bits-1)), one)
		lo = new(big.Int).Neg(new(big.Int).Lsh(one, uint(bits-1)))
	} else {
		hi = new(big.Int).Sub(new(big.Int).Lsh(one, uint(bits)), one)
		lo = big.NewInt(0)
	}
	return lo, hi, true
}

// entryFacts: what is known about received entries on entry to block b, as strings over
// normal forms: "acl(E)" — the access controller accepted E; "defined(E)" — E's clock passed
// Defined(); "sig(E)" — E's identity signatures are non-nil. Facts established inside a repo
// helper that returns a bool are imported where that bool is known to be true (predicate
// wrappers: `ok, err := b.headIsAcceptable(h); if !ok { continue }`).
func (c *Ctx) entryFacts(b *ssa.BasicBlock, depth int) map[string]bool {
	out := map[string]bool{}
	f := b.Parent()
	// access-controller acceptance
	eachCall(f, func(call ssa.CallInstruction) {
		if methodName(call) != "CanAppend" || !c.isMethodOn(call, "CanAppend", ifaceLogAC) {
			return
		}
		ev := errResult(call)
		a := argsOf(call)
		if ev == nil || len(a) == 0 {
			return
		}
		for _, t := range errTests(ev) {
			if t.Ok != nil && branchCovers(t.Ok, b) {
				out["acl("+nf(strip(a[0]))+")"] = true
			}
		}
	})
	for _, ft := range factsAt(b) {
		switch {
		case ft.Y == nil && ft.Op == token.EQL:
			if dc, ok := ft.X.(*ssa.Call); ok && methodName(dc) == "Defined" && dc.Common().IsInvoke() {
				r := nf(dc.Common().Value)
				if strings.HasSuffix(r, ".GetClock()") {
					out["defined("+strings.TrimSuffix(r, ".GetClock()")+")"] = true
				}
			}
			// predicate wrapper known to have returned true
			if ex, ok := ft.X.(*ssa.Extract); ok && ex.Index == 0 && depth < 2 {
				if call, ok := ex.Tuple.(*ssa.Call); ok {
					for k := range c.trueFacts(call, depth) {
						out[k] = true
					}
				}
			}
			if call, ok := ft.X.(*ssa.Call); ok && depth < 2 && methodName(call) != "Defined" {
				for k := range c.trueFacts(call, depth) {
					out[k] = true
				}
			}
		case ft.Y != nil && ft.Op == token.NEQ:
			x, y := ft.X, ft.Y
			if isNilConst(x) {
				x, y = y, x
			}
			if isNilConst(y) {
				r := nf(x)
				if strings.HasSuffix(r, ".GetIdentity().Signatures") {
					out["sig("+strings.TrimSuffix(r, ".GetIdentity().Signatures")+")"] = true
				}
			}
		}
	}
	return out
}

// condFacts: the entry facts that hold when the boolean value v is true.
func (c *Ctx) condFacts(v ssa.Value, depth int) map[string]bool {
	out := map[string]bool{}
	switch x := v.(type) {
	case *ssa.Call:
		if methodName(x) == "Defined" && x.Common().IsInvoke() {
			r := nf(x.Common().Value)
			if strings.HasSuffix(r, ".GetClock()") {
				out["defined("+strings.TrimSuffix(r, ".GetClock()")+")"] = true
			}
		} else if depth < 3 {
			for k := range c.trueFacts(x, depth) {
				out[k] = true
			}
		}
	case *ssa.BinOp:
		if x.Op == token.NEQ {
			a, b := x.X, x.Y
			if isNilConst(a) {
				a, b = b, a
			}
			if isNilConst(b) {
				r := nf(a)
				if strings.HasSuffix(r, ".GetIdentity().Signatures") {
					out["sig("+strings.TrimSuffix(r, ".GetIdentity().Signatures")+")"] = true
				}
			}
		}
	}
	return out
}

// trueFacts: the entry facts that hold whenever the repo function called here returns true
// (first result), translated to the caller's arguments.
func (c *Ctx) trueFacts(call *ssa.Call, depth int) map[string]bool {
	g := call.Call.StaticCallee()
	if g == nil || g.Blocks == nil || g.Pkg == nil || !inRepo(g.Pkg.Pkg) {
		return nil
	}
	if g.Signature.Results().Len() == 0 || typeStr(g.Signature.Results().At(0).Type()) != "bool" {
		return nil
	}
	var acc map[string]bool
	eachInstr(g, func(in ssa.Instruction) {
		r, ok := in.(*ssa.Return)
		if !ok || len(r.Results) == 0 {
			return
		}
		// every way the result can be true: the facts that dominate it, plus what the value
		// itself says (`return id != nil && id.Signatures != nil` is a phi of false and a test)
		var alts []map[string]bool
		var walk func(v ssa.Value, at *ssa.BasicBlock, n int)
		walk = func(v ssa.Value, at *ssa.BasicBlock, n int) {
			if k, isK := v.(*ssa.Const); isK && k.Value != nil && k.Value.ExactString() == "false" {
				return
			}
			if phi, isPhi := v.(*ssa.Phi); isPhi && n < 4 {
				for i, e := range phi.Edges {
					if i < len(phi.Block().Preds) {
						walk(e, phi.Block().Preds[i], n+1)
					}
				}
				return
			}
			fs := c.entryFacts(at, depth+1)
			for k := range c.condFacts(v, depth+1) {
				fs[k] = true
			}
			alts = append(alts, fs)
		}
		for _, v := range resolveSpill(r.Results[0]) {
			walk(v, r.Block(), 0)
		}
		for _, fs := range alts {
			if acc == nil {
				acc = fs
			} else {
				for k := range acc {
					if !fs[k] {
						delete(acc, k)
					}
				}
			}
		}
	})
	out := map[string]bool{}
	for k := range acc {
		m := k
		for i, p := range g.Params {
			if i < len(call.Call.Args) {
				m = strings.ReplaceAll(m, "param:"+p.Name(), nf(strip(call.Call.Args[i])))
			}
		}
		out[m] = true
	}
	return out
}
