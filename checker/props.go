package main

type ruleRef struct {
	Rule   string
	Filter func(*Obligation) bool
}

type propSpec struct {
	ID          string
	Rules       []ruleRef
	Controls    []string // rules whose positive control must produce an obligation on every run
	Explanation string
	NotDecided  string
	Assumptions []string
}

// ruleGroups maps a rule id to the function that computes its obligations (several rules
// share one function; it runs once per analysis).
var ruleGroups = map[string]func(*Ctx){
	"I1": rulesIndex, "I2": rulesIndex, "I3": rulesIndex, "I5": rulesIndex,
	"J1": rulesSize, "N1": rulesSize, "N2": rulesSize, "N3": rulesSize,
	"A1": rulesAccess, "A2": rulesAccess, "A3": rulesAccess, "A4": rulesAccess, "T1": rulesAccess, "N4": rulesAccess,
	"Q1": rulesRepl, "Q2": rulesRepl, "G2": rulesRepl, "L2": rulesRepl,
	"E3": rulesBus, "E4": rulesBus, "E5": rulesBus, "B1": rulesBus, "B2": rulesBus, "B3": rulesBus, "P2": rulesBus, "P3": rulesBus,
	"R1": rulesStatus, "R2": rulesStatus,
	"G1": rulesLife, "G3": rulesLife, "G4": rulesLife, "G5": rulesLife, "G6": rulesLife,
	"P1": rulesPersist, "E1": rulesPersist, "E2": rulesPersist, "I4": rulesPersist, "L1": rulesPersist,
}

func rr(ids ...string) []ruleRef {
	var out []ruleRef
	for _, id := range ids {
		out = append(out, ruleRef{Rule: id})
	}
	return out
}

var propSpecs = map[string]*propSpec{
	"C05": {ID: "C05", Rules: rr("P1"),
		Explanation: "P1: on every path of every write path, Append is followed by a cache Put whose error is tested before a successful return; on the replicator-fed merge path Join is followed by a Put of the merged heads before EventReplicated.",
		NotDecided:  "durability of leveldb/IPFS writes; the state recovered from each crash prefix."},
}
