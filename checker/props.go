package main

import "strings"

type ruleRef struct {
	Rule   string
	Filter func(*Obligation) bool
}

type propSpec struct {
	ID          string
	Rules       []ruleRef
	Controls    []string // rules whose positive control must produce an obligation on every run
	Explanation string
	NotDecided  string
	Assumptions []string
}

// ruleGroups maps a rule id to the function that computes its obligations (several rules
// share one function; it runs once per analysis).
var ruleGroups = map[string]func(*Ctx){
	"I1": rulesIndex, "I2": rulesIndex, "I3": rulesIndex, "I5": rulesIndex,
	"P1": rulesPersist, "E1": rulesPersist, "E2": rulesPersist, "I4": rulesPersist, "L1": rulesPersist,
	"J1": rulesSize, "N1": rulesSize, "N2": rulesSize, "N3": rulesSize,
	"A1": rulesAccess, "A2": rulesAccess, "A3": rulesAccess, "A4": rulesAccess, "T1": rulesAccess, "N4": rulesAccess,
	"Q1": rulesRepl, "Q2": rulesRepl, "G2": rulesRepl, "L2": rulesRepl, "Q3": rulesRepl, "Q4": rulesRepl,
	"E3": rulesBus, "E4": rulesBus, "E5": rulesBus, "B1": rulesBus, "B2": rulesBus, "B3": rulesBus, "P2": rulesBus, "P3": rulesBus,
	"R1": rulesStatus, "R2": rulesStatus,
	"G1": rulesLife, "G3": rulesLife, "G4": rulesLife, "G5": rulesLife, "G6": rulesLife,
	"X1": rulesTransport, "X2": rulesTransport, "X3": rulesTransport, "W1": rulesTransport,
	"G9": rulesExtra3, "P5": rulesExtra3, "M4": rulesExtra3, "M5": rulesExtra3, "X4": rulesExtra3, "B6": rulesExtra3, "G8": rulesExtra3,
	"X7": rulesExtra4, "L5": rulesExtra4, "R3": rulesExtra4, "R4": rulesExtra4, "J2": rulesExtra4, "R5": rulesExtra4, "I10": rulesExtra4, "L4": rulesExtra4, "M6": rulesExtra4, "I8": rulesExtra4, "I9": rulesExtra4, "T6": rulesExtra4, "L3": rulesExtra4, "E6": rulesExtra4, "X5": rulesExtra4, "X6": rulesExtra4,
	"P6": rulesExtra5, "P7": rulesExtra5, "X8": rulesExtra5, "G10": rulesExtra5, "G14": rulesExtra5, "M7": rulesExtra5, "G13": rulesExtra5, "G12": rulesExtra5, "J3": rulesExtra5, "Q6": rulesExtra5, "J4": rulesExtra5, "I11": rulesExtra5, "G11": rulesExtra5, "R6": rulesExtra5,
	"S1": rulesExtra2, "G7": rulesExtra2, "Q5": rulesExtra2, "T5": rulesExtra2, "I7": rulesExtra2,
	"I6": rulesExtra, "T2": rulesExtra, "P4": rulesExtra, "B4": rulesExtra, "B5": rulesExtra, "T3": rulesExtra, "T4": rulesExtra,
	"M1": rulesAddr, "M2": rulesAddr, "M3": rulesAddr, "D2": rulesAddr,
}

func rr(ids ...string) []ruleRef {
	var out []ruleRef
	for _, id := range ids {
		out = append(out, ruleRef{Rule: id})
	}
	return out
}

// only keeps obligations whose construct mentions one of the fragments (anchor-lost reports are always kept).
func only(rule string, frags ...string) ruleRef {
	return ruleRef{Rule: rule, Filter: func(o *Obligation) bool {
		if strings.HasPrefix(o.Construct, "anchor-lost:") || strings.Contains(o.Construct, "verifCtl") {
			return true
		}
		for _, f := range frags {
			if strings.Contains(o.Construct, f) {
				return true
			}
		}
		return false
	}}
}

func except(rule string, frags ...string) ruleRef {
	return ruleRef{Rule: rule, Filter: func(o *Obligation) bool {
		for _, f := range frags {
			if strings.Contains(o.Construct, f) {
				return false
			}
		}
		return true
	}}
}

func cat(rs ...[]ruleRef) []ruleRef {
	var out []ruleRef
	for _, r := range rs {
		out = append(out, r...)
	}
	return out
}

var commonAssumptions = []string{
	"go/packages + go/types + go/ssa (golang.org/x/tools v0.29.0) represent the program faithfully for the loaded build configuration (linux/amd64; thorough also linux/386)",
	"the pinned dependencies (go-ipfs-log v1.10.3-0.20240719141234-29e2d26e2aeb, go-libp2p eventbus, go-datastore) behave as their source says; facts about them that a rule relies on are re-derived from that source on each run and listed under dependency_facts",
	"lock identity is (owning struct type, field); value flow is followed within a function, into closures and one or two levels into repo callees; interface calls are resolved by class hierarchy (quick) or VTA (thorough)",
	"a discharged obligation establishes a NECESSARY structural condition of the property on every path/site/implementation of the current source, not the behavioural property itself",
}

var propSpecs = map[string]*propSpec{
	"C01": {ID: "C01", Rules: rr("I1", "I2", "I3", "I4", "I6", "I8", "I9", "I10", "T6"), Controls: []string{"I4", "I2", "I8", "I9", "I10"},
		Explanation: "Repo-side necessary conditions of order-independence: every index implementation computes its view from the log's total order only (I1: Values(), never GetEntries/Heads/Iterator/the incremental argument), the last-writer-wins scan is coherent (I2: scan direction vs first-seen guard; tested, marked and written key identical by normal form), store and index agree on the opcode table (I3), and every route that changes the log (write path, three merge sites) refreshes the view before reporting success (I4). The index interprets the whole total order and nothing it remembers between calls decides what is interpreted (I6). View maps are keyed by the key as written, or hold a collection per computed key (I8); JSON decode targets are allocated for the decode, because everything is encoded with omitempty (I9).",
		NotDecided:  "that Join is set union and Values() a deterministic total order (CRDT inside go-ipfs-log); actual delivery orders."},
	"C02": {ID: "C02", Rules: cat(rr("W1", "L2", "P3", "Q4", "T6", "L3", "Q2", "Q3", "Q5"), []ruleRef{only("P2", "_localHeads", "Get(", "anchor"), only("Q1", "failed-fetch", "tasks[]")}), Controls: []string{"P3", "T6", "L3"},
		Explanation: "Wiring needed for eventual delivery: a peer joining the topic reaches the head exchange, which sends the cached heads under the store's own address on its success path (W1); the key the write path persists is the one the exchange and the load path read (P2); fetched entries' next links are queued (L2); and the persisted local head covers every acknowledged write because Append and the persisting Put share a critical section (P3). The replicator sets no fetch timeout (Q4: under DF7 a timeout silently truncates ancestry) and the locally written head is in the exchanged message on every path (W1 selection test). Whether a received head is handed to the replicator does not depend on an insert-only or unverified memo (T6); the replicator's buffer is read out and reset inside one critical section, counting the locks every caller holds (L3). A request abandoned while the links were cut leaves the replicator able to serve the re-sent heads after the heal: a hash whose fetch failed or came back empty is not kept as fetched (Q1, Q3), a worker that gives up gives its queued item back (Q2), and every counter the idle test reads is given back on every path of a worker, wherever it was taken — in the worker, at enqueue or where the worker is started (Q5).",
		NotDecided:  "liveness itself: fault sequences, retries, pubsub behaviour, fetchability of blocks."},
	"C03": {ID: "C03", Rules: rr("A1", "A2", "A3", "A4", "T2", "T3"), Controls: []string{"A1"},
		Explanation: "For all access-controller implementations: every accepting path of CanAppend passes a successful write-list membership comparison and an identity verification whose result is used (A1); that verification is not a constant accept (A2, derived from the dependency); the signing key is bound to the named identity (A3); every log is constructed with the store's controller and database id, is mutated only through Append/Join, and the controller and store type come from the manifest at the address root (A4). Join is always called on the store's own log with the fetched log as argument, and the oplog field is only assigned a fresh NewLog (T2).",
		NotDecided:  "cryptographic soundness of signatures; that the dependency's Join/Append call CanAppend and Verify for every new entry (read once, DF6)."},
	"C04": {ID: "C04", Rules: rr("T1", "A4", "T2", "T3", "T4", "T5"), Controls: []string{"T1"},
		Explanation: "Interprocedural field-based taint from every read of a decoded MessageExchangeHeads.Heads to log constructors, entry maps and Join: no entry object received from the network reaches a log except through its content address (T1); logs are only built with the store's access controller and id and only mutated through Append/Join (A4). Join direction and oplog provenance (T2); fetched entries with a foreign log id are refused (T3); only heads accepted by the access controller are handed to the replicator (T4); the claimed address is compared as a whole with the recomputed one (T5).",
		NotDecided:  "the dependency's signature check and log-id filter inside Join; hash collision resistance."},
	"C05": {ID: "C05", Rules: cat(rr("P1", "P3", "P4", "P5", "L4", "P6", "P7", "X8"), []ruleRef{except("P2", "snapshot", "queue"), only("Q4", "basestore")}), Controls: []string{"P1", "P6", "P7", "X8"},
		Explanation: "Ordering of persistence effects on every path: Append → cache Put (error tested, failing branch leaves) → successful return; Join → Put of merged heads (error tested) → EventReplicated (P1); the keys written by those paths and the manifest marker are read back under the same names by the load path, the exchange and the local-presence test, and both head sets read by the load path feed the fetch (P2). No cached head key is deleted outside Drop (P4). The head persisted after a local write is produced and written inside one critical section, so the cache never ends up naming an older entry than the last acknowledged one (P3). A history fetched at load that is refused as a whole is merged entry by entry, so one refused ancestor does not cost the entries reported as replicated before the restart (L4). The load path only reads the head records: the log it rebuilds is as complete as the fetch was, which nothing reports (DF7), so its heads are never written back (P6). What the merge path records is Heads() of the store's log read after the merge, not the heads of the batch (P7). No block is ever removed from the block store (X8). The fetches that rebuild the log at load carry no time-out: under DF7 its expiry is a truncated log and a nil error (Q4).",
		NotDecided:  "durability of leveldb/IPFS writes; the state recovered from each crash prefix (needs CRDT semantics)."},
	"C06": {ID: "C06", Rules: []ruleRef{only("I1", "kvstore"), only("I2", "kvstore"), only("I3", "kvstore"), {Rule: "I4"}, only("I6", "kvstore"), only("I8", "kvstore"), only("I9", "kvstore", "stores/operation"), only("I10", "kvstore")}, Controls: []string{"I2"},
		Explanation: "Key-value index: view computed from Values() only (I1); descending scan with a first-seen guard whose tested, marked and written key are the same expression, PUT stores and DEL deletes (I2, I3); every log change refreshes the view (I4). View writes keyed verbatim (I8); operations are decoded into fresh values (I9).",
		NotDecided:  "that the total order extends happens-before (dependency clocks)."},
	"C07": {ID: "C07", Rules: []ruleRef{only("I1", "documentstore"), only("I2", "documentstore"), only("I3", "documentstore"), {Rule: "I4"}, {Rule: "D2"}, only("I6", "documentstore"), only("I8", "documentstore"), only("I9", "documentstore", "stores/operation"), only("I10", "documentstore"), {Rule: "I11"}}, Controls: []string{"I2", "I11"},
		Explanation: "Document index: as C06 for PUT, DEL and every member of PUTALL (I1–I3), view refreshed on every change (I4); Delete reaches the append only through a presence test whose absent branch leaves with an error (D2). View writes keyed verbatim (I8); operations are decoded into fresh values (I9).",
		NotDecided:  "Get's matching options and Query (string semantics, caller predicates)."},
	"C08": {ID: "C08", Rules: []ruleRef{only("I1", "eventlogstore", "basestore"), {Rule: "I5"}, only("I6", "eventlogstore", "basestore"), {Rule: "I7"}, only("I10", "eventlogstore", "basestore"), {Rule: "J4"}},
		Explanation: "Event log listing is the log's total order (I1 for the event and base index); the slice the query reverses in place is freshly built by the installed index on every call (I5). The event-log store selects windows from the index listing only (I7); the event index interprets the whole order (I6).",
		NotDecided:  "append-only/stability (dependency); exact windows (integer arithmetic over positions and amounts: a solver/symbolic problem, another technique family)."},
	"C09": {ID: "C09", Rules: rr("B1", "B2", "B4", "B5", "B6", "T3"), Controls: []string{"B1"},
		Explanation: "Every subscription to store-scoped event types on a bus that may be the instance-wide one either filters by the event's database address before any effect, or is made on a bus private to the store (B1); both receive paths route a heads message by the address it names before Sync (B2). Handler goroutines capture only per-iteration state (B4); each store gets the cache loaded for its own address on every path (B5); nothing written back into the caller's options chains per-store hooks (B6).",
		NotDecided:  "interference through the shared IPFS node or the pubsub router."},
	"C10": {ID: "C10", Rules: []ruleRef{{Rule: "L1"}, only("Q1", "rejected-join"), {Rule: "I4"}, {Rule: "T1"}, {Rule: "T2"}, {Rule: "T4"}, {Rule: "T6"}, {Rule: "L4"}, {Rule: "Q6"}, {Rule: "Q5"}, only("G7", "replicator")}, Controls: []string{"L1", "T1", "T6"},
		Explanation: "A failing Join stays inside the loop over fetched logs (L1); the task table's terminal state either does not block re-queuing, or is collected at load-end, or every fetch asks for exactly one entry so that a rejected log never holds a valid one (Q1); every Join is called on the store's own log, so each fetched log is verified and rejected on its own (T2); what is fetched under a hash is the content of that hash, never an announced object (T1); the view is refreshed after partial batches (I4). Memo discipline in Sync: marks only after verification, releasable, released on every path (T6); a multi-entry history refused at load is merged entry by entry (L4). A refused fetch gives its slot and its count back (G7, Q5) and still runs the idle test when it completes last (Q6).",
		NotDecided:  "which entries the dependency rejects."},
	"C11": {ID: "C11", Rules: []ruleRef{only("Q1", "failed-fetch", "tasks[]"), {Rule: "Q2"}, {Rule: "G2"}, {Rule: "Q3"}, {Rule: "Q5"}, {Rule: "Q6"}, only("G7", "replicator"), {Rule: "S1"}, {Rule: "T6"}},
		Explanation: "Task states are not absorbing while blocking (Q1); a worker whose slot wait fails removes a queued item and its task entry (Q2); goroutines draining a fetch-progress channel have no exit on ctx.Done() while the fetcher can still send (G2, with DF4 derived from the dependency). An empty fetch is a failed fetch (Q3, DF7); the idle counter is balanced on every worker path (Q5); fetch slots are released on every path (G7); no head is skipped on the strength of state recorded when an earlier request merely started (S1). A head never lives only in a memo of Sync after its fetch failed (T6); every task retirement is followed by the idle test (Q6).",
		NotDecided:  "behaviour of IPFS fetches under cancellation."},
	"C12": {ID: "C12", Rules: []ruleRef{{Rule: "N2"}, {Rule: "N4"}, only("E3", "pubsub", "PayloadEmitter"), {Rule: "T1"}, {Rule: "T4"}, only("N1", "directchannel"), except("G7", "replicator"), {Rule: "T6"}, {Rule: "G12"}}, Controls: []string{"N4", "N2", "T1", "T6", "G12"},
		Explanation: "Allocation sizes decoded from a stream are bounded on both sides before use (N2, N1 on the frame-length conversion); every pointer decoded from a message or fetched entry (heads elements, GetIdentity() results, announced clocks) is nil-tested as a pointer before dereference, including through interface boxing (N4); the payload emitter's value type matches (E3); received entries cannot alter a log except by content address (T1). A received entry is re-encoded only after its clock and identity signatures were found present (N4d, DF8); only accepted heads reach the replicator (T4); frame slots are released on every path (G7). Clocks and identities of received heads are guarded wherever the heads flow, including helpers and access controllers (N4 e/f over T1's taint set); nothing is recorded about a head under its claimed hash before that hash was verified (T6).",
		NotDecided:  "panics inside dependencies (JSON/CBOR decoders, libp2p)."},
	"C13": {ID: "C13", Rules: []ruleRef{only("N1", "basestore"), {Rule: "N3"}, only("X3", "basestore"), only("P2", "snapshot", "queue"), {Rule: "X5"}, {Rule: "X6"}, {Rule: "X8"}}, Controls: []string{"N3", "X6", "X5", "X8"},
		Explanation: "Both 16-bit length prefixes of the snapshot writer are guarded by a range test (N1); make-then-fill loops allocate with the length of the collection they range over (N3: GetQueue); writer and loader use the same prefix width and byte order (X3); the snapshot and queue keys are written and read under the same names (P2). The header's Len()/Heads() are read before the entries that are serialised (X5); frame buffers are filled by a full read — io.ReadFull or the UnixFS file's own Read, DF10 (X6). Nothing removes a block: a snapshot of an unchanged log is the very same file as the previous one, so freeing the replaced snapshot frees the new one (X8).",
		NotDecided:  "round-trip equality of the decoded log."},
	"C14": {ID: "C14", Rules: []ruleRef{{Rule: "M1"}, {Rule: "M2"}, {Rule: "M3"}, {Rule: "M4"}, {Rule: "M5"}, {Rule: "M6"}, {Rule: "M7"}, only("A4", "baseorbitdb"), only("P4", "_manifest", "no-head-key-deletes")}, Controls: []string{"M6"},
		Explanation: "No clock, randomness, process identity or map-iteration order flows into what is written on the address-determination cone (M1); the address prefix constant agrees between printing and parsing (M2); the local-presence test dominates the marker write in Create and store creation in Open, and its outcome can refuse (M3); controller and store type come from the manifest (A4 iii). The ipfs controller's Load assigns the decoded list on every successful path and the decoded manifest takes nothing from the opener (M4); address values are only built by the parser (M5). An address built by joining the manifest hash with the caller's name is only returned where its parsed root equals the manifest hash (M6); the manifest's access-controller address is put in place on every path to the store creation (A4). The marker is looked for in the directory it is written to (M3, third clause) and is only deleted by Drop (P4); the write list a controller saves is not ordered by map iteration (M7).",
		NotDecided:  "injectivity and equality of content addresses; string round trip."},
	"C15": {ID: "C15", Rules: rr("J1", "J2", "J3"), Controls: []string{"J1", "J2"},
		Explanation: "At every merge site the size handed to Join is the constant -1 or is, on every path, positive and bounded by the receiving log's length (J1); DF1 (Join slices values[len-size:] unguarded) is re-derived from the dependency. The limit handed to the head fetches is never 0 (J3) and is not reduced on its way, including through a helper parameter (J2).",
		NotDecided:  "which entries survive trimming (that they are the most recent)."},
	"C16": {ID: "C16", Rules: []ruleRef{{Rule: "E1"}, {Rule: "E2"}, except("E3", "accesscontroller"), {Rule: "E4"}, {Rule: "E5"}, {Rule: "E6"}}, Controls: []string{"E1", "E5", "E6"},
		Explanation: "View refresh and head persistence dominate EventWrite/EventReplicated (E1); every acknowledged write emits exactly one EventWrite carrying the appended entry (E2); each emitter is only given values of the type it was created for (E3); the legacy emitter is on the store's bus on every initialiser path (E4); sends on a legacy subscriber's delivery channel are in one goroutine or all under the queue lock (E5). A try-send used as a wake-up goes to a channel with capacity (E6).",
		NotDecided:  "the bus's own FIFO/back-pressure semantics (dependency)."},
	"C17": {ID: "C17", Rules: []ruleRef{{Rule: "P3"}, only("I4", "Append"), {Rule: "I10"}}, Controls: []string{"P3"},
		Explanation: "The value persisted as local head is produced (Append) and written (Put) inside one exclusive critical section that is not released in between (P3). Every acknowledged write has refreshed the view (I4 on the write path).",
		NotDecided:  "distinctness of appended entries (the dependency's append lock)."},
	"C18": {ID: "C18", Rules: cat(rr("G1", "G3", "G4", "G5", "G6", "G8", "G9", "G10", "G11", "G13", "G14", "B3", "B6", "L5"), []ruleRef{only("G7", "replicator")}), Controls: []string{"G11"},
		Explanation: "Every goroutine's loops have an owner-tied exit and helper goroutines never block on a channel whose receiver may have left (G1); Close reaches cancel, Replicator.Stop, cache close, every emitter it created and the legacy subscribers, every bus subscription is closed, instance Close reaches its parts (G3); no call made under a lock re-acquires the same lock class (G4); Close starts with the closed test, Drop closes first and removes only the path derived from the database's own address (G5); condition variables are signalled with their lock held (G6); shared table entries are not bound to one caller's context (B3). Past its guard Close passes cancel, Replicator.Stop, cache Close and the legacy teardown on every path (G8); close hooks are not chained through the caller's options (B6). What Drop destroys is the directory and address the store's cache was loaded with (G10). A worker whose wait for a fetch slot failed — the request was cancelled, the store closed — releases no slot: a weighted semaphore panics when more is released than was acquired (G7, failing branch). A goroutine that belongs to one call of an operation and writes the replication status is waited for before the operation returns, so that nothing is still writing it after a Close that follows (G11). Close takes no lock that an operation holds across a fetch of log history (G13), and the replicator's workers run under the request context bound to the replicator's own, which Stop cancels (G14).",
		NotDecided:  "prompt return of every post-close operation (depends on leveldb and the bus)."},
	"C19": {ID: "C19", Rules: rr("R1", "R2", "R3", "R4", "R5", "R6"), Controls: []string{"R4"},
		Explanation: "The status is written only by the recalculation helpers and reset only by Close (R1); the helpers are executed abstractly on every weak ordering of (arg, logLen, oldMax, progress, progress+1): neither value decreases and progress <= maximum is re-established (R2). Progress also ends at or above the log length on every order type.",
		NotDecided:  "relation to Lamport times; progress = maximum at rest beyond the paths R3/R4 cover (a failed fetch leaves the maximum raised)."},
	"C20": {ID: "C20", Rules: []ruleRef{{Rule: "X1"}, {Rule: "X2"}, only("X3", "directchannel"), {Rule: "N2"}, only("N1", "directchannel"), except("G7", "replicator"), {Rule: "X4"}, {Rule: "X7"}, only("L5", "pubsub", "verifCtl")}, Controls: []string{"N2", "L5"},
		Explanation: "All three subscription read loops deliver only on the sender ≠ self outcome (X1); the pairwise channel name is the join of the sorted pair {local, remote} (X2); frame writer/reader use matching varint codecs, the reader's bound check precedes allocation, the delivered buffer is the fully read one and is attributed to the stream's remote peer (X3, N1, N2). The membership snapshot is replaced on every successful diff (X4); frame slots are released on every path (G7).",
		NotDecided:  "exactly-once of the polling membership diff; byte-for-byte delivery."},
}

func init() {
	for _, s := range propSpecs {
		s.Assumptions = commonAssumptions
	}
}
