package main

import (
	"fmt"
	"go/token"
	"go/types"
	"sort"
	"strings"

	"golang.org/x/tools/go/ssa"
)

// rulesAddr: M1 (manifest inputs are pure), M2 (address prefix constants agree),
// M3 (create/open guards dominate their effects), D2 (document Delete refuses absent keys).
func rulesAddr(c *Ctx) {
	c.ruleM1()
	c.ruleM2()
	c.ruleM3()
	c.ruleD2()
}

// cone: repo functions reachable from f through static calls and (CHA) interface calls, depth-limited.
func (c *Ctx) cone(f *ssa.Function, depth int, seen map[*ssa.Function]bool) {
	if f == nil || f.Blocks == nil || seen[f] || depth > 6 {
		return
	}
	seen[f] = true
	for _, g := range withClosures(f) {
		seen[g] = true
		eachCall(g, func(call ssa.CallInstruction) {
			for _, cal := range c.repoCalleesCheap(call) {
				c.cone(cal, depth+1, seen)
			}
			// function values called dynamically (registered constructors): all repo functions of that signature type
			cc := call.Common()
			if !cc.IsInvoke() && cc.StaticCallee() == nil {
				if _, isB := cc.Value.(*ssa.Builtin); isB {
					return
				}
				for _, cand := range c.RepoFns {
					if cand.Parent() == nil && cand.Signature.Recv() == nil && types.Identical(cand.Signature, cc.Signature()) && !c.isTestFile(cand.Pos()) {
						c.cone(cand, depth+1, seen)
					}
				}
			}
		})
	}
}

var impureCalls = []string{"time.Now", "time.Since", "math/rand.", "crypto/rand.", "github.com/google/uuid.", "os.Getpid", "os.Hostname"}

func (c *Ctx) ruleM1() {
	var roots []*ssa.Function
	for _, n := range c.implementers(repoMod + "/iface.BaseOrbitDB") {
		if f := c.methodOf(n, "DetermineAddress"); f != nil && f.Blocks != nil {
			roots = append(roots, f)
		}
	}
	c.floor("M1", "DetermineAddress implementations", len(roots), 1)
	seen := map[*ssa.Function]bool{}
	for _, r := range roots {
		c.cone(r, 0, seen)
	}
	c.Counts["M1:functions in the address cone"] = len(seen)
	nW := 0
	viol := 0
	for f := range seen {
		if c.isTestFile(f.Pos()) || c.isControlFn(f) {
			continue
		}
		fk := fnKey(f)
		eachCall(f, func(call ssa.CallInstruction) {
			full := calleeFull(call)
			for _, imp := range impureCalls {
				if full == imp || (strings.HasSuffix(imp, ".") && strings.HasPrefix(full, imp)) {
					// only a problem when the value can reach something that is written
					if call.Value() == nil {
						return
					}
					d := derived([]ssa.Value{call.Value()}, flowOpts{throughCalls: true})
					reaches := false
					eachCall(f, func(w ssa.CallInstruction) {
						if strings.HasSuffix(calleeFull(w), "go-ipfs-log/io.WriteCBOR") {
							for _, a := range w.Common().Args {
								if d[a] {
									reaches = true
								}
							}
						}
					})
					eachInstr(f, func(in ssa.Instruction) {
						if r, ok := in.(*ssa.Return); ok {
							for _, v := range r.Results {
								if d[v] {
									reaches = true
								}
							}
						}
						if s, ok := in.(*ssa.Store); ok && d[s.Val] {
							if _, isField := s.Addr.(*ssa.FieldAddr); isField {
								reaches = true
							}
						}
					})
					if reaches {
						viol++
						c.bad("M1", fk+"→"+full, call.Pos(), "a value from "+full+" flows into data produced on the address-determination path: two peers (or two calls) computing the address of the same name/type/access list obtain different manifests, hence different addresses")
					}
				}
			}
			if strings.HasSuffix(full, "go-ipfs-log/io.WriteCBOR") {
				nW++
			}
		})
		// map iteration order flowing into a serialised/returned slice
		eachInstr(f, func(in ssa.Instruction) {
			rg, ok := in.(*ssa.Range)
			if !ok {
				return
			}
			if _, isMap := rg.X.Type().Underlying().(*types.Map); !isMap {
				return
			}
			// appends inside this loop
			var apps []ssa.Value
			for _, b := range f.Blocks {
				for _, x := range b.Instrs {
					call, ok := x.(*ssa.Call)
					if !ok {
						continue
					}
					if bi, ok := call.Call.Value.(*ssa.Builtin); ok && bi.Name() == "append" && inLoop(b) {
						// appended element depends on the iteration
						dn := derived([]ssa.Value{rg}, flowOpts{})
						for _, a := range call.Call.Args[1:] {
							if dn[a] {
								apps = append(apps, call)
							}
						}
					}
				}
			}
			if len(apps) == 0 {
				return
			}
			d := derived(apps, flowOpts{throughCalls: true})
			sorted := false
			eachCall(f, func(sc ssa.CallInstruction) {
				if strings.HasPrefix(calleeFull(sc), "sort.") || strings.HasPrefix(calleeFull(sc), "slices.Sort") {
					for _, a := range sc.Common().Args {
						if d[a] {
							sorted = true
						}
					}
				}
			})
			if sorted {
				return
			}
			reaches := false
			eachCall(f, func(w ssa.CallInstruction) {
				full := calleeFull(w)
				if strings.HasSuffix(full, "go-ipfs-log/io.WriteCBOR") || full == "encoding/json.Marshal" {
					for _, a := range w.Common().Args {
						if d[a] {
							reaches = true
						}
					}
				}
			})
			if reaches {
				viol++
				c.bad("M1", fk+"#map-order", rg.Pos(), "a slice built while ranging over a map (unspecified order) is serialised on the address-determination path without being sorted: the same access list can yield different manifests")
			}
		})
	}
	c.floor("M1", "manifest writes (WriteCBOR) in the address cone", nW, 2)
	if viol == 0 {
		c.ok("M1", "address-cone#pure", token.NoPos, fmt.Sprintf("no clock, randomness, process-identity or map-iteration-order value flows into what is written or returned on the address-determination path (%d functions, %d manifest writes examined)", len(seen), nW))
	}
}

func (c *Ctx) ruleM2() {
	// the prefix joined by String() and the prefix trimmed by Parse/IsValid, and the one used to build the address
	joins := map[string]token.Pos{}
	trims := map[string]token.Pos{}
	for _, f := range c.RepoFns {
		if c.isTestFile(f.Pos()) {
			continue
		}
		pp := f.Pkg.Pkg.Path()
		if pp != repoMod+"/address" && pp != repoMod+"/baseorbitdb" {
			continue
		}
		eachCall(f, func(call ssa.CallInstruction) {
			switch calleeFull(call) {
			case "path.Join":
				els := variadicElems(call.Common().Args[0])
				// the first element of the join, when it is a constant rooted path: the printed prefix
				for i, e := range els {
					if s, ok := constString(e); ok && strings.HasPrefix(s, "/") && (pp == repoMod+"/address" || strings.HasPrefix(s, "/orb")) {
						joins[s] = call.Pos()
					}
					_ = i
				}
			case "strings.TrimPrefix", "strings.HasPrefix":
				if s, ok := constString(call.Common().Args[1]); ok && strings.Contains(s, "orbitdb") {
					trims[s] = call.Pos()
				}
			}
		})
	}
	c.floor("M2", "address prefix uses (join)", len(joins), 1)
	c.floor("M2", "address prefix uses (trim)", len(trims), 1)
	okAll := true
	for j, p := range joins {
		for t := range trims {
			if strings.TrimSuffix(t, "/") != strings.TrimSuffix(j, "/") {
				okAll = false
				c.bad("M2", "address#prefix", p, fmt.Sprintf("addresses are printed with prefix %q but parsed by trimming %q: a printed address does not parse back to the same root and path", j, t))
			}
		}
	}
	if okAll && len(joins) > 0 && len(trims) > 0 {
		c.ok("M2", "address#prefix", token.NoPos, "the prefix written by String()/DetermineAddress is the one trimmed by Parse/IsValid")
	}
}

func (c *Ctx) ruleM3() {
	kGetManifest := newKind("get:_manifest", func(call ssa.CallInstruction) bool {
		k, ok := c.cacheGetKey(call)
		return ok && k == "_manifest"
	})
	kPutManifest := newKind("put:_manifest", func(call ssa.CallInstruction) bool {
		k, ok := c.cachePutKey(call)
		return ok && k == "_manifest"
	})
	n := 0
	for _, nt := range c.implementers(repoMod + "/iface.BaseOrbitDB") {
		for _, name := range []string{"Create", "Open"} {
			f := c.methodOf(nt, name)
			if f == nil || f.Blocks == nil {
				continue
			}
			fk := fnKey(f)
			// the presence test: a call whose callee reads the marker key (wrapper returning bool)
			var presence []ssa.CallInstruction
			eachCall(f, func(call ssa.CallInstruction) {
				if g := call.Common().StaticCallee(); g != nil && g.Blocks != nil {
					reads := false
					eachInstr(g, func(in ssa.Instruction) {
						if c.isSite(kGetManifest, in) {
							reads = true
						}
					})
					// the wrapper may load the cache first and then ask the reader of the marker
					if !reads && g.Pkg == f.Pkg && g.Signature.Results().Len() >= 1 && typeStr(g.Signature.Results().At(0).Type()) == "bool" {
						reads = c.reachesStatic(g, kGetManifest.direct, 0)
					}
					if reads && call.Value() != nil {
						presence = append(presence, call)
					}
				}
			})
			// or the test and its refusal are one step of the function: a same-package helper that
			// makes the test, returns an error on the refusing outcome, and whose error ends f
			viaHelper := false
			if len(presence) == 0 {
				eachCall(f, func(call ssa.CallInstruction) {
					h := call.Common().StaticCallee()
					if h == nil || h.Blocks == nil || h.Pkg != f.Pkg || len(presence) > 0 {
						return
					}
					ev := errResult(call)
					if ev == nil || !(returnedDirectly(ev) || len(errTests(ev)) > 0) {
						return
					}
					var inner []ssa.CallInstruction
					eachCall(h, func(ic ssa.CallInstruction) {
						if g := ic.Common().StaticCallee(); g != nil && g.Blocks != nil && ic.Value() != nil {
							reads := false
							eachInstr(g, func(in ssa.Instruction) {
								if c.isSite(kGetManifest, in) {
									reads = true
								}
							})
							if reads {
								inner = append(inner, ic)
							}
						}
					})
					if len(inner) == 0 {
						return
					}
					dh := derived([]ssa.Value{inner[0].Value()}, flowOpts{})
					refusesInside := false
					for _, b := range h.Blocks {
						if len(b.Instrs) == 0 {
							continue
						}
						iff, ok := b.Instrs[len(b.Instrs)-1].(*ssa.If)
						if !ok {
							continue
						}
						cond := iff.Cond
						if u, ok := cond.(*ssa.UnOp); ok && u.Op == token.NOT {
							cond = u.X
						}
						if !dh[cond] {
							continue
						}
						for _, sc := range b.Succs {
							if hit, _ := findPath(h, atBlock(sc), nil, func(in ssa.Instruction) bool {
								r, ok := in.(*ssa.Return)
								return ok && isFailureReturn(r)
							}, nil); hit != nil && dominates(sc, hit.Block()) {
								refusesInside = true
							}
						}
					}
					if refusesInside {
						presence = append(presence, call)
						viaHelper = true
					}
				})
			}
			if len(presence) == 0 {
				continue
			}
			n++
			if name == "Create" {
				c.markerDirectories(f, kGetManifest, kPutManifest)
			}
			isPresence := func(in ssa.Instruction) bool {
				for _, p := range presence {
					if in == ssa.Instruction(p) {
						return true
					}
				}
				return false
			}
			// the guarded effect
			var effect instrPred
			var what string
			if name == "Create" {
				effect = func(in ssa.Instruction) bool { return c.isSite(kPutManifest, in) }
				what = "writing the local-presence marker"
			} else {
				effect = func(in ssa.Instruction) bool {
					call, ok := in.(ssa.CallInstruction)
					if !ok {
						return false
					}
					g := call.Common().StaticCallee()
					if g == nil || g.Blocks == nil {
						return false
					}
					has := false
					eachCall(g, func(cc ssa.CallInstruction) {
						if !cc.Common().IsInvoke() && cc.Common().StaticCallee() == nil && strings.HasSuffix(typeStr(cc.Common().Value.Type()), "iface.StoreConstructor") {
							has = true
						}
					})
					return has
				}
				what = "creating the store"
			}
			cons := fk + "#presence-test-before-effect"
			if hit, tr := findPath(f, entry, isPresence, effect, nil); hit != nil {
				c.bad("M3", cons, hit.Pos(), name+" reaches "+what+" without first testing whether the database is known locally", c.trailStr(tr)...)
			} else {
				c.ok("M3", cons, presence[0].Pos(), "the local-presence test dominates "+what)
			}
			// the test's outcome guards an error return that precedes the effect
			d := derived([]ssa.Value{presence[0].Value()}, flowOpts{})
			refuses := false
			for _, b := range f.Blocks {
				if len(b.Instrs) == 0 {
					continue
				}
				iff, ok := b.Instrs[len(b.Instrs)-1].(*ssa.If)
				if !ok {
					continue
				}
				cond := iff.Cond
				if u, ok := cond.(*ssa.UnOp); ok && u.Op == token.NOT {
					cond = u.X
				}
				if !d[cond] {
					continue
				}
				// one of the branches (possibly after further tests of options) reaches a failing return
				// before any effect
				for _, s := range b.Succs {
					if hit, _ := findPath(f, atBlock(s), effect, func(in ssa.Instruction) bool {
						r, ok := in.(*ssa.Return)
						return ok && isFailureReturn(r)
					}, nil); hit != nil && dominates(s, hit.Block()) {
						refuses = true
					}
				}
			}
			cons = fk + "#refusal"
			if refuses || viaHelper {
				c.ok("M3", cons, presence[0].Pos(), "the outcome of the local-presence test can refuse the request before "+what)
			} else {
				c.bad("M3", cons, presence[0].Pos(), "the outcome of the local-presence test never refuses the request: "+map[string]string{"Create": "creating over an existing database is not refused", "Open": "a local-only open of an unknown database is not refused"}[name])
			}
		}
	}
	c.floor("M3", "create/open entry points with a presence test", n, 2)
}

// D2: the document store's Delete refuses keys that are absent from the view.
func (c *Ctx) ruleD2() {
	n := 0
	kAppend := newKind("append", func(call ssa.CallInstruction) bool { return c.isLogCall(call, "Append") })
	for _, f := range c.fnsInPkg("stores/documentstore") {
		if f.Parent() != nil || f.Name() != "Delete" || c.isTestFile(f.Pos()) {
			continue
		}
		n++
		fk := fnKey(f)
		// presence test: Index().Get(key) compared with nil, leaving on absence
		var tests []*ssa.If
		absentEdge := map[*ssa.If]int{}
		eachInstr(f, func(in ssa.Instruction) {
			bo, ok := in.(*ssa.BinOp)
			if !ok || (bo.Op != token.EQL && bo.Op != token.NEQ) {
				return
			}
			var other ssa.Value
			if isNilConst(bo.Y) {
				other = bo.X
			} else if isNilConst(bo.X) {
				other = bo.Y
			} else {
				return
			}
			call, ok := other.(*ssa.Call)
			if !ok || !c.isMethodOn(call, "Get", ifaceIndex) {
				return
			}
			if a := argsOf(call); len(a) != 1 || !strings.HasPrefix(nf(a[0]), "param:") {
				return
			}
			for _, r := range *bo.Referrers() {
				if iff, ok := r.(*ssa.If); ok {
					tests = append(tests, iff)
					if bo.Op == token.EQL {
						absentEdge[iff] = 0
					} else {
						absentEdge[iff] = 1
					}
				}
			}
		})
		cons := fk + "#refuses-absent-key"
		if len(tests) == 0 {
			c.bad("D2", cons, f.Pos(), "Delete appends a DEL operation without testing that the key is present in the view: deleting an absent key is accepted")
			continue
		}
		// following only the "absent" edges, the append must be unreachable
		cut := func(b *ssa.BasicBlock, si int) bool {
			for _, iff := range tests {
				if iff.Block() == b {
					return si != absentEdge[iff]
				}
			}
			return false
		}
		// search from the test's absent branch
		viol := false
		for _, iff := range tests {
			s := iff.Block().Succs[absentEdge[iff]]
			if hit, tr := findPath(f, atBlock(s), nil, func(in ssa.Instruction) bool { return c.isSite(kAppend, in) }, cut); hit != nil {
				viol = true
				c.bad("D2", cons, hit.Pos(), "the branch taken when the key is absent still reaches the append of the DEL operation", c.trailStr(tr)...)
			}
		}
		// and the append must not be reachable without passing the test
		isTest := func(in ssa.Instruction) bool {
			for _, iff := range tests {
				if in == ssa.Instruction(iff) {
					return true
				}
			}
			return false
		}
		if hit, tr := findPath(f, entry, isTest, func(in ssa.Instruction) bool { return c.isSite(kAppend, in) }, nil); hit != nil {
			viol = true
			c.bad("D2", cons, hit.Pos(), "the DEL operation can be appended on a path that skips the presence test", c.trailStr(tr)...)
		}
		if !viol {
			c.ok("D2", cons, f.Pos(), "every path to the append passes the presence test, and the absent branch leaves with an error")
		}
	}
	c.floor("D2", "document-store Delete", n, 1)
	_ = fmt.Sprint
}

// markerDirectories (M3, third clause): the marker is looked for where it is written. In the
// function that tests the local-presence marker and writes it, every cache the marker is read
// from or written to is loaded with the same directory (origins compared as in G10). Looked
// for under the per-database Directory option but written under the instance directory, a
// second Create of the same database is accepted instead of refused.
func (c *Ctx) markerDirectories(f *ssa.Function, kGet, kPut *siteKind) {
	touchesMarker := func(g *ssa.Function) bool {
		return g != nil && g.Blocks != nil && (c.reachesStatic(g, kGet.direct, 0) || c.reachesStatic(g, kPut.direct, 0))
	}
	createsStore := func(g *ssa.Function) bool {
		return c.reachesStatic(g, func(cc ssa.CallInstruction) bool {
			return !cc.Common().IsInvoke() && cc.Common().StaticCallee() == nil && strings.HasSuffix(typeStr(cc.Common().Value.Type()), "iface.StoreConstructor")
		}, 0)
	}
	dirs := map[string]token.Pos{}
	addLoads := func(call ssa.CallInstruction, g *ssa.Function) {
		nb := map[ssa.Value]ssa.Value{}
		for i, a := range call.Common().Args {
			if i < len(g.Params) {
				nb[g.Params[i]] = a
			}
		}
		for _, l := range c.cacheCallsFrom(g, "Load", nb, 1) {
			dirs[l.dir] = call.Pos()
		}
	}
	var markerCalls []ssa.CallInstruction
	eachCall(f, func(call ssa.CallInstruction) {
		g := call.Common().StaticCallee()
		if g == nil || g.Blocks == nil || g.Pkg != f.Pkg || createsStore(g) {
			return
		}
		if touchesMarker(g) {
			markerCalls = append(markerCalls, call)
			addLoads(call, g)
		}
	})
	// caches loaded here and handed to a function that touches the marker
	eachCall(f, func(call ssa.CallInstruction) {
		g := call.Common().StaticCallee()
		if g == nil || g.Blocks == nil || g.Pkg != f.Pkg || call.Value() == nil || touchesMarker(g) || createsStore(g) {
			return
		}
		if len(c.cacheCallsFrom(g, "Load", map[ssa.Value]ssa.Value{}, 1)) == 0 {
			return
		}
		d := derived([]ssa.Value{call.Value()}, flowOpts{})
		for _, mc := range markerCalls {
			for _, a := range mc.Common().Args {
				if d[a] {
					addLoads(call, g)
				}
			}
		}
	})
	cons := fnKey(f) + "#marker-read-where-written"
	if len(dirs) <= 1 {
		c.ok("M3", cons, f.Pos(), "the caches the local-presence marker is read from and written to are loaded with one and the same directory")
		return
	}
	var ds []string
	var at token.Pos
	for d, p := range dirs {
		ds = append(ds, d)
		at = p
	}
	sort.Strings(ds)
	c.bad("M3", cons, at, "the local-presence marker is looked for and written in caches loaded with different directories ("+strings.Join(ds, " vs ")+"): when the two differ — the per-database Directory option — the marker is written in one place and looked for in another, and a second Create of the same database is accepted instead of refused")
}
