package main

import (
	"fmt"
	"go/token"
	"go/types"
	"os"
	"sort"
	"strings"
	"time"

	"golang.org/x/tools/go/callgraph"
	"golang.org/x/tools/go/callgraph/cha"
	"golang.org/x/tools/go/callgraph/vta"
	"golang.org/x/tools/go/packages"
	"golang.org/x/tools/go/ssa"
	"golang.org/x/tools/go/ssa/ssautil"
)

const repoMod = "berty.tech/go-orbit-db"
const logMod = "berty.tech/go-ipfs-log"

// Ctx is everything one run knows about the analysed tree.
type Ctx struct {
	Repo         string
	Tier         string
	GOARCH       string
	Fset         *token.FileSet
	Roots        []*packages.Package
	All          map[string]*packages.Package
	Prog         *ssa.Program
	RepoFns      []*ssa.Function // every function (incl. closures) whose package is a non-test repo package
	TestFns      []*ssa.Function // functions of test packages / _test files (thorough only)
	cg           *callgraph.Graph
	cgKind       string
	Obls         []*Obligation
	Notes        []string
	DepFacts     map[string]string
	Counts       map[string]int
	WithCtl      bool
	fnByKey      map[string]*ssa.Function
	ifaceCache   map[string]*types.Interface
	wireTaint    map[ssa.Value]bool // values derived from a received heads list (set by T1)
	lenCacheMemo map[*types.Var]bool
	j3Values     map[*ssa.Parameter]bool
	j3Decided    *bool
	dsKeyDepth   int
	lockMemo     *lockMemo
	replMemo     *replImpl
	allFnsMemo   map[*ssa.Function]bool
}

// allFns: every function of the program, dependencies included.
func (c *Ctx) allFns() map[*ssa.Function]bool {
	if c.allFnsMemo == nil {
		c.allFnsMemo = ssautil.AllFunctions(c.Prog)
	}
	return c.allFnsMemo
}

func (c *Ctx) note(f string, a ...interface{}) { c.Notes = append(c.Notes, fmt.Sprintf(f, a...)) }

func inRepo(p *types.Package) bool {
	return p != nil && (p.Path() == repoMod || strings.HasPrefix(p.Path(), repoMod+"/"))
}

func isTestPkgPath(p string) bool {
	return strings.HasSuffix(p, "_test") || strings.HasSuffix(p, ".test") || strings.HasPrefix(p, repoMod+"/tests")
}

// load type-checks the whole program rooted at repo (./...) and builds SSA.
func load(repo, tier, goarch string, overlay map[string][]byte) (*Ctx, error) {
	env := append(os.Environ(),
		"GOFLAGS=-mod=mod", "GOPROXY=off", "GOSUMDB=off", "GOTOOLCHAIN=local", "GOWORK=off", "CGO_ENABLED=0")
	if goarch != "" {
		env = append(env, "GOARCH="+goarch)
	}
	cfg := &packages.Config{
		Mode:    packages.LoadAllSyntax,
		Dir:     repo,
		Env:     env,
		Tests:   tier == "thorough",
		Overlay: overlay,
	}
	t0 := time.Now()
	pkgs, err := packages.Load(cfg, "./...")
	if err != nil {
		return nil, fmt.Errorf("packages.Load: %w", err)
	}
	if os.Getenv("ODB_TIMING") != "" {
		fmt.Fprintln(os.Stderr, "load", time.Since(t0))
		defer func() { fmt.Fprintln(os.Stderr, "load+ssa", time.Since(t0)) }()
	}
	if len(pkgs) == 0 {
		return nil, fmt.Errorf("no packages loaded from %s", repo)
	}
	c := &Ctx{Repo: repo, Tier: tier, GOARCH: goarch, All: map[string]*packages.Package{},
		DepFacts: map[string]string{}, Counts: map[string]int{}, fnByKey: map[string]*ssa.Function{}}
	var terrs []string
	packages.Visit(pkgs, nil, func(p *packages.Package) {
		c.All[p.ID] = p
		if inRepo(p.Types) || strings.HasPrefix(p.PkgPath, repoMod) {
			for _, e := range p.Errors {
				terrs = append(terrs, e.Error())
			}
		}
	})
	if len(terrs) > 0 {
		sort.Strings(terrs)
		if len(terrs) > 8 {
			terrs = terrs[:8]
		}
		return nil, fmt.Errorf("type errors in analysed tree: %s", strings.Join(terrs, "; "))
	}
	c.Roots = pkgs
	c.Fset = pkgs[0].Fset
	prog, _ := ssautil.AllPackages(pkgs, ssa.InstantiateGenerics)
	prog.Build()
	c.Prog = prog
	seen := map[*ssa.Function]bool{}
	var addFn func(f *ssa.Function, test bool)
	addFn = func(f *ssa.Function, test bool) {
		if f == nil || seen[f] {
			return
		}
		seen[f] = true
		if f.Blocks != nil {
			if test {
				c.TestFns = append(c.TestFns, f)
			} else {
				c.RepoFns = append(c.RepoFns, f)
			}
		}
		for _, a := range f.AnonFuncs {
			addFn(a, test)
		}
	}
	for _, sp := range prog.AllPackages() {
		if sp.Pkg == nil || !inRepo(sp.Pkg) {
			continue
		}
		testPkg := isTestPkgPath(sp.Pkg.Path())
		for _, m := range sp.Members {
			switch m := m.(type) {
			case *ssa.Function:
				addFn(m, testPkg || c.isTestFile(m.Pos()))
			case *ssa.Type:
				for _, t := range []types.Type{m.Type(), types.NewPointer(m.Type())} {
					ms := prog.MethodSets.MethodSet(t)
					for i := 0; i < ms.Len(); i++ {
						f := prog.MethodValue(ms.At(i))
						if f != nil && f.Pkg == sp && f.Synthetic == "" {
							addFn(f, testPkg || c.isTestFile(f.Pos()))
						}
					}
				}
			}
		}
	}
	sort.Slice(c.RepoFns, func(i, j int) bool { return c.posLess(c.RepoFns[i].Pos(), c.RepoFns[j].Pos()) })
	for _, f := range c.RepoFns {
		c.fnByKey[fnKey(f)] = f
	}
	return c, nil
}

func (c *Ctx) isTestFile(p token.Pos) bool {
	if !p.IsValid() {
		return false
	}
	return strings.HasSuffix(c.Fset.Position(p).Filename, "_test.go")
}

func (c *Ctx) posLess(a, b token.Pos) bool {
	pa, pb := c.Fset.Position(a), c.Fset.Position(b)
	if pa.Filename != pb.Filename {
		return pa.Filename < pb.Filename
	}
	if pa.Line != pb.Line {
		return pa.Line < pb.Line
	}
	return pa.Column < pb.Column
}

// pos renders a position relative to the repo root.
func (c *Ctx) pos(p token.Pos) string {
	if !p.IsValid() {
		return "-"
	}
	q := c.Fset.Position(p)
	fn := q.Filename
	if strings.HasPrefix(fn, c.Repo+"/") {
		fn = fn[len(c.Repo)+1:]
	} else if i := strings.Index(fn, "/pkg/mod/"); i >= 0 {
		fn = "(dep)" + fn[i+len("/pkg/mod/"):]
	}
	return fmt.Sprintf("%s:%d", fn, q.Line)
}

// fnKey is a stable, position-free name of a function: pkg.(recv).name, closures as parent$n.
func fnKey(f *ssa.Function) string {
	if f == nil {
		return "<nil>"
	}
	if f.Parent() != nil {
		return fnKey(f.Parent()) + "$" + strings.TrimPrefix(f.Name(), f.Parent().Name()+"$")
	}
	s := f.RelString(nil)
	s = strings.ReplaceAll(s, repoMod+"/", "")
	s = strings.ReplaceAll(s, repoMod, "orbitdb")
	return s
}

func (c *Ctx) isControlFn(f *ssa.Function) bool {
	for ; f != nil; f = f.Parent() {
		if strings.HasPrefix(f.Name(), "verifCtl") {
			return true
		}
	}
	return false
}

// Callgraph returns (lazily) the call graph for the tier: CHA (quick) or VTA seeded with CHA (thorough).
func (c *Ctx) Callgraph() *callgraph.Graph {
	if c.cg != nil {
		return c.cg
	}
	ch := cha.CallGraph(c.Prog)
	if c.Tier == "thorough" {
		c.cg = vta.CallGraph(ssautil.AllFunctions(c.Prog), ch)
		c.cgKind = "vta(cha)"
	} else {
		c.cg = ch
		c.cgKind = "cha"
	}
	return c.cg
}

// callees resolves the possible callees of a call instruction.
func (c *Ctx) callees(call ssa.CallInstruction) []*ssa.Function {
	if f := call.Common().StaticCallee(); f != nil {
		return []*ssa.Function{f}
	}
	cg := c.Callgraph()
	n := cg.Nodes[call.Parent()]
	if n == nil {
		return nil
	}
	var out []*ssa.Function
	for _, e := range n.Out {
		if e.Site == call {
			out = append(out, e.Callee.Func)
		}
	}
	return out
}

// repoCallees restricts callees to functions with bodies inside the repo.
func (c *Ctx) repoCallees(call ssa.CallInstruction) []*ssa.Function {
	var out []*ssa.Function
	for _, f := range c.callees(call) {
		if f != nil && f.Blocks != nil && f.Pkg != nil && inRepo(f.Pkg.Pkg) {
			out = append(out, f)
		}
	}
	return out
}

type pkgT = packages.Package
