package main

import (
	"fmt"
	"go/token"
	"go/types"
	"sort"
	"strings"

	"golang.org/x/tools/go/ssa"
)

// newTypeOf: for `new(T)` boxed into an interface returns T.
func newTypeOf(v ssa.Value) types.Type {
	v = strip(v)
	if a, ok := v.(*ssa.Alloc); ok {
		if p, ok := a.Type().(*types.Pointer); ok {
			return p.Elem()
		}
	}
	return nil
}

func fieldVarOf(fa *ssa.FieldAddr) *types.Var {
	t := fa.X.Type()
	if p, ok := t.Underlying().(*types.Pointer); ok {
		t = p.Elem()
	}
	if s, ok := t.Underlying().(*types.Struct); ok && fa.Field < s.NumFields() {
		return s.Field(fa.Field)
	}
	return nil
}

// rulesBus: E3, E4, E5 (emitters), B1, B2, B3 (isolation), P2, P3 (cache keys, atomic head).
func rulesBus(c *Ctx) {
	c.ruleE3()
	c.ruleE4()
	c.ruleE5()
	c.ruleB1()
	c.ruleB2()
	c.ruleB3()
	c.ruleP2()
	c.ruleP3()
}

// ---------------------------------------------------------------------------
// E3

func (c *Ctx) ruleE3() {
	type creation struct {
		t    types.Type
		call ssa.CallInstruction
		d    map[ssa.Value]bool
	}
	fieldType := map[*types.Var]types.Type{}
	var creations []creation
	nCreate := 0
	for _, f := range c.RepoFns {
		if c.isTestFile(f.Pos()) {
			continue
		}
		eachCall(f, func(call ssa.CallInstruction) {
			if !c.isMethodOn(call, "Emitter", ifaceBus) || call.Value() == nil {
				return
			}
			a := argsOf(call)
			if len(a) < 1 {
				return
			}
			t := newTypeOf(a[0])
			if t == nil {
				c.undecided("E3", fnKey(f)+"→Emitter#type", call.Pos(), "emitter created for a type that is not given as new(T)")
				return
			}
			d := derived([]ssa.Value{call.Value()}, flowOpts{intoClosures: true})
			creations = append(creations, creation{t, call, d})
			if !c.isControlFn(f) {
				nCreate++
			}
			for v := range d {
				if refs := v.Referrers(); refs != nil {
					for _, r := range *refs {
						if st, ok := r.(*ssa.Store); ok && st.Val == v {
							if fa, ok := st.Addr.(*ssa.FieldAddr); ok {
								if fv := fieldVarOf(fa); fv != nil {
									fieldType[fv] = t
								}
							}
						}
					}
				}
			}
		})
	}
	c.floor("E3", "emitter creations", nCreate, 12)
	nEmit := 0
	for _, f := range c.RepoFns {
		if c.isTestFile(f.Pos()) {
			continue
		}
		k := 0
		eachCall(f, func(call ssa.CallInstruction) {
			vt, ok := c.emitEventType(call)
			if !ok {
				return
			}
			// skip the wrapper type's own forwarding method value typed as the interface parameter
			r := recvOf(call)
			var want types.Type
			if u, ok := r.(*ssa.UnOp); ok && u.Op == token.MUL {
				if fa, ok := u.X.(*ssa.FieldAddr); ok {
					want = fieldType[fieldVarOf(fa)]
				}
			}
			if want == nil {
				for _, cr := range creations {
					if cr.d[r] {
						want = cr.t
					}
				}
			}
			if want == nil {
				return // emitter of unknown provenance (e.g. interface parameter): not an E3 site
			}
			if !c.isControlFn(f) {
				nEmit++
			}
			cons := fmt.Sprintf("%s→Emit#%d(%s)", fnKey(f), k, namedName(want))
			k++
			if types.Identical(vt, want) {
				c.ok("E3", cons, call.Pos(), "emitted value has exactly the type the emitter was created for")
			} else {
				c.bad("E3", cons, call.Pos(), fmt.Sprintf("the emitter was created with new(%s) but a value of type %s is emitted: the event bus panics on a type mismatch (DF5)", typeStr(want), typeStr(vt)))
			}
		})
	}
	c.floor("E3", "Emit sites with known emitter", nEmit, 14)
}

// ---------------------------------------------------------------------------
// E4

func (c *Ctx) ruleE4() {
	st := c.storeType()
	if st == nil {
		c.floor("E4", "store type", 0, 1)
		return
	}
	busI := c.lookupIface(ifaceBus)
	n := 0
	for _, f := range c.methodsOf(st) {
		if f.Parent() != nil {
			continue
		}
		eachInstr(f, func(in ssa.Instruction) {
			s, ok := in.(*ssa.Store)
			if !ok {
				return
			}
			fa, ok := s.Addr.(*ssa.FieldAddr)
			if !ok || !isRecv(f, fa.X) {
				return
			}
			it, ok := fieldVarOf(fa).Type().Underlying().(*types.Interface)
			if !ok || busI == nil || !types.Identical(it, busI) {
				return
			}
			n++
			cons := fnKey(f) + "→store-bus"
			setBus := func(in ssa.Instruction) bool {
				call, ok := in.(ssa.CallInstruction)
				if !ok {
					return false
				}
				g := call.Common().StaticCallee()
				if g == nil || g.Name() != "SetBus" || g.Signature.Recv() == nil || !strings.Contains(typeStr(g.Signature.Recv().Type()), "events.EventEmitter") {
					return false
				}
				return true
			}
			target := func(x ssa.Instruction) bool { return x == in }
			if hit, tr := findPath(f, entry, setBus, target, nil); hit != nil {
				c.bad("E4", cons, in.Pos(), "on some path the bus kept for typed subscribers is set without handing the same bus to the embedded legacy emitter: Subscribe()/GlobalChannel() then listen on a different, lazily created bus and never receive the store's events", c.trailStr(tr)...)
			} else {
				c.ok("E4", cons, in.Pos(), "the legacy emitter is given the store's bus on every path")
			}
		})
	}
	c.floor("E4", "stores of the event bus in the store type", n, 1)
}

// ---------------------------------------------------------------------------
// E5

func (c *Ctx) ruleE5() {
	n := 0
	for _, f := range c.fnsInPkg("events") {
		if c.isTestFile(f.Pos()) || f.Parent() != nil {
			continue
		}
		// delivery channels: created here and returned
		eachInstr(f, func(in ssa.Instruction) {
			mk, ok := in.(*ssa.MakeChan)
			if !ok {
				return
			}
			d := derived([]ssa.Value{mk}, flowOpts{intoClosures: true})
			returned := false
			eachInstr(f, func(x ssa.Instruction) {
				if r, ok := x.(*ssa.Return); ok {
					for _, v := range r.Results {
						if d[v] {
							returned = true
						}
					}
				}
			})
			if !returned {
				return
			}
			n++
			// senders per goroutine closure
			type snd struct {
				g   *ssa.Function
				in  ssa.Instruction
				pos token.Pos
			}
			var sends []snd
			seenFn := map[*ssa.Function]bool{}
			var collect func(g *ssa.Function, dv map[ssa.Value]bool, depth int)
			collect = func(g *ssa.Function, dv map[ssa.Value]bool, depth int) {
				if g == nil || g.Blocks == nil || seenFn[g] || depth > 3 {
					return
				}
				seenFn[g] = true
				eachInstr(g, func(x ssa.Instruction) {
					switch y := x.(type) {
					case *ssa.Send:
						if dv[y.Chan] {
							sends = append(sends, snd{g, y, y.Pos()})
						}
					case *ssa.Select:
						for _, s := range y.States {
							if s.Dir == types.SendOnly && dv[s.Chan] {
								sends = append(sends, snd{g, y, s.Pos})
							}
						}
					case ssa.CallInstruction:
						// the channel handed to a repo function (possibly started with go)
						if h := y.Common().StaticCallee(); h != nil && h.Blocks != nil && h.Pkg != nil && inRepo(h.Pkg.Pkg) {
							var ps []ssa.Value
							for i, a := range y.Common().Args {
								if dv[a] && i < len(h.Params) {
									ps = append(ps, h.Params[i])
								}
							}
							if len(ps) > 0 {
								collect(h, derived(ps, flowOpts{intoClosures: true}), depth+1)
							}
						}
					}
				})
			}
			for _, g := range withClosures(f) {
				collect(g, d, 0)
			}
			gs := map[*ssa.Function]bool{}
			for _, s := range sends {
				gs[s.g] = true
			}
			// lossless clause: a send on the delivery channel may only be abandoned because the
			// subscription ended (a done-style signal), never because nobody was receiving at that
			// moment (default arm) or because time ran out (an arm receiving a time.Time)
			for _, s := range sends {
				sel, ok := s.in.(*ssa.Select)
				if !ok {
					continue
				}
				// a channel of empty structs carries wake-up signals, which may be coalesced (rule E6)
				if ct, ok := mk.Type().Underlying().(*types.Chan); ok {
					if st, ok := ct.Elem().Underlying().(*types.Struct); ok && st.NumFields() == 0 {
						continue
					}
				}
				lc := fnKey(f) + "#delivery-send-abandoned-only-when-ended"
				why := ""
				if !sel.Blocking {
					why = "the select sending the event on the subscriber's delivery channel has a default arm: an event already taken from the queue is dropped whenever the subscriber is not receiving at that very moment (and the channel buffer is full)"
				}
				for _, st := range sel.States {
					if st.Dir != types.RecvOnly {
						continue
					}
					if ch, ok := st.Chan.Type().Underlying().(*types.Chan); ok {
						if nt, ok := ch.Elem().(*types.Named); ok && nt.Obj().Pkg() != nil && nt.Obj().Pkg().Path() == "time" && nt.Obj().Name() == "Time" {
							why = "the select sending the event on the subscriber's delivery channel has a time-out arm: an event already taken from the queue is given up (and with it whatever is still queued) when a live subscriber is merely slow — delivery is no longer lossless"
						}
					}
				}
				if why != "" {
					c.bad("E5", lc, s.pos, why)
				} else {
					c.ok("E5", lc, s.pos, "the send on the delivery channel competes only with done-style signals (no default arm, no time-out arm)")
				}
			}
			cons := fnKey(f) + "#delivery-channel-senders"
			if len(gs) <= 1 {
				c.ok("E5", cons, mk.Pos(), fmt.Sprintf("all %d send(s) on the delivery channel are in one goroutine: order of sends is program order", len(sends)))
				return
			}
			// several sender goroutines: each send must hold a common lock
			var common lockset
			var offender *snd
			for i := range sends {
				ls := locksets(sends[i].g)[sends[i].in]
				if len(ls) == 0 {
					offender = &sends[i]
					break
				}
				if common == nil {
					common = ls
				} else {
					common = meet(common, ls)
				}
			}
			if offender != nil || len(common) == 0 {
				p := mk.Pos()
				if offender != nil {
					p = offender.pos
				}
				c.bad("E5", cons, p, fmt.Sprintf("%d goroutines send on the subscriber's delivery channel and at least one send happens outside the queue lock: an event taken from the overflow queue (under the lock) is sent after the lock is released, while the reader goroutine's fast path, seeing the queue empty, sends a NEWER event first — the subscriber observes events out of emission order", len(gs)))
			} else {
				c.ok("E5", cons, mk.Pos(), "every send on the delivery channel is performed under the queue lock "+common.String())
			}
		})
	}
	c.floor("E5", "legacy delivery channels", n, 1)
}

// ---------------------------------------------------------------------------
// B1

type subscription struct {
	call    ssa.CallInstruction
	fn      *ssa.Function
	types   []types.Type
	wild    bool
	replBus bool
	private bool
}

func (c *Ctx) subscriptions() []subscription {
	var out []subscription
	for _, f := range c.RepoFns {
		if c.isTestFile(f.Pos()) {
			continue
		}
		eachCall(f, func(call ssa.CallInstruction) {
			if !c.isMethodOn(call, "Subscribe", ifaceBus) {
				return
			}
			a := argsOf(call)
			if len(a) < 1 {
				return
			}
			s := subscription{call: call, fn: f}
			arg := strip(a[0])
			switch {
			case strings.Contains(nf(arg), "WildcardSubscription"):
				s.wild = true
			case newTypeOf(arg) != nil:
				s.types = append(s.types, newTypeOf(arg))
			default:
				// slice literal of new(T)s, or a package-level list
				for _, e := range variadicElems(arg) {
					if t := newTypeOf(e); t != nil {
						s.types = append(s.types, t)
					}
				}
				if len(s.types) == 0 {
					if u, ok := arg.(*ssa.UnOp); ok {
						if g, ok := u.X.(*ssa.Global); ok {
							s.types = c.globalNewTypes(g)
						}
					}
				}
			}
			r := nf(recvOf(call))
			s.replBus = strings.Contains(r, "eplicator") && strings.Contains(r, "EventBus()")
			out = append(out, s)
		})
	}
	return out
}

// globalNewTypes: the T of every new(T) stored into a package-level list by the package initialiser.
func (c *Ctx) globalNewTypes(g *ssa.Global) []types.Type {
	var out []types.Type
	init := g.Pkg.Func("init")
	if init == nil {
		return nil
	}
	eachInstr(init, func(in ssa.Instruction) {
		if mi, ok := in.(*ssa.MakeInterface); ok {
			if t := newTypeOf(mi); t != nil {
				if n, ok := t.(*types.Named); ok && n.Obj().Pkg() == g.Pkg.Pkg {
					out = append(out, t)
				}
			}
		}
	})
	return out
}

// replicatorBusPrivate: at every NewReplicator call the Options literal leaves EventBus
// unset/nil or sets it to a bus created on the spot.
func (c *Ctx) replicatorBusPrivate() (bool, token.Pos) {
	private := true
	var pos token.Pos
	found := false
	for _, f := range c.RepoFns {
		if c.isTestFile(f.Pos()) {
			continue
		}
		eachCall(f, func(call ssa.CallInstruction) {
			if calleeFull(call) != repoMod+"/stores/replicator.NewReplicator" {
				return
			}
			found = true
			for _, a := range call.Common().Args {
				if p, ok := a.Type().(*types.Pointer); ok && strings.HasSuffix(typeStr(p.Elem()), "replicator.Options") {
					fl := structLitFields(a)
					if v, ok := fl["EventBus"]; ok && !isNilConst(v) {
						if cl, ok := strip(v).(*ssa.Call); ok && strings.HasSuffix(calleeFull(cl), "eventbus.NewBus") {
							continue
						}
						private = false
						pos = call.Pos()
					}
				}
			}
		})
	}
	return found && private, pos
}

func storeScoped(t types.Type) (scoped bool, hasAddr bool) {
	n, ok := t.(*types.Named)
	if !ok || n.Obj().Pkg() == nil {
		return false, false
	}
	pp := n.Obj().Pkg().Path()
	if pp != repoMod+"/stores" && pp != repoMod+"/stores/replicator" {
		return false, false
	}
	if !strings.HasPrefix(n.Obj().Name(), "Event") {
		return false, false
	}
	if st, ok := n.Underlying().(*types.Struct); ok {
		for i := 0; i < st.NumFields(); i++ {
			if st.Field(i).Name() == "Address" {
				hasAddr = true
			}
		}
	}
	return true, hasAddr
}

// isEffect: a call that does something on behalf of the subscriber (as opposed to reading).
func (c *Ctx) isEffect(in ssa.Instruction) bool {
	switch x := in.(type) {
	case *ssa.Go:
		return true
	case *ssa.Send:
		return true
	case *ssa.Call:
		if _, ok := x.Call.Value.(*ssa.Builtin); ok {
			return false
		}
		name := methodName(x)
		switch name {
		case "Emit", "Publish", "Sync", "Load", "Send", "Put":
			return true
		}
		if f := x.Call.StaticCallee(); f != nil && f.Blocks != nil && f.Pkg != nil && inRepo(f.Pkg.Pkg) {
			// pure accessors are not effects
			if len(f.Blocks) == 1 && f.Signature.Results().Len() > 0 && len(f.Blocks[0].Instrs) <= 6 {
				pure := true
				for _, y := range f.Blocks[0].Instrs {
					switch y.(type) {
					case *ssa.FieldAddr, *ssa.UnOp, *ssa.Return, *ssa.Field, *ssa.MakeInterface, *ssa.ChangeInterface:
					default:
						if cc, ok := y.(*ssa.Call); ok && lockOpOf(cc) != nil {
							continue
						}
						if _, ok := y.(*ssa.Defer); ok {
							continue
						}
						if _, ok := y.(*ssa.RunDefers); ok {
							continue
						}
						pure = false
					}
				}
				if pure {
					return false
				}
			}
			if strings.HasPrefix(f.Name(), "New") || f.Name() == "Address" || f.Name() == "Logger" || f.Name() == "ReplicationStatus" {
				return false
			}
			return true
		}
	}
	return false
}

func (c *Ctx) ruleB1() {
	subs := c.subscriptions()
	nSubs := 0
	for _, s := range subs {
		if !c.isControlFn(s.fn) {
			nSubs++
		}
	}
	c.floor("B1", "bus subscriptions", nSubs, 4)
	replPrivate, replPos := c.replicatorBusPrivate()
	nScoped := 0
	for _, s := range subs {
		if s.wild {
			continue
		}
		var scopedT []types.Type
		for _, t := range s.types {
			if sc, _ := storeScoped(t); sc {
				scopedT = append(scopedT, t)
			}
		}
		if len(scopedT) == 0 {
			continue
		}
		if !c.isControlFn(s.fn) {
			nScoped++
		}
		host := topLevel(s.fn)
		fk := fnKey(s.fn)
		// the consumer: the function (closure) that reads sub.Out()
		consumer := c.findOutConsumer([]ssa.Value{s.call.Value()}, host, 0)
		if consumer == nil {
			c.undecided("B1", fk+"→Subscribe#consumer", s.call.Pos(), "the loop consuming this subscription was not found")
			continue
		}
		for _, t := range scopedT {
			_, hasAddr := storeScoped(t)
			tn := namedName(t)
			cons := fmt.Sprintf("%s→Subscribe(%s)", fk, tn)
			if s.replBus && replPrivate {
				c.ok("B1", cons, s.call.Pos(), "the replicator's bus is private to this store (created per replicator, not handed in), so only this store's replicator events arrive")
				continue
			}
			if !hasAddr {
				p := s.call.Pos()
				why := "the subscription is made on a bus shared by every database of the instance and the event type carries no database address: the handler cannot tell its own replicator's events from another database's, so one database's load progress/end drives another's status and merges"
				if s.replBus && replPos.IsValid() {
					why += " (the replicator is handed the shared bus at " + c.pos(replPos) + ")"
				}
				c.bad("B1", cons, p, why)
				continue
			}
			// events carrying an address: effects must be dominated by an address comparison
			var asserts []ssa.Instruction
			eachInstr(consumer, func(in ssa.Instruction) {
				if ta, ok := in.(*ssa.TypeAssert); ok && types.Identical(ta.AssertedType, t) {
					asserts = append(asserts, ta)
				}
			})
			// the subscription handed to a helper that takes further events from it and hands one
			// back (draining a burst, coalescing): what comes back is another event of the shared
			// bus and needs its own address comparison
			eachCall(consumer, func(call ssa.CallInstruction) {
				h := call.Common().StaticCallee()
				if h == nil || h.Blocks == nil || h.Pkg == nil || !inRepo(h.Pkg.Pkg) || call.Value() == nil {
					return
				}
				givesSub := false
				for _, a := range call.Common().Args {
					if strings.HasSuffix(typeStr(a.Type()), "event.Subscription") {
						givesSub = true
					}
				}
				if !givesSub || !types.Identical(call.Value().Type(), t) {
					return
				}
				takes := false
				eachCall(h, func(hc ssa.CallInstruction) {
					if methodName(hc) == "Out" {
						takes = true
					}
				})
				if takes {
					asserts = append(asserts, call)
				}
			})
			if len(asserts) == 0 {
				// a type switch that handles the type without binding it: use the first instruction after Out()
				eachCall(consumer, func(call ssa.CallInstruction) {
					if methodName(call) == "Out" && len(asserts) == 0 {
						asserts = append(asserts, call)
					}
				})
			}
			viol := false
			for _, ta := range asserts {
				var seeds []ssa.Value
				if v, ok := ta.(ssa.Value); ok {
					seeds = append(seeds, v)
				}
				de := derived(seeds, flowOpts{throughCalls: true})
				// address comparisons on the event
				var cmps []*ssa.If
				eqEdge := map[*ssa.If]int{}
				eachInstr(consumer, func(in ssa.Instruction) {
					bo, ok := in.(*ssa.BinOp)
					if !ok || (bo.Op != token.EQL && bo.Op != token.NEQ) {
						return
					}
					evSide := de[bo.X] || de[bo.Y]
					both := nf(bo.X) + " " + nf(bo.Y)
					if !evSide || !(strings.Contains(both, "Address") || strings.Contains(both, "address") || strings.Contains(both, ".id")) {
						return
					}
					for _, r := range *bo.Referrers() {
						if iff, ok := r.(*ssa.If); ok {
							cmps = append(cmps, iff)
							if bo.Op == token.EQL {
								eqEdge[iff] = 0
							} else {
								eqEdge[iff] = 1
							}
						}
					}
				})
				cut := func(b *ssa.BasicBlock, si int) bool {
					for _, iff := range cmps {
						if iff.Block() == b {
							return si == eqEdge[iff]
						}
					}
					return false
				}
				// stop at the next receive (next iteration handles another event)
				via := func(in ssa.Instruction) bool {
					if call, ok := in.(ssa.CallInstruction); ok && methodName(call) == "Out" && in != ta {
						return true
					}
					if _, ok := in.(*ssa.Select); ok {
						return true
					}
					return false
				}
				if hit, tr := findPath(consumer, after(ta), via, c.isEffect, cut); hit != nil {
					viol = true
					c.bad("B1", cons, hit.Pos(), fmt.Sprintf("the handler acts on every %s delivered on the instance-wide bus without comparing the event's address with its own: a write to one database makes every other database of the instance react (re-publish foreign heads on its own topic under its own address, refresh, …)", tn), c.trailStr(tr)...)
					break
				}
			}
			if !viol {
				c.ok("B1", cons, s.call.Pos(), "every effect of the handler is dominated by a comparison of the event's address with the subscriber's own")
			}
		}
	}
	c.floor("B1", "subscriptions to store-scoped events", nScoped, 3)
}

// ---------------------------------------------------------------------------
// B2

func (c *Ctx) ruleB2() {
	n := 0
	for _, f := range c.RepoFns {
		if c.isTestFile(f.Pos()) {
			continue
		}
		// decode sites: MessageMarshaler.Unmarshal into a MessageExchangeHeads
		eachCall(f, func(call ssa.CallInstruction) {
			if methodName(call) != "Unmarshal" || !call.Common().IsInvoke() {
				return
			}
			a := argsOf(call)
			if len(a) != 2 {
				return
			}
			if p, ok := a[1].Type().(*types.Pointer); !ok || !strings.HasSuffix(typeStr(p.Elem()), "iface.MessageExchangeHeads") {
				return
			}
			n++
			msg := a[1]
			fk := fnKey(f)
			cons := fk + "→Unmarshal→Sync#route"
			// address field reads of this message
			var addrReads []ssa.Value
			eachInstr(f, func(in ssa.Instruction) {
				if fa, ok := in.(*ssa.FieldAddr); ok && fa.X == msg && fieldName(fa.X.Type(), fa.Field) == "Address" {
					addrReads = append(addrReads, fa)
				}
			})
			dAddr := derived(addrReads, flowOpts{throughCalls: true})
			// sync sites: direct Store.Sync, or a repo callee that calls Sync on a store parameter
			type syncSite struct {
				in    ssa.CallInstruction
				store ssa.Value
			}
			var syncs []syncSite
			eachCall(f, func(sc ssa.CallInstruction) {
				if _, isGo := sc.(*ssa.Go); isGo {
					return
				}
				if methodName(sc) == "Sync" && recvOf(sc) != nil && (c.isMethodOn(sc, "Sync", ifaceStore) || strings.Contains(typeStr(recvOf(sc).Type()), "BaseStore")) {
					syncs = append(syncs, syncSite{sc, recvOf(sc)})
					return
				}
				if g := sc.Common().StaticCallee(); g != nil && g.Blocks != nil && g.Pkg != nil && inRepo(g.Pkg.Pkg) {
					for i, p := range g.Params {
						isStoreParam := false
						eachCall(g, func(gc ssa.CallInstruction) {
							if methodName(gc) == "Sync" && recvOf(gc) == ssa.Value(p) {
								isStoreParam = true
							}
						})
						if isStoreParam && i < len(sc.Common().Args) {
							syncs = append(syncs, syncSite{sc, sc.Common().Args[i]})
						}
					}
				}
			})
			if len(syncs) == 0 {
				return
			}
			okAll := true
			for _, s := range syncs {
				if dAddr[s.store] {
					continue // routed: the store is looked up by msg.Address
				}
				// otherwise a comparison of msg.Address must dominate the sync
				var cmps []*ssa.If
				eqEdge := map[*ssa.If]int{}
				eachInstr(f, func(in ssa.Instruction) {
					bo, ok := in.(*ssa.BinOp)
					if !ok || (bo.Op != token.EQL && bo.Op != token.NEQ) {
						return
					}
					if !dAddr[bo.X] && !dAddr[bo.Y] {
						return
					}
					for _, r := range *bo.Referrers() {
						if iff, ok := r.(*ssa.If); ok {
							cmps = append(cmps, iff)
							if bo.Op == token.EQL {
								eqEdge[iff] = 0
							} else {
								eqEdge[iff] = 1
							}
						}
					}
				})
				cut := func(b *ssa.BasicBlock, si int) bool {
					for _, iff := range cmps {
						if iff.Block() == b {
							return si == eqEdge[iff]
						}
					}
					return false
				}
				target := func(in ssa.Instruction) bool { return in == ssa.Instruction(s.in) }
				if hit, tr := findPath(f, after(call), nil, target, cut); hit != nil {
					okAll = false
					c.bad("B2", cons, hit.Pos(), "a heads message received here is synced into this store whatever database address it names: heads of another database (for instance re-published by a sibling store) are pre-checked, announced to the replicator and raise this database's replication maximum", c.trailStr(tr)...)
				}
			}
			if okAll {
				c.ok("B2", cons, call.Pos(), "received heads are routed by the address they name (lookup or comparison) before Sync")
			}
		})
	}
	c.floor("B2", "heads-message decode sites", n, 2)
}

// ---------------------------------------------------------------------------
// B3

func (c *Ctx) ruleB3() {
	n := 0
	ctxT := "context.Context"
	for _, f := range c.RepoFns {
		if c.isTestFile(f.Pos()) || f.Parent() != nil || f.Signature.Recv() == nil {
			continue
		}
		// inserts into a table held by the receiver
		var ins *ssa.MapUpdate
		for _, g := range withClosures(f) {
			eachInstr(g, func(in ssa.Instruction) {
				mu, ok := in.(*ssa.MapUpdate)
				if !ok {
					return
				}
				if _, isPtr := mu.Value.Type().(*types.Pointer); !isPtr {
					return
				}
				// the receiver's map, also when written from a function literal that captured the receiver
				isTable := isRecvMap(f, mu.Map)
				if !isTable && g != f {
					if u, ok := mu.Map.(*ssa.UnOp); ok && u.Op == token.MUL {
						if fa, ok := u.X.(*ssa.FieldAddr); ok {
							base := fa.X
							for {
								inner, ok := base.(*ssa.FieldAddr)
								if !ok {
									break
								}
								base = inner.X
							}
							if ld, ok := base.(*ssa.UnOp); ok {
								if _, isFree := ld.X.(*ssa.FreeVar); isFree && f.Signature.Recv() != nil && types.Identical(ld.Type(), f.Params[0].Type()) {
									isTable = true
								}
							}
						}
					}
				}
				if isTable {
					ins = mu
				}
			})
		}
		if ins == nil {
			continue
		}
		// a context parameter
		var ctxParam *ssa.Parameter
		for _, p := range f.Params {
			if typeStr(p.Type()) == ctxT {
				ctxParam = p
			}
		}
		// the receiver owns a context too?
		hasOwnerCtx := false
		if rn := recvNamed(f); rn != nil {
			if st, ok := rn.Underlying().(*types.Struct); ok {
				for i := 0; i < st.NumFields(); i++ {
					if typeStr(st.Field(i).Type()) == ctxT {
						hasOwnerCtx = true
					}
				}
			}
		}
		if !hasOwnerCtx {
			continue
		}
		n++
		if ctxParam == nil {
			c.ok("B3", fnKey(f)+"#table-entry-context", ins.Pos(), "the function filling the shared table has no per-call context in scope")
			continue
		}
		dctx := derived([]ssa.Value{ctxParam}, flowOpts{throughCalls: true, intoClosures: true})
		cons := fnKey(f) + "#table-entry-context"
		// the value stored in the table, or a goroutine started here, uses a context derived from the call's context
		var bad ssa.Instruction
		dentry := derived([]ssa.Value{ins.Value}, flowOpts{})
		_ = dentry
		fl := structLitFields(ins.Value)
		for _, v := range fl {
			if dctx[v] && typeStr(v.Type()) == ctxT {
				bad = ins
			}
		}
		eachInstr(f, func(in ssa.Instruction) {
			if g, ok := in.(*ssa.Go); ok {
				if mc, ok := g.Call.Value.(*ssa.MakeClosure); ok {
					for _, b := range mc.Bindings {
						if dctx[b] {
							bad = g
						}
					}
				}
				for _, a := range g.Call.Args {
					if dctx[a] {
						bad = g
					}
				}
			}
		})
		if bad != nil {
			c.bad("B3", cons, bad.Pos(), "an entry cached in an instance-wide table (and the goroutine serving it) is bound to the context of the call that happened to create it: when the first database that connected to a peer is closed, the shared pairwise subscription is torn down under the other databases that still use it")
		} else {
			c.ok("B3", cons, ins.Pos(), "shared table entries are bound to the table owner's context")
		}
	}
	c.floor("B3", "instance-wide tables filled from a per-call context", n, 1)
}

// ---------------------------------------------------------------------------
// P2

func (c *Ctx) ruleP2() {
	type use struct {
		fn  *ssa.Function
		pos token.Pos
	}
	puts, gets := map[string][]use{}, map[string][]use{}
	for _, f := range c.RepoFns {
		if c.isTestFile(f.Pos()) || c.isControlFn(f) {
			continue
		}
		eachCall(f, func(call ssa.CallInstruction) {
			for _, k := range c.cachePutKeys(call) {
				puts[k] = append(puts[k], use{f, call.Pos()})
			}
			for _, k := range c.cacheGetKeys(call) {
				gets[k] = append(gets[k], use{f, call.Pos()})
			}
		})
	}
	all := map[string]bool{}
	for k := range puts {
		all[k] = true
	}
	for k := range gets {
		all[k] = true
	}
	var ks []string
	for k := range all {
		ks = append(ks, k)
	}
	sort.Strings(ks)
	c.Counts["P2:constant cache keys"] = len(ks)
	c.floor("P2", "constant cache keys", len(ks), 5)
	for _, k := range ks {
		switch {
		case len(puts[k]) == 0:
			c.bad("P2", "key:"+k+"#writer", gets[k][0].pos, fmt.Sprintf("cache key %q is read but never written: what the reader expects is never persisted (writer and reader disagree on the key)", k))
		case len(gets[k]) == 0:
			c.bad("P2", "key:"+k+"#reader", puts[k][0].pos, fmt.Sprintf("cache key %q is written but never read back: the persisted value is lost to recovery/exchange (writer and reader disagree on the key)", k))
		default:
			c.ok("P2", "key:"+k, puts[k][0].pos, fmt.Sprintf("%d writer(s), %d reader(s)", len(puts[k]), len(gets[k])))
		}
	}
	// a function plays a role (load path, exchange, write path, merge path) when it, a
	// function it calls, or — for a small helper that only reads or writes the key — one of
	// its callers (two levels) makes the call that defines the role
	var callersOf func(f *ssa.Function, depth int, seen map[*ssa.Function]bool) []*ssa.Function
	callersOf = func(f *ssa.Function, depth int, seen map[*ssa.Function]bool) []*ssa.Function {
		var out []*ssa.Function
		if depth > 2 || seen[f] {
			return out
		}
		seen[f] = true
		for _, g := range c.RepoFns {
			if c.isTestFile(g.Pos()) || c.isControlFn(g) {
				continue
			}
			calls := false
			eachCall(g, func(call ssa.CallInstruction) {
				if call.Common().StaticCallee() == f {
					calls = true
				}
			})
			if calls {
				t := topLevel(g)
				out = append(out, t)
				out = append(out, callersOf(t, depth+1, seen)...)
			}
		}
		return out
	}
	hasCall := func(f *ssa.Function, pred func(ssa.CallInstruction) bool) bool {
		t := topLevel(f)
		if c.reachesCall(t, pred, 0, map[*ssa.Function]bool{}) {
			return true
		}
		for _, g := range callersOf(t, 0, map[*ssa.Function]bool{}) {
			if c.reachesCall(g, pred, 0, map[*ssa.Function]bool{}) {
				return true
			}
		}
		return false
	}
	isFetch := func(call ssa.CallInstruction) bool { return calleeFull(call) == logMod+".NewFromEntryHash" }
	isSend := func(call ssa.CallInstruction) bool {
		return methodName(call) == "Send" && call.Common().IsInvoke() && strings.Contains(typeStr(call.Common().Value.Type()), "DirectChannel")
	}
	isAppend := func(call ssa.CallInstruction) bool { return c.isLogCall(call, "Append") }
	isJoin := func(call ssa.CallInstruction) bool { return c.isLogCall(call, "Join") }
	isEmitRepl := func(call ssa.CallInstruction) bool { return c.isEmitOf(call, "stores.EventReplicated") }
	role := func(key string, us []use, pred func(ssa.CallInstruction) bool) bool {
		for _, u := range us {
			if hasCall(u.fn, pred) {
				return true
			}
		}
		return false
	}
	for _, k := range ks {
		// key written by the write path
		if role(k, puts[k], isAppend) {
			if role(k, gets[k], isFetch) {
				c.ok("P2", "key:"+k+"#load-reads-local-head", puts[k][0].pos, "the head persisted by the write path is read by the load path")
			} else {
				c.bad("P2", "key:"+k+"#load-reads-local-head", puts[k][0].pos, fmt.Sprintf("the write path persists the new head under %q but the load path (the function that fetches heads' ancestry) never reads that key: local writes are lost at restart", k))
			}
			if role(k, gets[k], isSend) {
				c.ok("P2", "key:"+k+"#exchange-reads-local-head", puts[k][0].pos, "the head persisted by the write path is sent on head exchange")
			} else {
				c.bad("P2", "key:"+k+"#exchange-reads-local-head", puts[k][0].pos, fmt.Sprintf("the head exchange on peer join never reads %q: a peer that missed the announcement never learns of local writes", k))
			}
		}
		// key written by the replicator-fed merge path
		mergeWriter := false
		for _, u := range puts[k] {
			if hasCall(u.fn, isJoin) && hasCall(u.fn, isEmitRepl) {
				mergeWriter = true
			}
		}
		if mergeWriter {
			if role(k, gets[k], isFetch) {
				c.ok("P2", "key:"+k+"#load-reads-merged-heads", puts[k][0].pos, "the heads persisted after a merge are read by the load path")
			} else {
				c.bad("P2", "key:"+k+"#load-reads-merged-heads", puts[k][0].pos, fmt.Sprintf("merged heads are persisted under %q but the load path never reads that key: replicated entries are lost at restart", k))
			}
		}
	}
	// the load path feeds every head set it reads into the fetch
	for _, f := range c.RepoFns {
		if c.isTestFile(f.Pos()) || f.Parent() != nil || c.isControlFn(f) {
			continue
		}
		if f.Pkg.Pkg.Path() != repoMod+"/stores/basestore" || !c.reachesStatic(f, isFetch, 0) {
			continue
		}
		eachCall(f, func(call ssa.CallInstruction) {
			k, ok := c.cacheGetKey(call)
			if !ok || call.Value() == nil {
				return
			}
			d := derived([]ssa.Value{call.Value()}, flowOpts{throughCalls: true, intoClosures: true})
			fed := false
			for _, g := range withClosures(f) {
				eachCall(g, func(fc ssa.CallInstruction) {
					if isFetch(fc) {
						for _, a := range fc.Common().Args {
							if d[a] {
								fed = true
							}
						}
					}
					// or handed to a method / function that does the fetch
					if h := fc.Common().StaticCallee(); h != nil && h.Blocks != nil && h.Pkg == f.Pkg && c.reachesStatic(h, isFetch, 0) {
						for _, a := range fc.Common().Args {
							if d[a] {
								fed = true
							}
						}
					}
				})
			}
			cons := fnKey(f) + "→Get(" + k + ")→fetch"
			if fed {
				c.ok("P2", cons, call.Pos(), "heads read from this key are handed to the fetch")
			} else {
				c.bad("P2", cons, call.Pos(), fmt.Sprintf("the load path reads %q but the heads decoded from it never reach the fetch: that part of the persisted log is not recovered", k))
			}
		})
	}
}

// reachesStatic: f, its function literals or a statically called function of the same package
// (three levels) makes a call satisfying pred.
func (c *Ctx) reachesStatic(f *ssa.Function, pred func(ssa.CallInstruction) bool, depth int) bool {
	if f == nil || f.Blocks == nil || depth > 3 {
		return false
	}
	found := false
	for _, g := range withClosures(f) {
		eachCall(g, func(call ssa.CallInstruction) {
			if found {
				return
			}
			if pred(call) {
				found = true
				return
			}
			if h := call.Common().StaticCallee(); h != nil && h.Pkg == f.Pkg && h != f && topLevel(h) != f {
				if c.reachesStatic(h, pred, depth+1) {
					found = true
				}
			}
		})
	}
	return found
}

// ---------------------------------------------------------------------------
// P3

func (c *Ctx) ruleP3() {
	n := 0
	kPut := c.kindPut("")
	for _, f := range c.RepoFns {
		if c.isTestFile(f.Pos()) {
			continue
		}
		var apps []ssa.CallInstruction
		eachCall(f, func(call ssa.CallInstruction) {
			if c.isLogCall(call, "Append") {
				apps = append(apps, call)
			}
		})
		for _, app := range apps {
			// the Put persisting (bytes derived from) this append's result, in this function
			d := derived([]ssa.Value{app.Value()}, flowOpts{throughCalls: true})
			var put ssa.CallInstruction
			eachCall(f, func(call ssa.CallInstruction) {
				if _, isGo := call.(*ssa.Go); isGo || !c.isSite(kPut, call) {
					return
				}
				for _, a := range call.Common().Args {
					if d[a] {
						put = call
					}
				}
			})
			if put == nil {
				// the heads persisted after the append may be read from the log rather than
				// derived from the entry: the first head-persisting Put reachable after it
				isPutSite := func(in ssa.Instruction) bool {
					call, ok := in.(ssa.CallInstruction)
					if !ok {
						return false
					}
					if _, isGo := in.(*ssa.Go); isGo {
						return false
					}
					return c.isSite(kPut, call)
				}
				if hit, _ := findPath(f, after(app), nil, isPutSite, nil); hit != nil {
					put = hit.(ssa.CallInstruction)
				}
			}
			if put == nil {
				// the head may be persisted by a caller, from what this helper returns
				for _, g := range c.RepoFns {
					if c.isTestFile(g.Pos()) {
						continue
					}
					eachCall(g, func(cs ssa.CallInstruction) {
						if _, isGo := cs.(*ssa.Go); isGo || cs.Common().StaticCallee() != f || cs.Value() == nil {
							return
						}
						dg := derived([]ssa.Value{cs.Value()}, flowOpts{throughCalls: true})
						var gput ssa.CallInstruction
						eachCall(g, func(pc ssa.CallInstruction) {
							if _, isGo := pc.(*ssa.Go); isGo || !c.isSite(kPut, pc) {
								return
							}
							for _, a := range pc.Common().Args {
								if dg[a] {
									gput = pc
								}
							}
						})
						if gput == nil {
							return
						}
						if !c.isControlFn(g) {
							n++
						}
						lsg := locksets(g)
						common := meet(lsg[cs], lsg[gput])
						for k, m := range common {
							if m != "W" {
								delete(common, k)
							}
						}
						cons := fnKey(g) + "→" + f.Name() + "…Put#atomic"
						if len(common) == 0 {
							c.bad("P3", cons, gput.Pos(), "the head is produced by Append inside "+fnKey(f)+" (under that helper's own lock, released when it returns) and persisted here afterwards with no lock held across the two: with two concurrent writers the one that appended FIRST can persist LAST, leaving the cached local head pointing at the older entry; after a restart the newer acknowledged entry is unreachable")
						} else {
							c.ok("P3", cons, gput.Pos(), "the helper that appends and the Put that persists its result are in one critical section of "+common.String())
						}
					})
				}
				continue
			}
			if !c.isControlFn(f) {
				n++
			}
			cons := fnKey(f) + "→Append…Put#atomic"
			ls := locksets(f)
			la, lp := ls[app].clone(), ls[put].clone()
			// locks held by every caller (or by the helper that runs this function literal)
			for k, v := range c.entryLocks(f, 0) {
				if _, ok := la[k]; !ok {
					la[k] = v
				}
				if _, ok := lp[k]; !ok {
					lp[k] = v
				}
			}
			common := meet(la, lp)
			for k, m := range common {
				if m != "W" {
					delete(common, k)
				}
			}
			if len(common) == 0 {
				c.bad("P3", cons, put.Pos(), "the head that is persisted is produced by Append and written to the cache with no lock held across the two: with two concurrent writers the one that appended FIRST can persist LAST, leaving the cached local head pointing at the older entry; after a restart the newer acknowledged entry is unreachable")
				continue
			}
			// not released in between
			released := false
			for cls := range common {
				rel := func(in ssa.Instruction) bool {
					if _, isDefer := in.(*ssa.Defer); isDefer {
						return false // a deferred unlock runs at exit, after the Put
					}
					op := lockOpOf(in)
					return op != nil && op.class == cls && (op.kind == "Unlock" || op.kind == "RUnlock")
				}
				target := func(in ssa.Instruction) bool { return in == ssa.Instruction(put) }
				// a path Append → Unlock → Put
				if hit, _ := findPath(f, after(app), nil, rel, nil); hit != nil {
					if _, isDefer := hit.(*ssa.Defer); !isDefer {
						if h2, _ := findPath(f, after(hit), nil, target, nil); h2 != nil {
							released = true
						}
					}
				}
			}
			if released {
				c.bad("P3", cons, put.Pos(), "the lock held at Append can be released before the head is persisted")
			} else {
				c.ok("P3", cons, put.Pos(), "Append and the persisting Put are in one critical section of "+common.String())
			}
		}
	}
	c.floor("P3", "append-then-persist sites", n, 1)
}

// findOutConsumer: the function (closure, or repo callee the subscription is handed to —
// possibly with `go`) that reads sub.Out().
func (c *Ctx) findOutConsumer(seeds []ssa.Value, f *ssa.Function, depth int) *ssa.Function {
	if f == nil || depth > 3 {
		return nil
	}
	d := derived(seeds, flowOpts{intoClosures: true})
	var consumer *ssa.Function
	type next struct {
		seeds []ssa.Value
		fn    *ssa.Function
	}
	var nexts []next
	for _, g := range withClosures(f) {
		eachCall(g, func(call ssa.CallInstruction) {
			if methodName(call) == "Out" && call.Common().IsInvoke() && d[call.Common().Value] {
				consumer = g
			}
			if h := call.Common().StaticCallee(); h != nil && h.Blocks != nil && h.Pkg != nil && inRepo(h.Pkg.Pkg) && topLevel(h) != f {
				var ps []ssa.Value
				for i, a := range call.Common().Args {
					if d[a] && i < len(h.Params) {
						ps = append(ps, h.Params[i])
					}
				}
				if len(ps) > 0 {
					nexts = append(nexts, next{ps, h})
				}
			}
		})
	}
	if consumer != nil {
		return consumer
	}
	for _, n := range nexts {
		if r := c.findOutConsumer(n.seeds, n.fn, depth+1); r != nil {
			return r
		}
	}
	return nil
}
