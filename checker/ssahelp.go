package main

import (
	"fmt"
	"go/constant"
	"go/token"
	"go/types"
	"strings"

	"golang.org/x/tools/go/ssa"
)

// ---------------------------------------------------------------------------
// call identification (through type information, never by bare name)

// calleeFull returns the fully qualified name of the function or interface method a call
// targets, e.g. "(berty.tech/go-ipfs-log/iface.IPFSLog).Join" or "encoding/json.Marshal".
// Dynamic calls of closures/func values return "".
func calleeFull(call ssa.CallInstruction) string {
	cc := call.Common()
	if cc.IsInvoke() {
		return cc.Method.FullName()
	}
	if f := cc.StaticCallee(); f != nil {
		if f.Object() != nil {
			return f.Object().(*types.Func).FullName()
		}
		return f.String()
	}
	if b, ok := cc.Value.(*ssa.Builtin); ok {
		return "builtin." + b.Name()
	}
	return ""
}

// methodName returns just the method/function name of the call target.
func methodName(call ssa.CallInstruction) string {
	cc := call.Common()
	if cc.IsInvoke() {
		return cc.Method.Name()
	}
	if f := cc.StaticCallee(); f != nil {
		return f.Name()
	}
	if b, ok := cc.Value.(*ssa.Builtin); ok {
		return b.Name()
	}
	return ""
}

// recvOf returns the receiver value of a method call (invoke or static), or nil.
func recvOf(call ssa.CallInstruction) ssa.Value {
	cc := call.Common()
	if cc.IsInvoke() {
		return cc.Value
	}
	if f := cc.StaticCallee(); f != nil && f.Signature.Recv() != nil && len(cc.Args) > 0 {
		return cc.Args[0]
	}
	return nil
}

// argsOf returns the non-receiver arguments.
func argsOf(call ssa.CallInstruction) []ssa.Value {
	cc := call.Common()
	if cc.IsInvoke() {
		return cc.Args
	}
	if f := cc.StaticCallee(); f != nil && f.Signature.Recv() != nil && len(cc.Args) > 0 {
		return cc.Args[1:]
	}
	return cc.Args
}

func typeStr(t types.Type) string {
	return types.TypeString(t, nil)
}

// implementsMethodOf reports whether the call is a call of method `name` on a value whose
// (static) type is, or implements, the named interface pkgPath.ifaceName.
func (c *Ctx) isMethodOn(call ssa.CallInstruction, name string, ifaces ...string) bool {
	if methodName(call) != name {
		return false
	}
	r := recvOf(call)
	if r == nil {
		return false
	}
	for _, in := range ifaces {
		if it := c.lookupIface(in); it != nil {
			t := r.Type()
			if types.Implements(t, it) || types.Implements(types.NewPointer(t), it) {
				return true
			}
		}
	}
	return false
}

// lookupIface finds "pkgpath.Name" among loaded packages and returns its interface underlying type.
func (c *Ctx) lookupIface(q string) *types.Interface {
	if c.ifaceCache == nil {
		c.ifaceCache = map[string]*types.Interface{}
	}
	ifaceCache := c.ifaceCache
	if it, ok := ifaceCache[q]; ok {
		return it
	}
	obj := c.lookupObj(q)
	var it *types.Interface
	if obj != nil {
		it, _ = obj.Type().Underlying().(*types.Interface)
	}
	ifaceCache[q] = it
	return it
}

func (c *Ctx) lookupObj(q string) types.Object {
	i := strings.LastIndex(q, ".")
	if i < 0 {
		return nil
	}
	pp, name := q[:i], q[i+1:]
	for _, p := range c.All {
		if p.PkgPath == pp && p.Types != nil && !strings.HasSuffix(p.ID, "]") {
			if o := p.Types.Scope().Lookup(name); o != nil {
				return o
			}
		}
	}
	for _, p := range c.All {
		if p.PkgPath == pp && p.Types != nil {
			if o := p.Types.Scope().Lookup(name); o != nil {
				return o
			}
		}
	}
	return nil
}

// bestPos: the position of an instruction, or of the nearest positioned instruction after
// it in its block, or of its function (MakeInterface and friends carry no position).
func bestPos(in ssa.Instruction) token.Pos {
	if in.Pos().IsValid() {
		return in.Pos()
	}
	b := in.Block()
	if b != nil {
		seen := false
		for _, x := range b.Instrs {
			if x == in {
				seen = true
			}
			if seen && x.Pos().IsValid() {
				return x.Pos()
			}
		}
		for i := len(b.Instrs) - 1; i >= 0; i-- {
			if b.Instrs[i].Pos().IsValid() {
				return b.Instrs[i].Pos()
			}
		}
	}
	if in.Parent() != nil {
		return in.Parent().Pos()
	}
	return token.NoPos
}

// ---------------------------------------------------------------------------
// iteration

func eachInstr(f *ssa.Function, fn func(ssa.Instruction)) {
	for _, b := range f.Blocks {
		for _, in := range b.Instrs {
			fn(in)
		}
	}
}

func eachCall(f *ssa.Function, fn func(ssa.CallInstruction)) {
	eachInstr(f, func(in ssa.Instruction) {
		if ci, ok := in.(ssa.CallInstruction); ok {
			fn(ci)
		}
	})
}

// withClosures returns f and all functions lexically nested in it.
func withClosures(f *ssa.Function) []*ssa.Function {
	out := []*ssa.Function{f}
	for _, a := range f.AnonFuncs {
		out = append(out, withClosures(a)...)
	}
	return out
}

func instrIndex(in ssa.Instruction) int {
	for i, x := range in.Block().Instrs {
		if x == in {
			return i
		}
	}
	return -1
}

// ---------------------------------------------------------------------------
// constants / values

func isNilConst(v ssa.Value) bool {
	k, ok := v.(*ssa.Const)
	return ok && k.Value == nil
}

func constString(v ssa.Value) (string, bool) {
	if k, ok := v.(*ssa.Const); ok && k.Value != nil && k.Value.Kind() == constant.String {
		return constant.StringVal(k.Value), true
	}
	return "", false
}

func constInt(v ssa.Value) (int64, bool) {
	if k, ok := v.(*ssa.Const); ok && k.Value != nil && k.Value.Kind() == constant.Int {
		if i, ok := constant.Int64Val(k.Value); ok {
			return i, true
		}
	}
	return 0, false
}

// strip removes value-preserving wrappers.
func strip(v ssa.Value) ssa.Value {
	for {
		switch x := v.(type) {
		case *ssa.ChangeType:
			v = x.X
		case *ssa.ChangeInterface:
			v = x.X
		case *ssa.MakeInterface:
			v = x.X
		default:
			return v
		}
	}
}

// nf computes a normal form of a value: a chain of getter calls, field selections and
// dereferences rooted at one SSA value. go/ssa performs no CSE, so equality of key
// expressions must be decided on such normal forms rather than on value identity.
func nf(v ssa.Value) string { return nfDepth(v, 0) }

func nfDepth(v ssa.Value, d int) string {
	if d > 12 {
		return fmt.Sprintf("?%s", v.Name())
	}
	switch x := v.(type) {
	case *ssa.Const:
		if x.Value == nil {
			return "nil"
		}
		return x.Value.ExactString()
	case *ssa.Parameter:
		return "param:" + x.Name()
	case *ssa.FreeVar:
		return "free:" + x.Name()
	case *ssa.Global:
		return "global:" + x.Name()
	case *ssa.ChangeType:
		return nfDepth(x.X, d+1)
	case *ssa.ChangeInterface:
		return nfDepth(x.X, d+1)
	case *ssa.MakeInterface:
		return nfDepth(x.X, d+1)
	case *ssa.Convert:
		return "conv(" + nfDepth(x.X, d+1) + ")"
	case *ssa.UnOp:
		if x.Op == token.MUL {
			if fa, ok := x.X.(*ssa.FieldAddr); ok {
				return nfDepth(fa.X, d+1) + "." + fieldName(fa.X.Type(), fa.Field)
			}
			if _, ok := x.X.(*ssa.Alloc); ok {
				// local variable cell: resolve a unique store
				if s := uniqueStore(x.X); s != nil {
					return nfDepth(s, d+1)
				}
			}
			return "*" + nfDepth(x.X, d+1)
		}
		return x.Op.String() + nfDepth(x.X, d+1)
	case *ssa.FieldAddr:
		return "&" + nfDepth(x.X, d+1) + "." + fieldName(x.X.Type(), x.Field)
	case *ssa.Field:
		return nfDepth(x.X, d+1) + "." + fieldName(x.X.Type(), x.Field)
	case *ssa.Extract:
		return nfDepth(x.Tuple, d+1) + fmt.Sprintf("#%d", x.Index)
	case *ssa.Call:
		cc := x.Common()
		if b, ok := cc.Value.(*ssa.Builtin); ok && (b.Name() == "len" || b.Name() == "cap") && len(cc.Args) == 1 {
			return b.Name() + "(" + nfDepth(cc.Args[0], d+1) + ")"
		}
		if cc.IsInvoke() && len(cc.Args) == 0 {
			return nfDepth(cc.Value, d+1) + "." + cc.Method.Name() + "()"
		}
		if f := cc.StaticCallee(); f != nil && f.Signature.Recv() != nil && len(cc.Args) == 1 {
			return nfDepth(cc.Args[0], d+1) + "." + f.Name() + "()"
		}
	}
	return fmt.Sprintf("%s@%s", v.Name(), ownerName(v))
}

func ownerName(v ssa.Value) string {
	if in, ok := v.(ssa.Instruction); ok && in.Parent() != nil {
		return in.Parent().Name()
	}
	return ""
}

// uniqueStore returns the single value stored to an Alloc cell, if there is exactly one store.
func uniqueStore(cell ssa.Value) ssa.Value {
	refs := cell.Referrers()
	if refs == nil {
		return nil
	}
	var val ssa.Value
	n := 0
	for _, r := range *refs {
		if st, ok := r.(*ssa.Store); ok && st.Addr == cell {
			val = st.Val
			n++
		}
	}
	if n == 1 {
		return val
	}
	return nil
}

func fieldName(t types.Type, i int) string {
	if p, ok := t.Underlying().(*types.Pointer); ok {
		t = p.Elem()
	}
	if s, ok := t.Underlying().(*types.Struct); ok && i < s.NumFields() {
		return s.Field(i).Name()
	}
	return fmt.Sprintf("f%d", i)
}

// ---------------------------------------------------------------------------
// path search (must-pass-through)

type instrPred func(ssa.Instruction) bool

// startPt is where a path search begins: the function entry (zero value), just after an
// instruction, or the start of a block.
type startPt struct {
	b   *ssa.BasicBlock
	idx int
}

func after(in ssa.Instruction) startPt  { return startPt{in.Block(), instrIndex(in) + 1} }
func atBlock(b *ssa.BasicBlock) startPt { return startPt{b, 0} }

var entry = startPt{}

// deferredAt returns the deferred calls that run at a RunDefers instruction (those whose
// Defer instruction dominates it or precedes it in the same block).
func deferredAt(rd ssa.Instruction) []*ssa.Defer {
	var out []*ssa.Defer
	f := rd.Parent()
	for _, b := range f.Blocks {
		for i, in := range b.Instrs {
			d, ok := in.(*ssa.Defer)
			if !ok {
				continue
			}
			if b == rd.Block() {
				if i < instrIndex(rd) {
					out = append(out, d)
				}
			} else if b.Dominates(rd.Block()) {
				out = append(out, d)
			}
		}
	}
	return out
}

// findPath searches a path in f from `from` (exclusive; nil = function entry) to an
// instruction satisfying target, that does not execute any instruction satisfying via.
// Deferred calls are evaluated at RunDefers. cut (optional) prunes CFG edges: cut(b, succIdx)
// true means the edge is not followed. It returns the target reached and the position trail.
func findPath(f *ssa.Function, from startPt, via, target instrPred, cut func(*ssa.BasicBlock, int) bool) (ssa.Instruction, []token.Pos) {
	if len(f.Blocks) == 0 {
		return nil, nil
	}
	type item struct {
		b     *ssa.BasicBlock
		start int
		prev  *item
	}
	visited := map[*ssa.BasicBlock]bool{}
	var queue []*item
	if from.b == nil {
		queue = append(queue, &item{f.Blocks[0], 0, nil})
		visited[f.Blocks[0]] = true
	} else {
		queue = append(queue, &item{from.b, from.idx, nil})
		if from.idx == 0 {
			visited[from.b] = true
		}
	}
	trail := func(it *item, last ssa.Instruction) []token.Pos {
		var ps []token.Pos
		if last != nil && last.Pos().IsValid() {
			ps = append(ps, last.Pos())
		}
		for x := it; x != nil; x = x.prev {
			for i := len(x.b.Instrs) - 1; i >= 0; i-- {
				if p := x.b.Instrs[i].Pos(); p.IsValid() {
					ps = append(ps, p)
					break
				}
			}
		}
		for i, j := 0, len(ps)-1; i < j; i, j = i+1, j-1 {
			ps[i], ps[j] = ps[j], ps[i]
		}
		return ps
	}
	for len(queue) > 0 {
		it := queue[0]
		queue = queue[1:]
		blocked := false
		for i := it.start; i < len(it.b.Instrs); i++ {
			in := it.b.Instrs[i]
			if _, ok := in.(*ssa.RunDefers); ok {
				ds := deferredAt(in)
				stop := false
				for j := len(ds) - 1; j >= 0; j-- {
					if via != nil && via(ds[j]) {
						stop = true
						break
					}
					if target != nil && target(ds[j]) {
						return ds[j], trail(it, ds[j])
					}
				}
				if stop {
					blocked = true
					break
				}
				continue
			}
			if _, ok := in.(*ssa.Defer); ok {
				continue // evaluated at RunDefers
			}
			if via != nil && via(in) {
				blocked = true
				break
			}
			if target != nil && target(in) {
				return in, trail(it, in)
			}
		}
		if blocked {
			continue
		}
		for si, s := range it.b.Succs {
			if cut != nil && cut(it.b, si) {
				continue
			}
			if !visited[s] {
				visited[s] = true
				queue = append(queue, &item{s, 0, it})
			}
		}
	}
	return nil, nil
}

func (c *Ctx) trailStr(ps []token.Pos) []string {
	var out []string
	last := ""
	for _, p := range ps {
		s := c.pos(p)
		if s != last {
			out = append(out, s)
			last = s
		}
	}
	if len(out) > 14 {
		out = append(append([]string{}, out[:6]...), append([]string{"…"}, out[len(out)-7:]...)...)
	}
	return out
}

// ---------------------------------------------------------------------------
// error-result handling

// errResult returns the error-typed result value of a call (the value itself or its
// last Extract), or nil.
func errResult(call ssa.CallInstruction) ssa.Value {
	v := call.Value()
	if v == nil {
		return nil
	}
	sig := call.Common().Signature()
	n := sig.Results().Len()
	if n == 0 {
		return nil
	}
	if !isErrorType(sig.Results().At(n - 1).Type()) {
		return nil
	}
	if n == 1 {
		return v
	}
	if refs := v.Referrers(); refs != nil {
		for _, r := range *refs {
			if e, ok := r.(*ssa.Extract); ok && e.Index == n-1 {
				return e
			}
		}
	}
	return nil
}

func isErrorType(t types.Type) bool {
	return types.Identical(t, types.Universe.Lookup("error").Type())
}

// valueAliases follows a value through phis and stores into local cells (named results,
// reassigned err variables) and returns every value that may carry it.
func valueAliases(v ssa.Value) map[ssa.Value]bool {
	out := map[ssa.Value]bool{}
	var walk func(ssa.Value)
	walk = func(x ssa.Value) {
		if x == nil || out[x] {
			return
		}
		out[x] = true
		refs := x.Referrers()
		if refs == nil {
			return
		}
		for _, r := range *refs {
			switch r := r.(type) {
			case *ssa.Phi:
				walk(r)
			case *ssa.Store:
				if r.Val == x {
					if _, ok := r.Addr.(*ssa.Alloc); ok {
						if ar := r.Addr.Referrers(); ar != nil {
							for _, l := range *ar {
								if u, ok := l.(*ssa.UnOp); ok && u.Op == token.MUL {
									walk(u)
								}
							}
						}
					}
				}
			case *ssa.ChangeInterface:
				walk(r)
			case *ssa.MakeInterface:
				walk(r)
			}
		}
	}
	walk(v)
	return out
}

// errBranches finds `if err != nil` / `if err == nil` tests of the error value (or an alias)
// and returns, for each, the block taken when the error is nil (ok) and when it is not (fail).
type errTest struct {
	If       *ssa.If
	Ok, Fail *ssa.BasicBlock
}

func errTests(errv ssa.Value) []errTest {
	var out []errTest
	for a := range valueAliases(errv) {
		refs := a.Referrers()
		if refs == nil {
			continue
		}
		for _, r := range *refs {
			b, ok := r.(*ssa.BinOp)
			if !ok || (b.Op != token.NEQ && b.Op != token.EQL) {
				continue
			}
			other := b.Y
			if b.Y == a {
				other = b.X
			}
			if !isNilConst(other) {
				continue
			}
			if br := b.Referrers(); br != nil {
				for _, u := range *br {
					if iff, ok := u.(*ssa.If); ok {
						t := errTest{If: iff}
						if b.Op == token.NEQ {
							t.Fail, t.Ok = iff.Block().Succs[0], iff.Block().Succs[1]
						} else {
							t.Ok, t.Fail = iff.Block().Succs[0], iff.Block().Succs[1]
						}
						out = append(out, t)
					}
				}
			}
		}
	}
	return out
}

// errTestsDirect: nil tests of exactly this value (no aliasing).
func errTestsDirect(a ssa.Value) []errTest {
	var out []errTest
	refs := a.Referrers()
	if refs == nil {
		return nil
	}
	for _, r := range *refs {
		b, ok := r.(*ssa.BinOp)
		if !ok || (b.Op != token.NEQ && b.Op != token.EQL) {
			continue
		}
		other := b.Y
		if b.Y == a {
			other = b.X
		}
		if !isNilConst(other) {
			continue
		}
		if br := b.Referrers(); br != nil {
			for _, u := range *br {
				if iff, ok := u.(*ssa.If); ok {
					t := errTest{If: iff}
					if b.Op == token.NEQ {
						t.Fail, t.Ok = iff.Block().Succs[0], iff.Block().Succs[1]
					} else {
						t.Ok, t.Fail = iff.Block().Succs[0], iff.Block().Succs[1]
					}
					out = append(out, t)
				}
			}
		}
	}
	return out
}

// returnedDirectly reports whether the value (or an alias) is an operand of a Return.
func returnedDirectly(v ssa.Value) bool {
	for a := range valueAliases(v) {
		if refs := a.Referrers(); refs != nil {
			for _, r := range *refs {
				if _, ok := r.(*ssa.Return); ok {
					return true
				}
			}
		}
	}
	return false
}

// isFailureReturn reports whether a Return certainly carries a non-nil error:
// its error operand is a freshly built error, or the return is dominated by the
// failing branch of a nil test of that very value.
func isFailureReturn(ret *ssa.Return) bool {
	n := len(ret.Results)
	if n == 0 {
		return false
	}
	ev := ret.Results[n-1]
	if !isErrorType(ev.Type()) {
		return false
	}
	if certainlyNonNilErr(ev, ret.Block(), 0) {
		return true
	}
	// a function that reports two kinds of failure separately (marshalErr, putErr error): a
	// certain error in any error result is a failure
	for _, r := range ret.Results[:n-1] {
		if isErrorType(r.Type()) && certainlyNonNilErr(r, ret.Block(), 0) {
			return true
		}
	}
	return false
}

func certainlyNonNilErr(ev ssa.Value, at *ssa.BasicBlock, depth int) bool {
	if depth > 4 {
		return false
	}
	if isNilConst(ev) {
		return false
	}
	switch x := ev.(type) {
	case *ssa.Call:
		switch calleeFull(x) {
		case "fmt.Errorf", "errors.New", "github.com/pkg/errors.New", "github.com/pkg/errors.Errorf",
			"github.com/pkg/errors.Wrap", "github.com/pkg/errors.Wrapf":
			return true
		}
	case *ssa.MakeInterface:
		return true
	case *ssa.UnOp:
		if x.Op == token.MUL {
			if a, ok := x.X.(*ssa.Alloc); ok {
				// named result cell: every store reaching here must be non-nil; approximate by
				// requiring the last store in this block (before the load) to be non-nil
				var last ssa.Value
				for _, in := range x.Block().Instrs {
					if in == ssa.Instruction(x) {
						break
					}
					if st, ok := in.(*ssa.Store); ok && st.Addr == a {
						last = st.Val
					}
				}
				if last != nil {
					return certainlyNonNilErr(last, at, depth+1)
				}
				// no CSE: `if err != nil { …; return err }` loads the cell several times. A sibling
				// load tested against nil whose failing branch dominates this point, with no
				// store to the cell inside that branch, proves the value non-nil here.
				if refs := a.Referrers(); refs != nil {
					for _, r := range *refs {
						sib, ok := r.(*ssa.UnOp)
						if !ok || sib.Op != token.MUL || sib == x {
							continue
						}
						for _, t := range errTestsDirect(sib) {
							if t.Fail == nil || t.Fail == t.Ok || !branchCovers(t.Fail, at) {
								continue
							}
							stored := false
							for _, r2 := range *refs {
								if st, ok := r2.(*ssa.Store); ok && st.Addr == ssa.Value(a) && (st.Block() == t.Fail || t.Fail.Dominates(st.Block())) {
									stored = true
								}
							}
							if !stored {
								return true
							}
						}
					}
				}
			}
		}
	case *ssa.Phi:
		for _, e := range x.Edges {
			if !certainlyNonNilErr(e, at, depth+1) {
				return false
			}
		}
		return len(x.Edges) > 0
	}
	for _, t := range errTests(ev) {
		if t.Fail != nil && t.Fail != t.Ok && branchCovers(t.Fail, at) {
			return true
		}
	}
	return false
}

// resolveSpill: go/ssa spills results through a cell when the function has defers
// (*t0 = v; rundefers; t = *t0; return t). For such a load it returns the values stored to
// the cell in the returning block (the last one) or, failing that, anywhere; otherwise v itself.
func resolveSpill(v ssa.Value) []ssa.Value {
	u, ok := v.(*ssa.UnOp)
	if !ok || u.Op != token.MUL {
		return []ssa.Value{v}
	}
	a, ok := u.X.(*ssa.Alloc)
	if !ok {
		return []ssa.Value{v}
	}
	var last ssa.Value
	for _, in := range u.Block().Instrs {
		if in == ssa.Instruction(u) {
			break
		}
		if st, ok := in.(*ssa.Store); ok && st.Addr == ssa.Value(a) {
			last = st.Val
		}
	}
	if last != nil {
		return []ssa.Value{last}
	}
	var all []ssa.Value
	if refs := a.Referrers(); refs != nil {
		for _, r := range *refs {
			if st, ok := r.(*ssa.Store); ok && st.Addr == ssa.Value(a) {
				all = append(all, st.Val)
			}
		}
	}
	if len(all) == 0 {
		return []ssa.Value{v}
	}
	return all
}

// isNilErrReturn: the return's error operand is the nil constant (a certain success exit).
func isNilErrReturn(ret *ssa.Return) bool {
	n := len(ret.Results)
	if n == 0 {
		return true
	}
	ev := ret.Results[n-1]
	if !isErrorType(ev.Type()) {
		return true
	}
	if isNilConst(ev) {
		return true
	}
	if u, ok := ev.(*ssa.UnOp); ok && u.Op == token.MUL {
		if a, ok := u.X.(*ssa.Alloc); ok {
			var last ssa.Value
			for _, in := range u.Block().Instrs {
				if in == ssa.Instruction(u) {
					break
				}
				if st, ok := in.(*ssa.Store); ok && st.Addr == a {
					last = st.Val
				}
			}
			if last != nil && isNilConst(last) {
				return true
			}
		}
	}
	return false
}

// ---------------------------------------------------------------------------
// simple forward value flow (intra-procedural, through cells, phis, conversions, containers)

type flowOpts struct {
	throughCalls bool // results of calls taking the value as argument/receiver are derived
	intoFields   bool // storing into x.f taints loads of x.f in the same function (by field name)
	intoClosures bool // follow arguments and captured variables into function literals
}

func pushClosureArgs(cc *ssa.CallCommon, v ssa.Value, push func(ssa.Value)) {
	var fn *ssa.Function
	switch x := cc.Value.(type) {
	case *ssa.MakeClosure:
		fn, _ = x.Fn.(*ssa.Function)
	case *ssa.Function:
		if x.Parent() != nil {
			fn = x
		}
	}
	if fn == nil {
		return
	}
	for i, a := range cc.Args {
		if a == v && i < len(fn.Params) {
			push(fn.Params[i])
		}
	}
}

// derived computes the set of values derived from seeds within one function.
func derived(seeds []ssa.Value, o flowOpts) map[ssa.Value]bool {
	out := map[ssa.Value]bool{}
	var work []ssa.Value
	push := func(v ssa.Value) {
		if v != nil && !out[v] {
			out[v] = true
			work = append(work, v)
		}
	}
	for _, s := range seeds {
		push(s)
	}
	for len(work) > 0 {
		v := work[len(work)-1]
		work = work[:len(work)-1]
		refs := v.Referrers()
		if refs == nil {
			continue
		}
		for _, r := range *refs {
			switch r := r.(type) {
			case *ssa.Phi, *ssa.ChangeType, *ssa.ChangeInterface, *ssa.MakeInterface, *ssa.Convert,
				*ssa.Slice, *ssa.Extract, *ssa.TypeAssert, *ssa.Field, *ssa.FieldAddr, *ssa.Index,
				*ssa.IndexAddr, *ssa.Lookup, *ssa.Range, *ssa.Next, *ssa.BinOp, *ssa.SliceToArrayPointer:
				push(r.(ssa.Value))
			case *ssa.UnOp:
				push(r)
			case *ssa.Store:
				if r.Val == v {
					// value stored into a cell / element: the container becomes derived
					push(rootAddr(r.Addr))
					if ar := r.Addr.Referrers(); ar != nil {
						for _, l := range *ar {
							if u, ok := l.(*ssa.UnOp); ok && u.Op == token.MUL {
								push(u)
							}
						}
					}
				}
			case *ssa.MapUpdate:
				if r.Value == v || r.Key == v {
					push(r.Map)
				}
			case *ssa.Call:
				if o.throughCalls {
					push(r)
					// out-parameters: json.Unmarshal(raw, &x) makes x derived
					for _, a := range r.Call.Args {
						if al, ok := a.(*ssa.Alloc); ok && a != v {
							push(al)
							if ar := al.Referrers(); ar != nil {
								for _, l := range *ar {
									if u, ok := l.(*ssa.UnOp); ok && u.Op == token.MUL {
										push(u)
									}
								}
							}
						}
						if mi, ok := a.(*ssa.MakeInterface); ok {
							if al, ok := mi.X.(*ssa.Alloc); ok && mi.X != v {
								push(al)
								if ar := al.Referrers(); ar != nil {
									for _, l := range *ar {
										if u, ok := l.(*ssa.UnOp); ok && u.Op == token.MUL {
											push(u)
										}
									}
								}
							}
						}
					}
				} else if b, ok := r.Call.Value.(*ssa.Builtin); ok && (b.Name() == "append" || b.Name() == "copy" || b.Name() == "min" || b.Name() == "max") {
					push(r)
				}
				if o.intoClosures {
					pushClosureArgs(r.Common(), v, push)
				}
			case *ssa.Go:
				if o.intoClosures {
					pushClosureArgs(r.Common(), v, push)
				}
			case *ssa.MakeClosure:
				if o.intoClosures {
					if fn, ok := r.Fn.(*ssa.Function); ok {
						for i, b := range r.Bindings {
							if b == v && i < len(fn.FreeVars) {
								push(fn.FreeVars[i])
							}
						}
					}
				}
			}
		}
	}
	return out
}

// rootAddr walks an address expression (IndexAddr/FieldAddr chains) to the container value.
func rootAddr(a ssa.Value) ssa.Value {
	for {
		switch x := a.(type) {
		case *ssa.IndexAddr:
			a = x.X
		case *ssa.FieldAddr:
			a = x.X
		default:
			return a
		}
	}
}

// branchCovers: succ is the target of a conditional edge taken exclusively on that outcome
// (single predecessor, not a back edge) and b lies in the region it dominates.
func branchCovers(succ, b *ssa.BasicBlock) bool {
	return len(succ.Preds) == 1 && dominates(succ, b)
}

// isDominatedBy: block b is dominated by d.
func dominates(d, b *ssa.BasicBlock) bool { return d == b || d.Dominates(b) }

func blockReturns(b *ssa.BasicBlock) *ssa.Return {
	if len(b.Instrs) == 0 {
		return nil
	}
	r, _ := b.Instrs[len(b.Instrs)-1].(*ssa.Return)
	return r
}

// inLoop reports whether a block lies on a CFG cycle.
func inLoop(b *ssa.BasicBlock) bool {
	seen := map[*ssa.BasicBlock]bool{}
	var stack []*ssa.BasicBlock
	stack = append(stack, b.Succs...)
	for len(stack) > 0 {
		x := stack[len(stack)-1]
		stack = stack[:len(stack)-1]
		if x == b {
			return true
		}
		if seen[x] {
			continue
		}
		seen[x] = true
		stack = append(stack, x.Succs...)
	}
	return false
}
