package main

import (
	"fmt"
	"go/token"

	"golang.org/x/tools/go/ssa"
)

// shared site kinds -----------------------------------------------------------------

func (c *Ctx) kindUpdateIndex() *siteKind {
	return newKind("view-refresh", func(call ssa.CallInstruction) bool {
		return c.isMethodOn(call, "UpdateIndex", ifaceIndex)
	})
}

func (c *Ctx) kindPut(key string) *siteKind {
	return newKind("put:"+key, func(call ssa.CallInstruction) bool {
		ks := c.cachePutKeys(call)
		return len(ks) > 0 && (key == "" || hasKey(ks, key))
	})
}

func (c *Ctx) kindEmit(typeName string) *siteKind {
	return newKind("emit:"+typeName, func(call ssa.CallInstruction) bool {
		return c.isEmitOf(call, typeName)
	})
}

// writePaths: repo functions that call Append on an oplog.
func (c *Ctx) appendSites() []ssa.CallInstruction {
	var out []ssa.CallInstruction
	for _, f := range c.RepoFns {
		eachCall(f, func(call ssa.CallInstruction) {
			if c.isLogCall(call, "Append") {
				out = append(out, call)
			}
		})
	}
	return out
}

func (c *Ctx) joinSites() []ssa.CallInstruction {
	var out []ssa.CallInstruction
	for _, f := range c.RepoFns {
		eachCall(f, func(call ssa.CallInstruction) {
			if c.isLogCall(call, "Join") {
				out = append(out, call)
			}
		})
	}
	return out
}

// successReturn: a return that is not certainly failing.
func successReturn(in ssa.Instruction) bool {
	r, ok := in.(*ssa.Return)
	return ok && !isFailureReturn(r)
}

// okStart returns the instruction from which the "call succeeded" continuation starts:
// the first instruction of the err==nil branch when the error is tested, the call itself
// when it has no error result. tested=false means the error result is dropped or untested.
func okStart(call ssa.CallInstruction) (start startPt, failBlocks []*ssa.BasicBlock, tested bool) {
	ev := errResult(call)
	if ev == nil {
		return after(call), nil, call.Common().Signature().Results().Len() == 0 || !hasErrResult(call)
	}
	ts := errTests(ev)
	if len(ts) == 0 {
		return after(call), nil, false
	}
	// the nearest test (the one whose If block is dominated by the call's block / same block)
	best := ts[0]
	for _, t := range ts {
		if dominates(call.Block(), t.If.Block()) && dominates(t.If.Block(), best.If.Block()) == false {
			continue
		}
		if dominates(t.If.Block(), best.If.Block()) {
			best = t
		}
	}
	for _, t := range ts {
		failBlocks = append(failBlocks, t.Fail)
	}
	if len(best.Ok.Instrs) > 0 {
		return atBlock(best.Ok), failBlocks, true
	}
	return after(call), failBlocks, true
}

func hasErrResult(call ssa.CallInstruction) bool {
	sig := call.Common().Signature()
	n := sig.Results().Len()
	return n > 0 && isErrorType(sig.Results().At(n-1).Type())
}

// rulesPersist: P1 (persist before acknowledge), E1 (state before event), E2 (exactly one
// write event), I4 (every merge refreshes the view), L1 (one failing log does not abort the batch).
func rulesPersist(c *Ctx) {
	kUpd := c.kindUpdateIndex()
	kPutAny := c.kindPut("")
	kEmitWrite := c.kindEmit("stores.EventWrite")
	kEmitRepl := c.kindEmit("stores.EventReplicated")

	// append sites, closed under wrappers: a call of a repo function that appends on every
	// non-failing path is an append site of its caller. An obligation "K happens between the
	// append and X" is evaluated along the chain of enclosing calls: it holds if some level of
	// the chain establishes it (the helper itself, or its caller after the helper returns).
	kAppend := newKind("append", func(call ssa.CallInstruction) bool { return c.isLogCall(call, "Append") })
	var directApps []ssa.CallInstruction
	callersOf := map[*ssa.Function][]ssa.CallInstruction{}
	for _, f := range c.RepoFns {
		if c.isTestFile(f.Pos()) {
			continue
		}
		eachCall(f, func(call ssa.CallInstruction) {
			if _, isGo := call.(*ssa.Go); isGo || !c.isSite(kAppend, call) {
				return
			}
			if kAppend.direct(call) {
				directApps = append(directApps, call)
			} else if g := call.Common().StaticCallee(); g != nil {
				callersOf[g] = append(callersOf[g], call)
			}
		})
	}
	startOf := func(site ssa.CallInstruction) startPt {
		st, _, tested := okStart(site)
		if !tested {
			return after(site)
		}
		return st
	}
	// ackHolds: every path from the site to a successful return (at this level or, for
	// helpers, at every caller's level) passes a K-site.
	var ackHolds func(site ssa.CallInstruction, k *siteKind, direct bool, depth int) (bool, ssa.Instruction, []token.Pos)
	ackHolds = func(site ssa.CallInstruction, k *siteKind, direct bool, depth int) (bool, ssa.Instruction, []token.Pos) {
		f := site.Parent()
		if !direct && c.isSite(k, site) {
			return true, nil, nil
		}
		hit, tr := findPath(f, startOf(site), func(in ssa.Instruction) bool { return c.isSite(k, in) }, successReturn, nil)
		if hit == nil {
			return true, nil, nil
		}
		if cs := callersOf[f]; len(cs) > 0 && depth < 4 {
			for _, cs1 := range cs {
				if ok, h2, t2 := ackHolds(cs1, k, false, depth+1); !ok {
					return false, h2, t2
				}
			}
			return true, nil, nil
		}
		return false, hit, tr
	}
	// beforeHolds: no target site is reachable after the append (at any level of the chain)
	// without passing a K-site first.
	var beforeHolds func(site ssa.CallInstruction, k, target *siteKind, direct bool, depth int) (bool, ssa.Instruction, []token.Pos)
	beforeHolds = func(site ssa.CallInstruction, k, target *siteKind, direct bool, depth int) (bool, ssa.Instruction, []token.Pos) {
		f := site.Parent()
		if !direct && c.isSite(k, site) {
			return true, nil, nil
		}
		if hit, tr := findPath(f, startOf(site), func(in ssa.Instruction) bool { return c.isSite(k, in) },
			func(in ssa.Instruction) bool { return c.isSite(target, in) }, nil); hit != nil {
			return false, hit, tr
		}
		// K established at this level on every successful path? then callers are covered
		if ok, _, _ := ackHolds(site, k, direct, 5); ok {
			return true, nil, nil
		}
		if depth < 4 {
			for _, cs1 := range callersOf[f] {
				if ok, h2, t2 := beforeHolds(cs1, k, target, false, depth+1); !ok {
					return false, h2, t2
				}
			}
		}
		return true, nil, nil
	}
	nApp := 0
	for _, app := range directApps {
		f := app.Parent()
		if !c.isControlFn(f) {
			nApp++
		}
		fk := fnKey(f)
		if _, _, tested := okStart(app); !tested {
			c.bad("P1", fk+"→Append#err", app.Pos(), "the error result of Append is not tested; a failed append would be acknowledged")
			continue
		}
		// --- P1(a): Append … Put(local head, error tested) … return e, nil
		if ok, hit, tr := ackHolds(app, kPutAny, true, 0); !ok {
			c.bad("P1", fk+"→Append→ack", hit.Pos(),
				"a successful return is reachable after Append without persisting the new head in the cache (acknowledged write would be lost by a restart)", c.trailStr(tr)...)
		} else {
			c.ok("P1", fk+"→Append→ack", app.Pos(), "every path from Append to a successful return passes a cache Put")
		}
		// the Put's error must be tested and its failing branch must not acknowledge
		chain := []*ssa.Function{f}
		for i := 0; i < len(chain) && i < 8; i++ {
			for _, cs1 := range callersOf[chain[i]] {
				chain = append(chain, cs1.Parent())
			}
		}
		seenPut := map[ssa.Instruction]bool{}
		for _, g := range chain {
			eachInstr(g, func(in ssa.Instruction) {
				call, ok := in.(ssa.CallInstruction)
				if !ok || seenPut[in] {
					return
				}
				if _, isPut := c.cachePutKey(call); !isPut {
					return
				}
				if _, isGo := in.(*ssa.Go); isGo {
					return
				}
				seenPut[in] = true
				key, _ := c.cachePutKey(call)
				_, fails, tested := okStart(call)
				cons := fmt.Sprintf("%s→Put(%s)#err", fnKey(g), key)
				if !tested {
					if ev := errResult(call); ev != nil && returnedDirectly(ev) {
						c.ok("P1", cons, call.Pos(), "Put error is returned to the caller")
						return
					}
					c.bad("P1", cons, call.Pos(), "the error of the head-persisting Put is dropped: a failed write to the cache is acknowledged as success")
					return
				}
				for _, fb := range fails {
					if hit, tr := findPath(g, atBlock(fb), nil, func(in ssa.Instruction) bool {
						r, ok := in.(*ssa.Return)
						return ok && isNilErrReturn(r) && len(r.Results) > 0
					}, nil); hit != nil && branchCovers(fb, hit.Block()) {
						c.bad("P1", cons, hit.Pos(), "the failing branch of the Put error test still reaches a successful return", c.trailStr(tr)...)
						return
					}
				}
				c.ok("P1", cons, call.Pos(), "Put error is tested and the failing branch leaves with an error")
			})
		}
		// --- E1 (write): view refresh and head persistence before EventWrite
		if ok, hit, tr := beforeHolds(app, kUpd, kEmitWrite, true, 0); !ok {
			c.bad("E1", fk+"→EventWrite", hit.Pos(), "EventWrite can be emitted before the view has been refreshed: a subscriber querying on the event does not see the announced entry", c.trailStr(tr)...)
		} else {
			c.ok("E1", fk+"→EventWrite", app.Pos(), "view refresh dominates the emission of EventWrite after Append")
		}
		if ok, hit, tr := beforeHolds(app, kPutAny, kEmitWrite, true, 0); !ok {
			c.bad("E1", fk+"→EventWrite#persist", hit.Pos(), "EventWrite can be emitted before the new head is persisted", c.trailStr(tr)...)
		} else {
			c.ok("E1", fk+"→EventWrite#persist", app.Pos(), "head persistence dominates the emission of EventWrite")
		}
		// --- E1, third clause: the refresh that precedes the event succeeded. Where the refresh
		// step reports an error, the emission comes after the test of that error, on its
		// succeeding side: emitted first and tested afterwards, a write that is reported as
		// failed still announces its entry
		for _, g := range chain {
			eachCall(g, func(u ssa.CallInstruction) {
				if _, isGo := u.(*ssa.Go); isGo || !c.isSite(kUpd, u) || !hasErrResult(u) {
					return
				}
				ev := errResult(u)
				if ev == nil {
					return
				}
				ts := errTests(ev)
				eachCall(g, func(em ssa.CallInstruction) {
					if _, isGo := em.(*ssa.Go); isGo || !c.isSite(kEmitWrite, em) || !dominates(u.Block(), em.Block()) {
						return
					}
					// the same call refreshes and emits (a helper): judged inside the helper
					if ssa.Instruction(u) == ssa.Instruction(em) || (u.Block() == em.Block() && instrIndex(u) > instrIndex(em)) {
						return
					}
					okSide := false
					for _, t := range ts {
						if t.Ok != nil && branchCovers(t.Ok, em.Block()) {
							okSide = true
						}
					}
					cons := fnKey(g) + "→EventWrite#refresh-succeeded"
					if okSide {
						c.ok("E1", cons, em.Pos(), "the write event is emitted on the succeeding side of the view refresh's error test")
					} else {
						c.bad("E1", cons, em.Pos(), "the write event is emitted before the error of the view refresh is looked at (or on its failing side): a write whose refresh failed is reported as failed to the writer and still announced to subscribers, whose queries do not show the entry")
					}
				})
			})
		}
		// --- I4 (write path): refresh before acknowledging
		if ok, hit, tr := ackHolds(app, kUpd, true, 0); !ok {
			c.bad("I4", fk+"→Append→ack", hit.Pos(), "a successful return is reachable after Append without refreshing the view", c.trailStr(tr)...)
		} else {
			c.ok("I4", fk+"→Append→ack", app.Pos(), "every path from Append to a successful return refreshes the view")
		}
		// --- E2: exactly one EventWrite per acknowledged write, carrying the appended entry
		if ok, hit, tr := ackHolds(app, kEmitWrite, true, 0); !ok {
			c.bad("E2", fk+"→ack#emit", hit.Pos(), "a successful return is reachable after Append without emitting EventWrite", c.trailStr(tr)...)
		} else {
			c.ok("E2", fk+"→ack#emit", app.Pos(), "every acknowledged write emits EventWrite")
		}
		emitW := func(in ssa.Instruction) bool { return c.isSite(kEmitWrite, in) }
		for _, g := range chain {
			var emits []ssa.CallInstruction
			eachCall(g, func(call ssa.CallInstruction) {
				if _, isGo := call.(*ssa.Go); isGo {
					return
				}
				// at the level of the append itself every emit site counts; in callers of a
				// helper only direct emissions (a loop of writes is not a loop of events per write)
				if (g == f && c.isSite(kEmitWrite, call)) || (g != f && c.isEmitOf(call, "stores.EventWrite")) {
					emits = append(emits, call)
				}
			})
			gk := fnKey(g)
			for i, em := range emits {
				cons := fmt.Sprintf("%s→EventWrite#%d", gk, i)
				if inLoop(em.Block()) {
					c.bad("E2", cons+"#once", em.Pos(), "EventWrite is emitted inside a loop: one write can produce several events")
					continue
				}
				if hit, tr := findPath(g, after(em), nil, emitW, nil); hit != nil {
					c.bad("E2", cons+"#once", hit.Pos(), "a second EventWrite emission is reachable after the first on the same write", c.trailStr(tr)...)
					continue
				}
				c.ok("E2", cons+"#once", em.Pos(), "at most one EventWrite emission per write")
				// operand: the entry handed to the event derives from Append's result
				if g == f && c.isEmitOf(em, "stores.EventWrite") {
					d := derived([]ssa.Value{app.Value()}, flowOpts{})
					okEntry := false
					if a := argsOf(em); len(a) == 1 {
						if ctor, ok := strip(a[0]).(*ssa.Call); ok {
							for _, x := range ctor.Call.Args {
								if d[x] || d[strip(x)] {
									okEntry = true
								}
							}
						} else if d[strip(a[0])] {
							okEntry = true
						}
					}
					if okEntry {
						c.ok("E2", cons+"#entry", em.Pos(), "the emitted event carries the entry returned by Append")
					} else {
						c.bad("E2", cons+"#entry", em.Pos(), "the emitted EventWrite does not carry the entry returned by this Append")
					}
				}
			}
		}
	}
	c.floor("P1", "write paths (Append sites)", nApp, 1)

	// merge sites ---------------------------------------------------------------------
	joins := c.joinSites()
	nJoin := 0
	for _, j := range joins {
		f := j.Parent()
		if c.isTestFile(f.Pos()) {
			continue
		}
		if !c.isControlFn(f) {
			nJoin++
		}
		fk := fnKey(f)
		start, _, tested := okStart(j)
		if !tested {
			start = after(j) // error ignored: continue from the call itself
		}
		updVia := func(in ssa.Instruction) bool { return c.isSite(kUpd, in) }
		emitR := func(in ssa.Instruction) bool { return c.isSite(kEmitRepl, in) }
		hasEmitR := false
		eachInstr(f, func(in ssa.Instruction) {
			if emitR(in) {
				hasEmitR = true
			}
		})
		// I4
		spawn, host := c.goSpawnOf(f)
		switch {
		case spawn != nil:
			// merge runs in a goroutine per item: the refresh obligation moves to the spawner,
			// after the WaitGroup.Wait that follows the spawning loop.
			cut := lenGuardCut(host, spawn)
			from := after(spawn)
			if hit, tr := findPath(host, from, func(in ssa.Instruction) bool { return c.isSite(kUpd, in) }, successReturn, cut); hit != nil {
				c.bad("I4", fk+"→Join→ack", hit.Pos(), "the spawning function can return successfully after the per-item merges without refreshing the view", c.trailStr(tr)...)
			} else {
				c.ok("I4", fk+"→Join→ack", j.Pos(), "after the spawned merges the spawning function refreshes the view on every successful path")
			}
		case hasEmitR:
			if hit, tr := findPath(f, start, updVia, emitR, nil); hit != nil {
				c.bad("I4", fk+"→Join→replicated", hit.Pos(), "EventReplicated is reachable after Join without refreshing the view", c.trailStr(tr)...)
			} else {
				c.ok("I4", fk+"→Join→replicated", j.Pos(), "view refresh dominates EventReplicated after Join")
			}
		default:
			if ok, hit, tr := c.ackAfter(j, start, kUpd, 0); !ok {
				c.bad("I4", fk+"→Join→ack", hit.Pos(), "a successful return is reachable after Join without refreshing the view (neither here nor in the callers of this helper)", c.trailStr(tr)...)
			} else {
				c.ok("I4", fk+"→Join→ack", j.Pos(), "every path from Join to a successful return refreshes the view (in this function or, for a helper, in each of its callers)")
			}
		}
		if hasEmitR {
			// E1 (replicated) and P1(b)
			putVia := func(in ssa.Instruction) bool { return c.isSite(kPutAny, in) }
			if hit, tr := findPath(f, start, putVia, emitR, nil); hit != nil {
				c.bad("P1", fk+"→Join→replicated#persist", hit.Pos(), "EventReplicated is reachable after Join without persisting the merged heads", c.trailStr(tr)...)
			} else {
				c.ok("P1", fk+"→Join→replicated#persist", j.Pos(), "merged heads are persisted before EventReplicated")
			}
			if hit, tr := findPath(f, start, updVia, emitR, nil); hit != nil {
				c.bad("E1", fk+"→EventReplicated", hit.Pos(), "EventReplicated can be emitted before the view has been refreshed", c.trailStr(tr)...)
			} else {
				c.ok("E1", fk+"→EventReplicated", j.Pos(), "view refresh dominates EventReplicated")
			}
			if hit, tr := findPath(f, start, putVia, emitR, nil); hit != nil {
				c.bad("E1", fk+"→EventReplicated#persist", hit.Pos(), "EventReplicated can be emitted before the heads are persisted", c.trailStr(tr)...)
			} else {
				c.ok("E1", fk+"→EventReplicated#persist", j.Pos(), "head persistence dominates EventReplicated")
			}
			// the Put error must be tested and leave without emitting
			eachInstr(f, func(in ssa.Instruction) {
				call, ok := in.(ssa.CallInstruction)
				if !ok || !c.isSite(kPutAny, in) {
					return
				}
				key, _ := c.cachePutKey(call)
				_, fails, tested := okStart(call)
				cons := fmt.Sprintf("%s→Put(%s)#err", fk, key)
				if !tested {
					c.bad("P1", cons, call.Pos(), "the error of the head-persisting Put is dropped before EventReplicated")
					return
				}
				for _, fb := range fails {
					if hit, tr := findPath(f, atBlock(fb), nil, emitR, nil); hit != nil && branchCovers(fb, hit.Block()) {
						c.bad("P1", cons, hit.Pos(), "the failing branch of the Put error test still emits EventReplicated", c.trailStr(tr)...)
						return
					}
				}
				c.ok("P1", cons, call.Pos(), "Put error is tested; the failing branch does not announce replication")
			})
		}
		// L1: a Join inside a loop: the failing branch must stay in the loop
		if hdr := loopHeader(j.Block()); hdr != nil {
			ev := errResult(j)
			ts := []errTest{}
			if ev != nil {
				ts = errTests(ev)
			}
			cons := fk + "→Join#loop-error"
			if len(ts) == 0 {
				c.ok("L1", cons, j.Pos(), "Join error is not used to leave the loop")
			} else {
				viol := false
				for _, t := range ts {
					enterHdr := func(in ssa.Instruction) bool { return in.Block() == hdr && instrIndex(in) == 0 }
					exit := func(in ssa.Instruction) bool {
						if _, ok := in.(*ssa.Return); ok {
							return true
						}
						// leaving the loop: an instruction of a block outside the loop
						return !sameLoop(hdr, in.Block())
					}
					if len(t.Fail.Instrs) == 0 {
						continue
					}
					if t.Fail == hdr {
						continue
					}
					if hit, tr := findPath(f, atBlock(t.Fail), enterHdr, exit, nil); hit != nil {
						c.bad("L1", cons, hit.Pos(), "the failing branch of Join leaves the loop over fetched logs: one rejected log drops the remaining valid ones (and skips the view refresh for logs already merged)", c.trailStr(tr)...)
						viol = true
						break
					}
				}
				if !viol {
					c.ok("L1", cons, j.Pos(), "a failing Join continues with the next log")
				}
			}
		}
	}
	c.floor("I4", "merge sites (Join)", nJoin, 3)
}

// goSpawnOf: if f is a function literal started with `go` in its parent — or a named function
// or method whose only static uses are `go f(...)` statements — return that Go instruction and
// the function containing it.
func (c *Ctx) goSpawnOf(f *ssa.Function) (*ssa.Go, *ssa.Function) {
	if p := f.Parent(); p != nil {
		var found *ssa.Go
		eachInstr(p, func(in ssa.Instruction) {
			g, ok := in.(*ssa.Go)
			if !ok {
				return
			}
			if mc, ok := g.Call.Value.(*ssa.MakeClosure); ok && mc.Fn == f {
				found = g
			}
		})
		return found, p
	}
	var found *ssa.Go
	var host *ssa.Function
	other := false
	for _, g := range c.RepoFns {
		if c.isTestFile(g.Pos()) {
			continue
		}
		eachInstr(g, func(in ssa.Instruction) {
			call, ok := in.(ssa.CallInstruction)
			if !ok || call.Common().StaticCallee() != f {
				return
			}
			if gi, isGo := in.(*ssa.Go); isGo {
				if found == nil {
					found, host = gi, g
				}
			} else {
				other = true
			}
		})
	}
	if found == nil || other {
		return nil, nil
	}
	return found, host
}

// lenGuardCut implements the single path-sensitivity I4 needs: on paths through a loop body that
// ranges over slice X, a later guard `len(X) > 0` is true. It cuts the false edge of such guards.
func lenGuardCut(host *ssa.Function, spawn *ssa.Go) func(*ssa.BasicBlock, int) bool {
	// slices whose len() bounds a loop containing the spawn
	ranged := map[ssa.Value]bool{}
	eachInstr(host, func(in ssa.Instruction) {
		call, ok := in.(*ssa.Call)
		if !ok {
			return
		}
		if b, ok := call.Call.Value.(*ssa.Builtin); !ok || b.Name() != "len" {
			return
		}
		for _, r := range *call.Referrers() {
			if bo, ok := r.(*ssa.BinOp); ok && bo.Op == token.LSS && bo.Y == ssa.Value(call) {
				if dominates(bo.Block(), spawn.Block()) && inLoop(bo.Block()) {
					ranged[call.Call.Args[0]] = true
				}
			}
		}
	})
	return func(b *ssa.BasicBlock, si int) bool {
		iff, ok := b.Instrs[len(b.Instrs)-1].(*ssa.If)
		if !ok {
			return false
		}
		bo, ok := iff.Cond.(*ssa.BinOp)
		if !ok {
			return false
		}
		lenOf := func(v ssa.Value) ssa.Value {
			if call, ok := v.(*ssa.Call); ok {
				if bi, ok := call.Call.Value.(*ssa.Builtin); ok && bi.Name() == "len" {
					return call.Call.Args[0]
				}
			}
			return nil
		}
		if x := lenOf(bo.X); x != nil && ranged[x] {
			if z, ok := constInt(bo.Y); ok && z == 0 {
				switch bo.Op {
				case token.GTR, token.NEQ:
					return si == 1 // false edge infeasible
				case token.EQL, token.LEQ:
					return si == 0
				}
			}
		}
		return false
	}
}

// loopHeader returns the header of the innermost natural loop containing b, or nil.
func loopHeader(b *ssa.BasicBlock) *ssa.BasicBlock {
	if !inLoop(b) {
		return nil
	}
	// candidates: dominators of b that are in a cycle with b; the innermost is the one
	// dominated by all the others.
	var best *ssa.BasicBlock
	for _, h := range b.Parent().Blocks {
		if !dominates(h, b) {
			continue
		}
		if !reaches(b, h) {
			continue
		}
		// h must have a back edge from a block it dominates
		back := false
		for _, p := range h.Preds {
			if dominates(h, p) {
				back = true
			}
		}
		if !back {
			continue
		}
		if best == nil || dominates(best, h) {
			best = h
		}
	}
	return best
}

func reaches(from, to *ssa.BasicBlock) bool {
	seen := map[*ssa.BasicBlock]bool{}
	stack := append([]*ssa.BasicBlock{}, from.Succs...)
	for len(stack) > 0 {
		x := stack[len(stack)-1]
		stack = stack[:len(stack)-1]
		if x == to {
			return true
		}
		if seen[x] {
			continue
		}
		seen[x] = true
		stack = append(stack, x.Succs...)
	}
	return false
}

// sameLoop: block x belongs to the natural loop headed by hdr.
func sameLoop(hdr, x *ssa.BasicBlock) bool {
	return dominates(hdr, x) && (x == hdr || reaches(x, hdr))
}

// ackAfter: every path from the site to a successful return passes a K-site, in the site's
// function or — when that function is a helper with static repo callers — in every caller
// after the call returns.
func (c *Ctx) ackAfter(site ssa.CallInstruction, start startPt, k *siteKind, depth int) (bool, ssa.Instruction, []token.Pos) {
	f := site.Parent()
	hit, tr := findPath(f, start, func(in ssa.Instruction) bool { return c.isSite(k, in) }, successReturn, nil)
	if hit == nil {
		return true, nil, nil
	}
	if depth >= 3 {
		return false, hit, tr
	}
	// the site runs in a goroutine started per item: the obligation moves to the spawner,
	// after the spawning loop (and its WaitGroup.Wait)
	if spawn, host := c.goSpawnOf(f); spawn != nil {
		h2, t2 := findPath(host, after(spawn), func(in ssa.Instruction) bool { return c.isSite(k, in) }, successReturn, lenGuardCut(host, spawn))
		if h2 == nil {
			return true, nil, nil
		}
		return false, h2, t2
	}
	var callers []ssa.CallInstruction
	for _, g := range c.RepoFns {
		if c.isTestFile(g.Pos()) {
			continue
		}
		eachCall(g, func(call ssa.CallInstruction) {
			if _, isGo := call.(*ssa.Go); !isGo && call.Common().StaticCallee() == f {
				callers = append(callers, call)
			}
		})
	}
	if len(callers) == 0 {
		return false, hit, tr
	}
	for _, cs := range callers {
		st, _, tested := okStart(cs)
		if !tested {
			st = after(cs)
		}
		if ok, h2, t2 := c.ackAfter(cs, st, k, depth+1); !ok {
			return false, h2, t2
		}
	}
	return true, nil, nil
}
