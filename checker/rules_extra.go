package main

import (
	"fmt"
	"go/token"
	"go/types"
	"strings"

	"golang.org/x/tools/go/ssa"
)

// rulesExtra: rules added after the first round of independently seeded changes.
//   I6 — an index scans the whole total order (no partial window of Values(), no scan position kept between calls)
//   T2 — Join is always called ON the store's (verified) log WITH the fetched log, never the other way round;
//        the store's oplog field is only ever assigned a log freshly built by NewLog
//   P4 — cached head keys are never deleted outside Drop
//   B4 — a goroutine started inside a loop does not capture a variable the loop reassigns
//   B5 — the cache handed to a store is, on every path, the one loaded for that store's own address
func rulesExtra(c *Ctx) {
	c.ruleI6()
	c.ruleT2()
	c.ruleP4()
	c.ruleB4()
	c.ruleB5()
}

func (c *Ctx) ruleI6() {
	n := 0
	for _, nt := range c.indexImpls() {
		for _, f := range c.methodsOf(nt) {
			var seeds []ssa.Value
			eachCall(f, func(call ssa.CallInstruction) {
				if c.isLogCall(call, "Values") && call.Value() != nil {
					seeds = append(seeds, call.Value())
				}
			})
			if len(seeds) == 0 {
				continue
			}
			if !c.isControlFn(f) {
				n++
			}
			fk := fnKey(f)
			d := derived(seeds, flowOpts{throughCalls: true})
			k := 0
			viol := false
			eachInstr(f, func(in ssa.Instruction) {
				sl, ok := in.(*ssa.Slice)
				if !ok || !d[sl.X] {
					return
				}
				if sl.Low == nil && sl.High == nil {
					return
				}
				if sl.Low != nil {
					if z, ok := constInt(sl.Low); ok && z == 0 && sl.High == nil {
						return
					}
				}
				viol = true
				c.bad("I6", fmt.Sprintf("%s→Values()[window]#%d", fk, k), bestPos(sl), "the index scans only a window of the log's total order: entries merged into the middle of the order (a concurrent branch delivered later, older history filling a gap) are never interpreted, so the view depends on the order of arrival")
				k++
			})
			// a scan position remembered between calls
			eachInstr(f, func(in ssa.Instruction) {
				st, ok := in.(*ssa.Store)
				if !ok {
					return
				}
				fa, ok := st.Addr.(*ssa.FieldAddr)
				if !ok || !isRecv(f, fa.X) {
					return
				}
				if !isIntType(fieldVarOf(fa).Type()) {
					return
				}
				dl := derived(seeds, flowOpts{throughCalls: true})
				if dl[st.Val] {
					viol = true
					c.bad("I6", fk+"→scan-position:"+fieldVarOf(fa).Name(), st.Pos(), "the index remembers how far into the total order it has read: the order is not append-only under merges, so what lies before that position can change")
				}
			})
			if !viol {
				c.ok("I6", fk+"#whole-order", f.Pos(), "every use of Values() covers the whole total order")
			}
		}
	}
	c.floor("I6", "index methods reading Values()", n, 4)
}

func (c *Ctx) ruleT2() {
	st := c.storeType()
	logI := c.lookupIface(ifaceLog)
	// (1) assignments to the store's oplog field
	nAssign := 0
	if st != nil {
		for _, f := range c.RepoFns {
			if c.isTestFile(f.Pos()) {
				continue
			}
			eachInstr(f, func(in ssa.Instruction) {
				s, ok := in.(*ssa.Store)
				if !ok {
					return
				}
				fa, ok := s.Addr.(*ssa.FieldAddr)
				if !ok {
					return
				}
				fv := fieldVarOf(fa)
				if fv == nil || logI == nil {
					return
				}
				it, ok := fv.Type().Underlying().(*types.Interface)
				if !ok || !types.Identical(it, logI) {
					return
				}
				ot := fa.X.Type()
				if p, ok := ot.Underlying().(*types.Pointer); ok {
					ot = p.Elem()
				}
				if n, ok := ot.(*types.Named); !ok || n.Obj() != st.Obj() {
					return
				}
				if !c.isControlFn(f) {
					nAssign++
				}
				cons := fnKey(f) + "→oplog="
				fresh := false
				if ex, ok := strip(s.Val).(*ssa.Extract); ok && ex.Index == 0 {
					if call, ok := ex.Tuple.(*ssa.Call); ok && calleeFull(call) == logMod+".NewLog" {
						fresh = true
					}
				}
				if fresh {
					c.ok("T2", cons+"NewLog", s.Pos(), "the store's log is replaced only by an empty log built with NewLog")
				} else {
					c.bad("T2", cons+nf(s.Val), s.Pos(), "the store's log is replaced by a log that was not freshly built by NewLog: entries of a fetched or caller-supplied log become the store's log without having gone through Join's access and signature checks")
				}
			})
		}
	}
	c.floor("T2", "assignments to the store's oplog", nAssign, 2)
	// (2) Join direction
	isCtor := func(v ssa.Value) bool {
		if ex, ok := v.(*ssa.Extract); ok {
			v = ex.Tuple
		}
		call, ok := v.(*ssa.Call)
		return ok && logCtors[calleeFull(call)]
	}
	var ctorDerived func(f *ssa.Function) map[ssa.Value]bool
	memo := map[*ssa.Function]map[ssa.Value]bool{}
	ctorDerived = func(f *ssa.Function) map[ssa.Value]bool {
		if m, ok := memo[f]; ok {
			return m
		}
		var seeds []ssa.Value
		eachCall(f, func(call ssa.CallInstruction) {
			if logCtors[calleeFull(call)] && call.Value() != nil {
				seeds = append(seeds, call.Value())
			}
		})
		m := derived(seeds, flowOpts{})
		memo[f] = m
		return m
	}
	for _, j := range c.joinSites() {
		f := j.Parent()
		if c.isTestFile(f.Pos()) {
			continue
		}
		recv := recvOf(j)
		cons := fnKey(f) + "→Join#receiver"
		bad := ""
		switch {
		case ctorDerived(f)[recv] || isCtor(recv):
			bad = "a log built from fetched content"
		default:
			if p, ok := recv.(*ssa.Parameter); ok {
				// a helper: inspect what its callers pass
				idx := -1
				for i, q := range f.Params {
					if q == p {
						idx = i
					}
				}
				for _, g := range c.RepoFns {
					eachCall(g, func(call ssa.CallInstruction) {
						if call.Common().StaticCallee() != f || idx < 0 {
							return
						}
						args := call.Common().Args
						if idx < len(args) && (ctorDerived(g)[args[idx]] || isCtor(args[idx])) {
							bad = "a parameter that " + fnKey(g) + " fills with a log built from fetched content"
						}
					})
				}
			}
		}
		if bad != "" {
			c.bad("T2", cons, j.Pos(), "Join is called on "+bad+" (with the store's log as argument): Join checks access rights and signatures only for the entries of its ARGUMENT, so the fetched entries are adopted unchecked")
		} else {
			c.ok("T2", cons, j.Pos(), "Join is called on the store's log; the fetched log is the argument whose entries are checked")
		}
	}
}

func (c *Ctx) ruleP4() {
	n := 0
	for _, f := range c.RepoFns {
		if c.isTestFile(f.Pos()) {
			continue
		}
		eachCall(f, func(call ssa.CallInstruction) {
			if !c.isMethodOn(call, "Delete", ifaceDSWrite) {
				return
			}
			a := argsOf(call)
			if len(a) < 2 {
				return
			}
			key, ok := dsKeyOf(a[1])
			if !ok {
				return
			}
			n++
			if topLevel(f).Name() == "Drop" {
				c.ok("P4", fnKey(f)+"→Delete("+key+")", call.Pos(), "cache key removed by Drop")
				return
			}
			c.bad("P4", fnKey(f)+"→Delete("+key+")", call.Pos(), fmt.Sprintf("cache key %q is deleted outside Drop: what the load path and the head exchange read back (heads of merged batches, local head, snapshot pointers) must survive until the database is dropped — a delete racing with the path that writes the key loses acknowledged data at the next restart", key))
		})
	}
	c.Counts["P4:constant-key deletes"] = n
	if n == 0 {
		c.ok("P4", "no-head-key-deletes", token.NoPos, "no constant cache key is ever deleted")
	}
}

func (c *Ctx) ruleB4() {
	n := 0
	for _, s := range c.goSites() {
		mc, ok := s.g.Call.Value.(*ssa.MakeClosure)
		if !ok {
			continue
		}
		hdr := loopHeader(s.g.Block())
		if hdr == nil {
			continue
		}
		if !c.isControlFn(s.fn) {
			n++
		}
		cons := fmt.Sprintf("%s→go@loop#capture", fnKey(s.fn))
		bad := ""
		body, _ := mc.Fn.(*ssa.Function)
		for i, b := range mc.Bindings {
			al, ok := b.(*ssa.Alloc)
			if !ok {
				continue
			}
			// the cell lives across iterations: allocated outside the loop
			if sameLoop(hdr, al.Block()) {
				continue
			}
			// and the loop writes it
			written := false
			for _, r := range *al.Referrers() {
				if st, ok := r.(*ssa.Store); ok && st.Addr == ssa.Value(al) && sameLoop(hdr, st.Block()) {
					written = true
				}
			}
			if !written {
				continue
			}
			// and the goroutine reads it
			read := false
			if body != nil && i < len(body.FreeVars) {
				if refs := body.FreeVars[i].Referrers(); refs != nil && len(*refs) > 0 {
					read = true
				}
			}
			if read {
				bad = al.Comment
			}
		}
		if bad != "" {
			c.bad("B4", cons, s.g.Pos(), fmt.Sprintf("the goroutine started in this loop captures variable %q by reference and the loop assigns it again on the next iteration: a handler still running for one event can observe (and act on) the next event's value — e.g. announce another database's heads under this database's address", bad))
		} else {
			c.ok("B4", cons, s.g.Pos(), "goroutines started in the loop only capture per-iteration variables or variables the loop does not reassign")
		}
	}
	c.floor("B4", "goroutines started inside loops", n, 3)
}

func (c *Ctx) ruleB5() {
	n := 0
	for _, f := range c.fnsInPkg("baseorbitdb") {
		if c.isTestFile(f.Pos()) || f.Parent() != nil {
			continue
		}
		var ctorCall ssa.CallInstruction
		eachCall(f, func(call ssa.CallInstruction) {
			cc := call.Common()
			if !cc.IsInvoke() && cc.StaticCallee() == nil && strings.HasSuffix(typeStr(cc.Value.Type()), "iface.StoreConstructor") {
				ctorCall = call
			}
		})
		if ctorCall == nil {
			continue
		}
		n++
		fk := fnKey(f)
		// the address parameter of this function
		var addrParam *ssa.Parameter
		for _, p := range f.Params {
			if strings.HasSuffix(typeStr(p.Type()), "address.Address") {
				addrParam = p
			}
		}
		// cache loads for that address
		var loads []ssa.Value
		eachCall(f, func(call ssa.CallInstruction) {
			g := call.Common().StaticCallee()
			isLoad := methodName(call) == "Load" && recvOf(call) != nil && strings.HasSuffix(typeStr(recvOf(call).Type()), "cache.Interface")
			if g != nil && g.Blocks != nil && g.Pkg == f.Pkg {
				eachCall(g, func(gc ssa.CallInstruction) {
					if methodName(gc) == "Load" && recvOf(gc) != nil && strings.HasSuffix(typeStr(recvOf(gc).Type()), "cache.Interface") {
						isLoad = true
					}
				})
			}
			if !isLoad || call.Value() == nil {
				return
			}
			for _, a := range call.Common().Args {
				if addrParam != nil && isParamValue(a, addrParam) {
					loads = append(loads, call.Value())
				}
			}
		})
		cons := fk + "→StoreConstructor#cache"
		if len(loads) == 0 {
			c.bad("B5", cons, ctorCall.Pos(), "the store is not given a cache loaded for its own address")
			continue
		}
		d := derived(loads, flowOpts{})
		// the value reaching NewStoreOptions.Cache must be that cache on every path: a store into the
		// options' Cache field of a derived value must be passed on every path to the constructor call,
		// or the literal's Cache field is directly derived
		var opts ssa.Value
		for _, a := range ctorCall.Common().Args {
			if p, ok := a.Type().(*types.Pointer); ok && strings.HasSuffix(typeStr(p.Elem()), "iface.NewStoreOptions") {
				opts = a
			}
		}
		cv := structLitFields(opts)["Cache"]
		if cv != nil && d[cv] {
			if _, isLoadOfField := cv.(*ssa.UnOp); !isLoadOfField {
				c.ok("B5", cons, ctorCall.Pos(), "the store receives the cache loaded for its own address")
				continue
			}
		}
		setCache := func(in ssa.Instruction) bool {
			s, ok := in.(*ssa.Store)
			if !ok || !d[s.Val] {
				return false
			}
			fa, ok := s.Addr.(*ssa.FieldAddr)
			return ok && fieldName(fa.X.Type(), fa.Field) == "Cache"
		}
		target := func(in ssa.Instruction) bool { return in == ssa.Instruction(ctorCall) }
		if hit, tr := findPath(f, entry, setCache, target, nil); hit != nil {
			c.bad("B5", cons, ctorCall.Pos(), "on some path the store is created with a cache that is not the one loaded for its own address (a value left in the caller's options by an earlier open): two databases then share one datastore and overwrite each other's _localHeads/_remoteHeads/snapshot keys", c.trailStr(tr)...)
		} else {
			c.ok("B5", cons, ctorCall.Pos(), "on every path the store receives the cache loaded for its own address")
		}
	}
	c.floor("B5", "store constructor invocations", n, 1)
}

// isParamValue: v is parameter p, directly or reloaded from the cell it was spilled into.
func isParamValue(v ssa.Value, p *ssa.Parameter) bool {
	if v == ssa.Value(p) {
		return true
	}
	if u, ok := v.(*ssa.UnOp); ok && u.Op == token.MUL {
		if a, ok := u.X.(*ssa.Alloc); ok {
			return uniqueStore(a) == ssa.Value(p)
		}
	}
	return false
}
