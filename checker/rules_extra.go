package main

import (
	"fmt"
	"go/token"
	"go/types"
	"strings"

	"golang.org/x/tools/go/ssa"
)

// rulesExtra: rules added after the first round of independently seeded changes.
//
//	I6 — an index scans the whole total order (no partial window of Values(), no scan position kept between calls)
//	T2 — Join is always called ON the store's (verified) log WITH the fetched log, never the other way round;
//	     the store's oplog field is only ever assigned a log freshly built by NewLog
//	P4 — cached head keys are never deleted outside Drop
//	B4 — a goroutine started inside a loop does not capture a variable the loop reassigns
//	B5 — the cache handed to a store is, on every path, the one loaded for that store's own address
func rulesExtra(c *Ctx) {
	c.ruleI6()
	c.ruleT2()
	c.ruleP4()
	c.ruleB4()
	c.ruleB5()
	c.ruleT3()
	c.ruleT4()
}

// T3 — fetched entries of another database are refused. The replicator wraps what it fetches
// in a log carrying the store's id, and Join adopts the heads of the joined log even when it
// adds none of its entries (DF9), so the fetch step itself must compare every fetched entry's
// log id with the store's and fail on a mismatch.
func (c *Ctx) ruleT3() {
	n := 0
	var rfns []*ssa.Function
	for _, f := range c.fnsInPkg("stores/replicator") {
		if !c.isTestFile(f.Pos()) {
			rfns = append(rfns, f)
		}
	}
	byFn := c.fetchedLogsByFn(rfns)
	for _, f := range rfns {
		for _, fv := range byFn[f] {
			call := fv.(ssa.Instruction)
			n++
			cons := fnKey(f) + "→fetch#log-id"
			d := derived([]ssa.Value{fv}, flowOpts{throughCalls: true})
			var tests []*ssa.If
			mismatchEdge := map[*ssa.If]int{}
			eachInstr(f, func(in ssa.Instruction) {
				bo, ok := in.(*ssa.BinOp)
				if !ok || (bo.Op != token.EQL && bo.Op != token.NEQ) {
					return
				}
				isLogID := func(v ssa.Value) bool {
					cl, ok := v.(*ssa.Call)
					return ok && methodName(cl) == "GetLogID" && cl.Common().IsInvoke() && d[cl.Common().Value]
				}
				if !isLogID(bo.X) && !isLogID(bo.Y) {
					return
				}
				for _, r := range *bo.Referrers() {
					if iff, ok := r.(*ssa.If); ok {
						tests = append(tests, iff)
						if bo.Op == token.NEQ {
							mismatchEdge[iff] = 0
						} else {
							mismatchEdge[iff] = 1
						}
					}
				}
			})
			// the comparison applies to everything that is fetched: no path from the fetch to a
			// successful return goes round it (a test made for some kinds of queue item only
			// lets the others through unchecked)
			skippable := func(via instrPred) (ssa.Instruction, []token.Pos) {
				start := after(call)
				if cc, ok := call.(ssa.CallInstruction); ok {
					if st, _, tested := okStart(cc); tested {
						start = st
					}
				}
				return findPath(f, start, via, successReturn, nil)
			}
			if len(tests) == 0 {
				if hc := c.logIDCheckedByHelper(f, d); hc != nil {
					start := after(call)
					if cc, ok := call.(ssa.CallInstruction); ok {
						if st0, _, tested := okStart(cc); tested {
							start = st0
						}
					}
					early := func(in ssa.Instruction) bool {
						st, ok := in.(*ssa.Store)
						if !ok {
							return false
						}
						if _, isField := st.Addr.(*ssa.FieldAddr); !isField {
							return false
						}
						return d[st.Val] || st.Val == fv
					}
					if hit, tr := findPath(f, start, func(in ssa.Instruction) bool { return in == ssa.Instruction(hc) }, early, nil); hit != nil {
						c.bad("T3", cons, hit.Pos(), "the fetched log is stored where the idle flush takes it (a field of the replicator) before its entries' log ids are compared with the store's: the comparison still fails the fetch step, but the refused log is already in the buffer and is joined with the rest — Join skips its entries and adopts it as a head", c.trailStr(tr)...)
						continue
					}
					if hit, tr := skippable(func(in ssa.Instruction) bool { return in == ssa.Instruction(hc) }); hit != nil {
						c.bad("T3", cons, hit.Pos(), "the fetch step can return successfully without having compared the log id of what it fetched with the store's: what goes round the comparison (a kind of queue item, a flag) is merged unchecked, and an entry of ANOTHER database ends up among this log's heads", c.trailStr(tr)...)
					} else {
						c.ok("T3", cons, call.Pos(), "a helper given the fetched log compares every entry's log id with the store's and its error makes the fetch step fail")
					}
					continue
				}
			}
			if len(tests) == 0 {
				c.bad("T3", cons, call.Pos(), "the fetch step never compares the log id of what it fetched with the store's: the fetched log is created with the store's id whatever its entries say, and Join merges that log's heads even when it adds none of its entries, so a valid entry of ANOTHER database (announced as a head or referenced as an ancestor) shows up among this log's heads and values")
				continue
			}
			viol := false
			for _, iff := range tests {
				sc := iff.Block().Succs[mismatchEdge[iff]]
				if hit, tr := findPath(f, atBlock(sc), nil, successReturn, nil); hit != nil && branchCovers(sc, hit.Block()) {
					viol = true
					c.bad("T3", cons, hit.Pos(), "the branch taken when a fetched entry belongs to another log still returns success", c.trailStr(tr)...)
				}
			}
			if !viol {
				// the calls that enumerate the fetched log for the comparison
				recvs := map[ssa.Value]bool{}
				for _, iff := range tests {
					bo := iff.Cond.(*ssa.BinOp)
					for _, v := range []ssa.Value{bo.X, bo.Y} {
						if cl, ok := v.(*ssa.Call); ok && methodName(cl) == "GetLogID" {
							recvs[cl.Common().Value] = true
						}
					}
				}
				enum := map[ssa.Instruction]bool{}
				eachCall(f, func(cc ssa.CallInstruction) {
					cv := cc.Value()
					if cv == nil || !d[cv] || cv == fv {
						return
					}
					r := recvOf(cc)
					if r == nil || (r != fv && !d[r]) {
						return
					}
					dd := derived([]ssa.Value{cv}, flowOpts{throughCalls: true})
					for rv := range recvs {
						if dd[rv] {
							enum[cc] = true
						}
					}
				})
				if len(enum) > 0 {
					// … and it comes before the fetched log is handed on: stored into a field (the
					// buffer the idle test flushes) before the comparison, a refused log is still
					// joined when its worker is the last to finish
					handOver := func(in ssa.Instruction) bool {
						st, ok := in.(*ssa.Store)
						if !ok {
							return false
						}
						if _, isField := st.Addr.(*ssa.FieldAddr); !isField {
							return false
						}
						return d[st.Val] || st.Val == fv
					}
					start := after(call)
					if cc, ok := call.(ssa.CallInstruction); ok {
						if st0, _, tested := okStart(cc); tested {
							start = st0
						}
					}
					if hit, tr := findPath(f, start, func(in ssa.Instruction) bool { return enum[in] }, handOver, nil); hit != nil && !viol {
						viol = true
						c.bad("T3", cons, hit.Pos(), "the fetched log is stored where the idle flush takes it (a field of the replicator) before its entries' log ids are compared with the store's: the comparison still fails the fetch step, but the refused log is already in the buffer and is joined with the rest — Join skips its entries and adopts it as a head", c.trailStr(tr)...)
					}
				}
				if len(enum) > 0 && !viol {
					if hit, tr := skippable(func(in ssa.Instruction) bool { return enum[in] }); hit != nil {
						viol = true
						c.bad("T3", cons, hit.Pos(), "the fetch step can return successfully without having compared the log id of what it fetched with the store's: what goes round the comparison (a kind of queue item, a flag) is merged unchecked, and an entry of ANOTHER database ends up among this log's heads", c.trailStr(tr)...)
					}
				}
			}
			if !viol {
				c.ok("T3", cons, call.Pos(), "a fetched entry whose log id differs from the store's makes the fetch step fail")
			}
		}
	}
	c.floor("T3", "replicator fetch steps", n, 1)
}

// logIDCheckedByHelper: f hands the fetched log to a same-package function that compares the
// entries' log id and returns an error on the mismatching edge, and f leaves on that error.
func (c *Ctx) logIDCheckedByHelper(f *ssa.Function, d map[ssa.Value]bool) ssa.CallInstruction {
	var found ssa.CallInstruction
	eachCall(f, func(call ssa.CallInstruction) {
		if found != nil {
			return
		}
		if _, isGo := call.(*ssa.Go); isGo {
			return
		}
		h := call.Common().StaticCallee()
		if h == nil || h.Blocks == nil || h.Pkg != f.Pkg {
			return
		}
		var ps []ssa.Value
		for i, a := range call.Common().Args {
			if d[a] && i < len(h.Params) {
				ps = append(ps, h.Params[i])
			}
		}
		if len(ps) == 0 {
			return
		}
		// the caller leaves on the helper's error
		ev := errResult(call)
		if ev == nil || !(returnedDirectly(ev) || len(errTests(ev)) > 0) {
			return
		}
		dh := derived(ps, flowOpts{throughCalls: true})
		okTest := false
		bad := false
		eachInstr(h, func(in ssa.Instruction) {
			bo, ok := in.(*ssa.BinOp)
			if !ok || (bo.Op != token.EQL && bo.Op != token.NEQ) {
				return
			}
			isLogID := func(v ssa.Value) bool {
				cl, ok := v.(*ssa.Call)
				return ok && methodName(cl) == "GetLogID" && cl.Common().IsInvoke() && dh[cl.Common().Value]
			}
			if !isLogID(bo.X) && !isLogID(bo.Y) {
				return
			}
			for _, r := range *bo.Referrers() {
				iff, ok := r.(*ssa.If)
				if !ok {
					continue
				}
				edge := 1
				if bo.Op == token.NEQ {
					edge = 0
				}
				okTest = true
				sc := iff.Block().Succs[edge]
				if hit, _ := findPath(h, atBlock(sc), nil, successReturn, nil); hit != nil && branchCovers(sc, hit.Block()) {
					bad = true
				}
			}
		})
		if okTest && !bad {
			found = call
		}
	})
	return found
}

// T4 — the replicator is only handed heads that were accepted. In the function that checks
// received heads against the access controller and hands them to Replicator.Load, the slice
// handed over is not the received one but one built by appends that are each dominated by
// the accepting outcome of CanAppend.
func (c *Ctx) ruleT4() {
	n := 0
	for _, f := range c.RepoFns {
		if c.isTestFile(f.Pos()) || f.Parent() != nil {
			continue
		}
		var loads []ssa.CallInstruction
		nCan := 0
		for _, g := range withClosures(f) {
			eachCall(g, func(call ssa.CallInstruction) {
				if methodName(call) == "CanAppend" && c.isMethodOn(call, "CanAppend", ifaceLogAC) {
					nCan++
				}
				// the access check may live in a helper called from here (a few levels down)
				if h := call.Common().StaticCallee(); h != nil && h.Blocks != nil && h.Pkg == f.Pkg && h != f {
					if c.reachesStatic(h, func(hc ssa.CallInstruction) bool {
						return methodName(hc) == "CanAppend" && c.isMethodOn(hc, "CanAppend", ifaceLogAC)
					}, 0) {
						nCan++
					}
				}
				if methodName(call) == "Load" && recvOf(call) != nil && strings.Contains(typeStr(recvOf(call).Type()), "eplicator") {
					loads = append(loads, call)
				}
			})
		}
		if nCan == 0 || len(loads) == 0 {
			continue
		}
		if !c.isControlFn(f) {
			n++
		}
		cons := fnKey(f) + "→Load#accepted-only"
		for _, ld := range loads {
			args := argsOf(ld)
			if len(args) < 2 {
				continue
			}
			arg := args[1]
			// the received slice itself?
			isParam := false
			for _, p := range f.Params {
				if arg == ssa.Value(p) || isParamValue(arg, p) {
					isParam = true
				}
			}
			if isParam {
				c.bad("T4", cons, ld.Pos(), "the replicator is handed the received list of heads itself, including the heads the access controller (or the other checks) just refused: a peer without write access makes this node fetch whatever addresses it names — every fetch slot can be kept busy with unfetchable ones, which blocks the replication of valid entries for good — and refused, unchecked head objects travel on to the replicator's events")
				continue
			}
			// a slice built here: every append feeding it is dominated by the accepting outcome of CanAppend
			viol := false
			checked := 0
			var walk func(v ssa.Value, depth int)
			seen := map[ssa.Value]bool{}
			walk = func(v ssa.Value, depth int) {
				if v == nil || seen[v] || depth > 6 {
					return
				}
				seen[v] = true
				switch x := v.(type) {
				case *ssa.Phi:
					for _, e := range x.Edges {
						walk(e, depth+1)
					}
				case *ssa.Call:
					if b, ok := x.Call.Value.(*ssa.Builtin); ok && b.Name() == "append" {
						checked++
						ef := c.entryFacts(x.Block(), 0)
						for _, el := range variadicElems(x.Call.Args[len(x.Call.Args)-1]) {
							if !ef["acl("+nf(strip(el))+")"] {
								viol = true
							}
						}
						if len(x.Call.Args) == 2 && len(variadicElems(x.Call.Args[1])) == 0 {
							viol = true // appending a whole slice of unknown provenance
						}
						walk(x.Call.Args[0], depth+1)
					}
				case *ssa.UnOp:
					if a, ok := x.X.(*ssa.Alloc); ok {
						for _, r := range *a.Referrers() {
							if st, ok := r.(*ssa.Store); ok && st.Addr == ssa.Value(a) {
								walk(st.Val, depth+1)
							}
						}
					}
					if fv, ok := x.X.(*ssa.FreeVar); ok {
						walk(fv, depth+1) // the list is a captured variable of the enclosing function
					}
				case *ssa.FreeVar:
					// captured cell of the parent
					if p := x.Parent().Parent(); p != nil {
						eachInstr(p, func(in ssa.Instruction) {
							if mc, ok := in.(*ssa.MakeClosure); ok && mc.Fn == ssa.Value(x.Parent()) {
								for i, fv := range x.Parent().FreeVars {
									if fv == x && i < len(mc.Bindings) {
										walk(mc.Bindings[i], depth+1)
									}
								}
							}
						})
					}
				case *ssa.Alloc:
					for _, r := range *x.Referrers() {
						if st, ok := r.(*ssa.Store); ok && st.Addr == ssa.Value(x) {
							walk(st.Val, depth+1)
						}
					}
				}
			}
			walk(arg, 0)
			switch {
			case viol:
				c.bad("T4", cons, ld.Pos(), "a head is added to the list handed to the replicator on a path where the access controller has not accepted it")
			case checked == 0:
				c.undecided("T4", cons, ld.Pos(), "cannot see how the list handed to the replicator is built")
			default:
				c.ok("T4", cons, ld.Pos(), fmt.Sprintf("the list handed to the replicator is built from heads appended only after CanAppend accepted them (%d append site(s))", checked))
			}
		}
	}
	c.floor("T4", "functions checking received heads and loading them", n, 1)
}

func (c *Ctx) ruleI6() {
	n := 0
	for _, nt := range c.indexImpls() {
		for _, f := range c.methodsOf(nt) {
			var seeds []ssa.Value
			eachCall(f, func(call ssa.CallInstruction) {
				if c.isLogCall(call, "Values") && call.Value() != nil {
					seeds = append(seeds, call.Value())
				}
			})
			if len(seeds) == 0 {
				continue
			}
			if !c.isControlFn(f) {
				n++
			}
			fk := fnKey(f)
			d := derived(seeds, flowOpts{throughCalls: true})
			k := 0
			viol := false
			eachInstr(f, func(in ssa.Instruction) {
				sl, ok := in.(*ssa.Slice)
				if !ok || !d[sl.X] {
					return
				}
				if sl.Low == nil && sl.High == nil {
					return
				}
				if sl.Low != nil {
					if z, ok := constInt(sl.Low); ok && z == 0 && sl.High == nil {
						return
					}
				}
				viol = true
				c.bad("I6", fmt.Sprintf("%s→Values()[window]#%d", fk, k), bestPos(sl), "the index scans only a window of the log's total order: entries merged into the middle of the order (a concurrent branch delivered later, older history filling a gap) are never interpreted, so the view depends on the order of arrival")
				k++
			})
			// a scan position remembered between calls
			eachInstr(f, func(in ssa.Instruction) {
				st, ok := in.(*ssa.Store)
				if !ok {
					return
				}
				fa, ok := st.Addr.(*ssa.FieldAddr)
				if !ok || !isRecv(f, fa.X) {
					return
				}
				if !isIntType(fieldVarOf(fa).Type()) {
					return
				}
				dl := derived(seeds, flowOpts{throughCalls: true})
				if dl[st.Val] {
					viol = true
					c.bad("I6", fk+"→scan-position:"+fieldVarOf(fa).Name(), st.Pos(), "the index remembers how far into the total order it has read: the order is not append-only under merges, so what lies before that position can change")
				}
			})
			// entries skipped because of something remembered from earlier calls: a branch whose
			// condition derives from receiver state that the index itself writes, and one of whose
			// outcomes reaches the next iteration / the end without touching the view
			if f.Name() == "UpdateIndex" {
				written := map[*types.Var]bool{}
				for _, g := range c.methodsOf(nt) {
					eachInstr(g, func(in ssa.Instruction) {
						switch x := in.(type) {
						case *ssa.Store:
							if fa, ok := x.Addr.(*ssa.FieldAddr); ok && isRecv(g, fa.X) {
								written[fieldVarOf(fa)] = true
							}
						case *ssa.MapUpdate:
							if u, ok := x.Map.(*ssa.UnOp); ok {
								if fa, ok := u.X.(*ssa.FieldAddr); ok && isRecv(g, fa.X) {
									written[fieldVarOf(fa)] = true
								}
							}
						}
					})
				}
				var state []ssa.Value
				eachInstr(f, func(in ssa.Instruction) {
					fa, ok := in.(*ssa.FieldAddr)
					if !ok || !isRecv(f, fa.X) {
						return
					}
					fv := fieldVarOf(fa)
					if fv == nil || !written[fv] || strings.HasPrefix(typeStr(fv.Type()), "sync.") {
						return
					}
					// reads of the field: loads, and the address handed to a method (value receiver spilled)
					for _, r := range *fa.Referrers() {
						switch y := r.(type) {
						case *ssa.UnOp:
							if y.Op == token.MUL {
								// a map only used as the target of writes is the view itself, not a read
								onlyWrites := true
								for _, rr := range *y.Referrers() {
									switch z := rr.(type) {
									case *ssa.MapUpdate:
										if z.Map != ssa.Value(y) {
											onlyWrites = false
										}
									case *ssa.Call:
										if bi, ok := z.Call.Value.(*ssa.Builtin); !ok || bi.Name() != "delete" {
											onlyWrites = false
										}
									default:
										onlyWrites = false
									}
								}
								if !onlyWrites {
									state = append(state, y)
								}
							}
						case ssa.CallInstruction:
							if y.Value() != nil {
								state = append(state, y.Value())
							}
						}
					}
				})
				// what counts as "deciding by remembered state": scalar state, membership in a
				// remembered map (the ok of a comma-ok lookup, or a lookup in a set), results of
				// methods on state values — but not the *content* looked up in a memo table
				var seeds []ssa.Value
				for _, v := range state {
					if _, isMap := v.Type().Underlying().(*types.Map); !isMap {
						seeds = append(seeds, v)
						continue
					}
					for _, r := range *v.Referrers() {
						// how much is remembered is a scalar of remembered state
						if call, ok := r.(*ssa.Call); ok {
							if bi, ok := call.Call.Value.(*ssa.Builtin); ok && bi.Name() == "len" {
								seeds = append(seeds, call)
							}
						}
						lk, ok := r.(*ssa.Lookup)
						if !ok || lk.X != v {
							continue
						}
						if lk.CommaOk {
							for _, rr := range *lk.Referrers() {
								if ex, ok := rr.(*ssa.Extract); ok && ex.Index == 1 {
									seeds = append(seeds, ex)
								}
							}
							continue
						}
						mt := v.Type().Underlying().(*types.Map)
						if st, ok := mt.Elem().Underlying().(*types.Struct); ok && st.NumFields() == 0 {
							seeds = append(seeds, lk)
						} else if bt, ok := mt.Elem().Underlying().(*types.Basic); ok && bt.Kind() == types.Bool {
							seeds = append(seeds, lk)
						}
					}
				}
				ds := derived(seeds, flowOpts{throughCalls: true})
				// fields (and maps) the index reads back are its bookkeeping, everything else it writes is the view
				stateField := map[*types.Var]bool{}
				for _, v := range state {
					var src ssa.Value = v
					if u, ok := v.(*ssa.UnOp); ok {
						src = u.X
					} else if call, ok := v.(*ssa.Call); ok && len(call.Call.Args) > 0 {
						src = call.Call.Args[0]
					}
					if fa, ok := src.(*ssa.FieldAddr); ok {
						stateField[fieldVarOf(fa)] = true
					}
				}
				fieldOfMap := func(m ssa.Value) *types.Var {
					if u, ok := m.(*ssa.UnOp); ok {
						if fa, ok := u.X.(*ssa.FieldAddr); ok && isRecv(f, fa.X) {
							return fieldVarOf(fa)
						}
					}
					return nil
				}
				viewWrite := func(in ssa.Instruction) bool {
					switch x := in.(type) {
					case *ssa.MapUpdate:
						fv := fieldOfMap(x.Map)
						return fv != nil && !stateField[fv]
					case *ssa.Call:
						if bi, ok := x.Call.Value.(*ssa.Builtin); ok && bi.Name() == "delete" {
							fv := fieldOfMap(x.Call.Args[0])
							return fv != nil && !stateField[fv]
						}
					case *ssa.Store:
						if fa, ok := x.Addr.(*ssa.FieldAddr); ok && isRecv(f, fa.X) {
							return !stateField[fieldVarOf(fa)]
						}
					}
					return false
				}
				// the place read from the total order is itself chosen by remembered state
				eachInstr(f, func(in ssa.Instruction) {
					ia, ok := in.(*ssa.IndexAddr)
					if !ok || viol || !d[ia.X] || !ds[ia.Index] {
						return
					}
					viol = true
					c.bad("I6", fk+"→remembered-position", bestPos(ia), "the scan over the total order starts at (or is positioned by) something the index remembers from earlier calls: the order is not append-only under merges — a concurrent branch lands in the middle and shifts what follows — so entries before that position are never looked at again and what was recorded about the others is stale")
				})
				for _, b := range f.Blocks {
					if viol {
						break
					}
					if len(b.Instrs) == 0 {
						continue
					}
					iff, ok := b.Instrs[len(b.Instrs)-1].(*ssa.If)
					if !ok || !ds[iff.Cond] {
						continue
					}
					hdr := loopHeader(b)
					// can a view write still happen for this entry after taking the edge?
					canWrite := func(sc *ssa.BasicBlock) bool {
						if sc == hdr {
							return false
						}
						stop := func(in ssa.Instruction) bool { return hdr != nil && in.Block() == hdr && instrIndex(in) == 0 }
						hit, _ := findPath(f, atBlock(sc), stop, viewWrite, nil)
						return hit != nil
					}
					w0, w1 := canWrite(b.Succs[0]), canWrite(b.Succs[1])
					if w0 != w1 {
						viol = true
						c.bad("I6", fk+"→remembered-state", bestPos(iff), "while rebuilding the view the index branches on state it keeps between calls (a watermark, a set of applied entries, a counter) and one outcome skips the entry without interpreting it: entries merged below that mark — a concurrent branch, older history — are never seen, or never mark their keys as handled, so the view is no longer a function of the log alone")
						break
					}
				}
			}
			if !viol {
				c.ok("I6", fk+"#whole-order", f.Pos(), "every use of Values() covers the whole total order and nothing remembered between calls decides what is interpreted")
			}
		}
	}
	c.floor("I6", "index methods reading Values()", n, 4)
}

func (c *Ctx) ruleT2() {
	st := c.storeType()
	logI := c.lookupIface(ifaceLog)
	// (1) assignments to the store's oplog field
	nAssign := 0
	if st != nil {
		for _, f := range c.RepoFns {
			if c.isTestFile(f.Pos()) {
				continue
			}
			eachInstr(f, func(in ssa.Instruction) {
				s, ok := in.(*ssa.Store)
				if !ok {
					return
				}
				fa, ok := s.Addr.(*ssa.FieldAddr)
				if !ok {
					return
				}
				fv := fieldVarOf(fa)
				if fv == nil || logI == nil {
					return
				}
				it, ok := fv.Type().Underlying().(*types.Interface)
				if !ok || !types.Identical(it, logI) {
					return
				}
				ot := fa.X.Type()
				if p, ok := ot.Underlying().(*types.Pointer); ok {
					ot = p.Elem()
				}
				if n, ok := ot.(*types.Named); !ok || n.Obj() != st.Obj() {
					return
				}
				if !c.isControlFn(f) {
					nAssign++
				}
				cons := fnKey(f) + "→oplog="
				fresh := false
				if ex, ok := strip(s.Val).(*ssa.Extract); ok && ex.Index == 0 {
					if call, ok := ex.Tuple.(*ssa.Call); ok && calleeFull(call) == logMod+".NewLog" {
						fresh = true
					}
				}
				if fresh {
					c.ok("T2", cons+"NewLog", s.Pos(), "the store's log is replaced only by an empty log built with NewLog")
				} else {
					c.bad("T2", cons+nf(s.Val), s.Pos(), "the store's log is replaced by a log that was not freshly built by NewLog: entries of a fetched or caller-supplied log become the store's log without having gone through Join's access and signature checks")
				}
			})
		}
	}
	c.floor("T2", "assignments to the store's oplog", nAssign, 2)
	// (2) Join direction
	isCtor := func(v ssa.Value) bool {
		if ex, ok := v.(*ssa.Extract); ok {
			v = ex.Tuple
		}
		call, ok := v.(*ssa.Call)
		return ok && logCtors[calleeFull(call)]
	}
	var ctorDerived func(f *ssa.Function) map[ssa.Value]bool
	memo := map[*ssa.Function]map[ssa.Value]bool{}
	ctorDerived = func(f *ssa.Function) map[ssa.Value]bool {
		if m, ok := memo[f]; ok {
			return m
		}
		var seeds []ssa.Value
		eachCall(f, func(call ssa.CallInstruction) {
			if logCtors[calleeFull(call)] && call.Value() != nil {
				seeds = append(seeds, call.Value())
			}
		})
		m := derived(seeds, flowOpts{})
		memo[f] = m
		return m
	}
	for _, j := range c.joinSites() {
		f := j.Parent()
		if c.isTestFile(f.Pos()) {
			continue
		}
		recv := recvOf(j)
		cons := fnKey(f) + "→Join#receiver"
		bad := ""
		switch {
		case ctorDerived(f)[recv] || isCtor(recv):
			bad = "a log built from fetched content"
		default:
			if p, ok := recv.(*ssa.Parameter); ok {
				// a helper: inspect what its callers pass
				idx := -1
				for i, q := range f.Params {
					if q == p {
						idx = i
					}
				}
				for _, g := range c.RepoFns {
					eachCall(g, func(call ssa.CallInstruction) {
						if call.Common().StaticCallee() != f || idx < 0 {
							return
						}
						args := call.Common().Args
						if idx < len(args) && (ctorDerived(g)[args[idx]] || isCtor(args[idx])) {
							bad = "a parameter that " + fnKey(g) + " fills with a log built from fetched content"
						}
					})
				}
			}
		}
		if bad == "" {
			// positive form: the receiver must be the store's log (its accessor or the field itself)
			var seeds []ssa.Value
			eachInstr(f, func(in ssa.Instruction) {
				switch x := in.(type) {
				case *ssa.Call:
					if methodName(x) == "OpLog" && len(argsOf(x)) == 0 {
						seeds = append(seeds, x)
					}
				case *ssa.UnOp:
					if fa, ok := x.X.(*ssa.FieldAddr); ok && x.Op == token.MUL {
						if fv := fieldVarOf(fa); fv != nil && logI != nil {
							if it, ok := fv.Type().Underlying().(*types.Interface); ok && types.Identical(it, logI) && st != nil {
								ot := fa.X.Type()
								if p, ok := ot.Underlying().(*types.Pointer); ok {
									ot = p.Elem()
								}
								if n, ok := ot.(*types.Named); ok && n.Obj() == st.Obj() {
									seeds = append(seeds, x)
								}
							}
						}
					}
				}
			})
			if p, isParam := recv.(*ssa.Parameter); isParam {
				// helper taking the log as parameter: every caller must pass the store's log
				okAll, any := true, false
				idx := -1
				for i, q := range f.Params {
					if q == p {
						idx = i
					}
				}
				for _, g := range c.RepoFns {
					eachCall(g, func(call ssa.CallInstruction) {
						if call.Common().StaticCallee() != f || idx < 0 || idx >= len(call.Common().Args) {
							return
						}
						any = true
						var gs []ssa.Value
						eachCall(g, func(oc ssa.CallInstruction) {
							if methodName(oc) == "OpLog" && len(argsOf(oc)) == 0 && oc.Value() != nil {
								gs = append(gs, oc.Value())
							}
						})
						if !derived(gs, flowOpts{intoClosures: true})[call.Common().Args[idx]] {
							okAll = false
						}
					})
				}
				if !any || !okAll {
					bad = "a log parameter that its callers do not (all) fill with the store's log"
				}
			} else if !derived(seeds, flowOpts{intoClosures: true})[recv] {
				bad = "a log that is not the store's own (" + nf(recv) + ")"
			}
		}
		if bad != "" {
			c.bad("T2", cons, j.Pos(), "Join is called on "+bad+" (with the store's log as argument): Join checks access rights and signatures only for the entries of its ARGUMENT, so the fetched entries are adopted unchecked")
		} else {
			c.ok("T2", cons, j.Pos(), "Join is called on the store's log; the fetched log is the argument whose entries are checked")
		}
	}
}

func (c *Ctx) ruleP4() {
	n := 0
	for _, f := range c.RepoFns {
		if c.isTestFile(f.Pos()) {
			continue
		}
		eachCall(f, func(call ssa.CallInstruction) {
			if !c.isMethodOn(call, "Delete", ifaceDSWrite) {
				return
			}
			a := argsOf(call)
			if len(a) < 2 {
				return
			}
			key, ok := dsKeyOf(a[1])
			if !ok {
				return
			}
			n++
			if topLevel(f).Name() == "Drop" {
				c.ok("P4", fnKey(f)+"→Delete("+key+")", call.Pos(), "cache key removed by Drop")
				return
			}
			c.bad("P4", fnKey(f)+"→Delete("+key+")", call.Pos(), fmt.Sprintf("cache key %q is deleted outside Drop: what the load path and the head exchange read back (heads of merged batches, local head, snapshot pointers) must survive until the database is dropped — a delete racing with the path that writes the key loses acknowledged data at the next restart", key))
		})
	}
	c.Counts["P4:constant-key deletes"] = n
	if n == 0 {
		c.ok("P4", "no-head-key-deletes", token.NoPos, "no constant cache key is ever deleted")
	}
}

func (c *Ctx) ruleB4() {
	n := 0
	for _, s := range c.goSites() {
		hdr := loopHeader(s.g.Block())
		if hdr == nil {
			continue
		}
		if !c.isControlFn(s.fn) {
			n++
		}
		cons := fmt.Sprintf("%s→go@loop#capture", fnKey(s.fn))
		mc, ok := s.g.Call.Value.(*ssa.MakeClosure)
		if !ok {
			// a plain call: arguments are evaluated now, but a POINTER to a variable that lives
			// across iterations and is reassigned by the loop is shared just like a capture
			shared := ""
			for _, a := range s.g.Call.Args {
				al, ok := a.(*ssa.Alloc)
				if !ok || sameLoop(hdr, al.Block()) {
					continue
				}
				for _, r := range *al.Referrers() {
					if st, ok := r.(*ssa.Store); ok && st.Addr == ssa.Value(al) && sameLoop(hdr, st.Block()) {
						shared = al.Comment
					}
				}
			}
			if shared != "" {
				c.bad("B4", cons, s.g.Pos(), fmt.Sprintf("the goroutine started in this loop is handed a pointer to variable %q, which lives across iterations and is assigned again by the loop: a handler still running for one event can observe (and act on) the next event's value — e.g. announce another database's heads under this database's address", shared))
			} else {
				c.ok("B4", cons, s.g.Pos(), "the goroutine is a function call whose arguments are evaluated in the iteration that starts it")
			}
			continue
		}
		bad := ""
		body, _ := mc.Fn.(*ssa.Function)
		for i, b := range mc.Bindings {
			al, ok := b.(*ssa.Alloc)
			if !ok {
				continue
			}
			// the cell lives across iterations: allocated outside the loop
			if sameLoop(hdr, al.Block()) {
				continue
			}
			// and the loop writes it
			written := false
			for _, r := range *al.Referrers() {
				if st, ok := r.(*ssa.Store); ok && st.Addr == ssa.Value(al) && sameLoop(hdr, st.Block()) {
					written = true
				}
			}
			if !written {
				continue
			}
			// and the goroutine reads it
			read := false
			if body != nil && i < len(body.FreeVars) {
				if refs := body.FreeVars[i].Referrers(); refs != nil && len(*refs) > 0 {
					read = true
				}
			}
			if read {
				bad = al.Comment
			}
		}
		if bad != "" {
			c.bad("B4", cons, s.g.Pos(), fmt.Sprintf("the goroutine started in this loop captures variable %q by reference and the loop assigns it again on the next iteration: a handler still running for one event can observe (and act on) the next event's value — e.g. announce another database's heads under this database's address", bad))
		} else {
			c.ok("B4", cons, s.g.Pos(), "goroutines started in the loop only capture per-iteration variables or variables the loop does not reassign")
		}
	}
	c.floor("B4", "goroutines started inside loops", n, 3)
}

func (c *Ctx) ruleB5() {
	n := 0
	for _, f := range c.fnsInPkg("baseorbitdb") {
		if c.isTestFile(f.Pos()) || f.Parent() != nil {
			continue
		}
		var ctorCall ssa.CallInstruction
		eachCall(f, func(call ssa.CallInstruction) {
			cc := call.Common()
			if !cc.IsInvoke() && cc.StaticCallee() == nil && strings.HasSuffix(typeStr(cc.Value.Type()), "iface.StoreConstructor") {
				ctorCall = call
			}
		})
		if ctorCall == nil {
			continue
		}
		n++
		fk := fnKey(f)
		// the address parameter of this function
		var addrParam *ssa.Parameter
		for _, p := range f.Params {
			if strings.HasSuffix(typeStr(p.Type()), "address.Address") {
				addrParam = p
			}
		}
		// cache loads for that address
		var loads []ssa.Value
		eachCall(f, func(call ssa.CallInstruction) {
			g := call.Common().StaticCallee()
			isLoad := methodName(call) == "Load" && recvOf(call) != nil && strings.HasSuffix(typeStr(recvOf(call).Type()), "cache.Interface")
			if g != nil && g.Blocks != nil && g.Pkg == f.Pkg {
				eachCall(g, func(gc ssa.CallInstruction) {
					if methodName(gc) == "Load" && recvOf(gc) != nil && strings.HasSuffix(typeStr(recvOf(gc).Type()), "cache.Interface") {
						isLoad = true
					}
				})
			}
			if !isLoad || call.Value() == nil {
				return
			}
			for _, a := range call.Common().Args {
				if addrParam != nil && isParamValue(a, addrParam) {
					loads = append(loads, call.Value())
				}
			}
		})
		cons := fk + "→StoreConstructor#cache"
		if len(loads) == 0 {
			c.bad("B5", cons, ctorCall.Pos(), "the store is not given a cache loaded for its own address")
			continue
		}
		d := derived(loads, flowOpts{})
		// the value reaching NewStoreOptions.Cache must be that cache on every path: a store into the
		// options' Cache field of a derived value must be passed on every path to the constructor call,
		// or the literal's Cache field is directly derived
		var opts ssa.Value
		for _, a := range ctorCall.Common().Args {
			if p, ok := a.Type().(*types.Pointer); ok && strings.HasSuffix(typeStr(p.Elem()), "iface.NewStoreOptions") {
				opts = a
			}
		}
		cv := c.litField(opts, "Cache")
		if cv != nil && d[cv] {
			if _, isLoadOfField := cv.(*ssa.UnOp); !isLoadOfField {
				c.ok("B5", cons, ctorCall.Pos(), "the store receives the cache loaded for its own address")
				continue
			}
		}
		setCache := func(in ssa.Instruction) bool {
			if s, ok := in.(*ssa.Store); ok {
				if !d[s.Val] {
					return false
				}
				fa, ok := s.Addr.(*ssa.FieldAddr)
				return ok && fieldName(fa.X.Type(), fa.Field) == "Cache"
			}
			// a same-package helper given the cache that puts it into a Cache field on every path
			call, ok := in.(*ssa.Call)
			if !ok {
				return false
			}
			h := call.Call.StaticCallee()
			if h == nil || h.Blocks == nil || h.Pkg != f.Pkg {
				return false
			}
			for i, a := range call.Call.Args {
				if !d[a] || i >= len(h.Params) {
					continue
				}
				dp := derived([]ssa.Value{h.Params[i]}, flowOpts{})
				sets := func(x ssa.Instruction) bool {
					st, ok := x.(*ssa.Store)
					if !ok || !dp[st.Val] {
						return false
					}
					fa, ok := st.Addr.(*ssa.FieldAddr)
					return ok && fieldName(fa.X.Type(), fa.Field) == "Cache"
				}
				has := false
				eachInstr(h, func(x ssa.Instruction) {
					if sets(x) {
						has = true
					}
				})
				anyRet := func(x ssa.Instruction) bool { _, ok := x.(*ssa.Return); return ok }
				if hit, _ := findPath(h, entry, sets, anyRet, nil); has && hit == nil {
					return true
				}
			}
			return false
		}
		target := func(in ssa.Instruction) bool { return in == ssa.Instruction(ctorCall) }
		if hit, tr := findPath(f, entry, setCache, target, nil); hit != nil {
			c.bad("B5", cons, ctorCall.Pos(), "on some path the store is created with a cache that is not the one loaded for its own address (a value left in the caller's options by an earlier open): two databases then share one datastore and overwrite each other's _localHeads/_remoteHeads/snapshot keys", c.trailStr(tr)...)
		} else {
			c.ok("B5", cons, ctorCall.Pos(), "on every path the store receives the cache loaded for its own address")
		}
	}
	c.floor("B5", "store constructor invocations", n, 1)
}

// isParamValue: v is parameter p, directly or reloaded from the cell it was spilled into.
func isParamValue(v ssa.Value, p *ssa.Parameter) bool {
	if v == ssa.Value(p) {
		return true
	}
	if u, ok := v.(*ssa.UnOp); ok && u.Op == token.MUL {
		if a, ok := u.X.(*ssa.Alloc); ok {
			return uniqueStore(a) == ssa.Value(p)
		}
	}
	return false
}
