package main

import (
	"fmt"
	"go/token"
	"go/types"
	"sort"
	"strings"

	"golang.org/x/tools/go/ssa"
)

// indexImpls: every named repo type implementing iface.StoreIndex, with its methods.
func (c *Ctx) indexImpls() []*types.Named {
	out := c.implementers(ifaceIndex)
	sort.Slice(out, func(i, j int) bool { return out[i].String() < out[j].String() })
	return out
}

func relType(n *types.Named) string {
	return strings.TrimPrefix(n.Obj().Pkg().Path(), repoMod+"/") + "." + n.Obj().Name()
}

// methodsOf returns the declared (non-promoted) methods with bodies of a named type, with closures.
func (c *Ctx) methodsOf(n *types.Named) []*ssa.Function {
	var out []*ssa.Function
	for _, f := range c.RepoFns {
		if f.Parent() != nil {
			continue
		}
		if rn := recvNamed(f); rn != nil && rn.Obj() == n.Obj() {
			out = append(out, withClosures(f)...)
		}
	}
	return out
}

var logOrderSensitive = map[string]string{
	"GetEntries": "arrival (insertion) order, which differs between replicas",
	"Heads":      "only the current heads",
	"RawHeads":   "only the current heads, unsorted",
	"Iterator":   "a traversal window, not the total order",
	"Get":        "single entries by hash",
}

// rulesIndex: I1 (view source is the total order), I2 (LWW scan coherent), I3 (opcode tables agree),
// I5 (listings handed to in-place mutation are private).
func rulesIndex(c *Ctx) {
	impls := c.indexImpls()
	nReal := 0
	for _, n := range impls {
		tn := relType(n)
		ctl := strings.Contains(tn, "verifCtl")
		if !ctl {
			nReal++
		}
		ms := c.methodsOf(n)
		nValues := 0
		for _, f := range ms {
			fk := fnKey(f)
			// I1(a): order-sensitive or partial log accessors
			eachCall(f, func(call ssa.CallInstruction) {
				for m, why := range logOrderSensitive {
					if c.isLogCall(call, m) {
						c.bad("I1", fk+"→log."+m, call.Pos(),
							fmt.Sprintf("index reads the log through %s (%s); a materialised view computed from it depends on delivery order", m, why))
					}
				}
				if c.isLogCall(call, "Values") {
					nValues++
					c.ok("I1", fk+"→log.Values", call.Pos(), "index reads the log's total order")
				}
			})
			// I1(b): every parsed entry derives from Values()
			var seeds []ssa.Value
			eachCall(f, func(call ssa.CallInstruction) {
				if c.isLogCall(call, "Values") {
					seeds = append(seeds, call.Value())
				}
			})
			d := derived(seeds, flowOpts{throughCalls: true})
			i := 0
			eachCall(f, func(call ssa.CallInstruction) {
				ent := c.parseCallEntry(call)
				if ent == nil {
					return
				}
				cons := fmt.Sprintf("%s→ParseOperation#%d", fk, i)
				i++
				if d[ent] {
					c.ok("I1", cons, call.Pos(), "the parsed entry is taken from Values()")
				} else if c.entriesFromValuesAtCallers(f, ent) {
					c.ok("I1", cons, call.Pos(), "the parsed entry is taken from a list that every caller of this helper draws from Values()")
				} else {
					c.bad("I1", cons, call.Pos(), "an operation is parsed from an entry that does not come from the log's total order (Values)")
				}
			})
			// I1(c): the incremental `entries` parameter of UpdateIndex must not feed the view
			if f.Name() == "UpdateIndex" && len(f.Params) == 3 {
				p := f.Params[2]
				if refs := p.Referrers(); refs != nil && len(*refs) > 0 {
					c.bad("I1", fk+"#entries-param", f.Pos(), "UpdateIndex uses its incremental entries argument: the view would depend on batching and arrival order")
				} else {
					c.ok("I1", fk+"#entries-param", f.Pos(), "the incremental entries argument is ignored")
				}
			}
		}
		// I2 on keyed indexes
		for _, f := range ms {
			if f.Name() == "UpdateIndex" && f.Parent() == nil {
				c.ruleI2(f)
			}
		}
	}
	c.floor("I1", "index implementations", nReal, 4)

	c.ruleI3()
	c.ruleI5()
}

// entriesFromValuesAtCallers: ent derives from a parameter of f (a fold step split from the
// index update) and every static caller — a method of the same index — fills that parameter
// from the log's Values().
func (c *Ctx) entriesFromValuesAtCallers(f *ssa.Function, ent ssa.Value) bool {
	for idx, p := range f.Params {
		if !derived([]ssa.Value{p}, flowOpts{throughCalls: true})[ent] {
			continue
		}
		// the incremental argument of UpdateIndex itself is not such a parameter
		if f.Name() == "UpdateIndex" {
			return false
		}
		sites, okAll := 0, true
		for _, g := range c.RepoFns {
			if c.isTestFile(g.Pos()) {
				continue
			}
			eachCall(g, func(cs ssa.CallInstruction) {
				if cs.Common().StaticCallee() != f || idx >= len(cs.Common().Args) {
					return
				}
				sites++
				var seeds []ssa.Value
				eachCall(g, func(vc ssa.CallInstruction) {
					if c.isLogCall(vc, "Values") && vc.Value() != nil {
						seeds = append(seeds, vc.Value())
					}
					// or a reader helper that returns Values()
					if h := vc.Common().StaticCallee(); h != nil && h.Blocks != nil && h.Pkg == g.Pkg && vc.Value() != nil {
						if c.reachesStatic(h, func(x ssa.CallInstruction) bool { return c.isLogCall(x, "Values") }, 0) && !c.reachesStatic(h, func(x ssa.CallInstruction) bool {
							for m := range logOrderSensitive {
								if c.isLogCall(x, m) {
									return true
								}
							}
							return false
						}, 0) {
							seeds = append(seeds, vc.Value())
						}
					}
				})
				if !derived(seeds, flowOpts{throughCalls: true})[cs.Common().Args[idx]] {
					okAll = false
				}
			})
		}
		return sites > 0 && okAll
	}
	return false
}

// parseCallEntry: the call decodes an operation from a log entry (its first result is the
// operation package's Operation interface and one argument is an entry); returns that entry.
func (c *Ctx) parseCallEntry(call ssa.CallInstruction) ssa.Value {
	if calleeFull(call) == repoMod+"/stores/operation.ParseOperation" && len(call.Common().Args) == 1 {
		return call.Common().Args[0]
	}
	res := call.Common().Signature().Results()
	if res.Len() == 0 || !strings.HasSuffix(typeStr(res.At(0).Type()), "stores/operation.Operation") {
		return nil
	}
	it := c.lookupIface(ifaceEntry)
	if it == nil {
		return nil
	}
	for _, a := range argsOf(call) {
		if types.Implements(a.Type(), it) {
			return a
		}
	}
	return nil
}

// ---------------------------------------------------------------------------
// I2

// inductionDir classifies a loop-carried integer: +1 increasing, -1 decreasing, 0 unknown.
func inductionDir(phi *ssa.Phi) int {
	dir := 0
	for _, e := range phi.Edges {
		if bo, ok := e.(*ssa.BinOp); ok {
			if bo.X == ssa.Value(phi) {
				if k, ok := constInt(bo.Y); ok {
					switch {
					case bo.Op == token.ADD && k > 0, bo.Op == token.SUB && k < 0:
						dir = 1
					case bo.Op == token.SUB && k > 0, bo.Op == token.ADD && k < 0:
						dir = -1
					}
				}
			}
		}
	}
	return dir
}

// affine returns the coefficient of loop induction variables in v (sum over phis, each
// multiplied by its direction), ok=false when the expression is not affine in them.
func affine(v ssa.Value, depth int) (coef int, ok bool) {
	if depth > 8 {
		return 0, false
	}
	switch x := v.(type) {
	case *ssa.Const:
		return 0, true
	case *ssa.Phi:
		if d := inductionDir(x); d != 0 {
			return d, true
		}
		return 0, false
	case *ssa.BinOp:
		a, ok1 := affine(x.X, depth+1)
		b, ok2 := affine(x.Y, depth+1)
		if !ok1 || !ok2 {
			return 0, false
		}
		switch x.Op {
		case token.ADD:
			return a + b, true
		case token.SUB:
			return a - b, true
		}
		return 0, false
	case *ssa.Call:
		// len(x) of a loop-invariant value
		if b, ok := x.Call.Value.(*ssa.Builtin); ok && b.Name() == "len" {
			return 0, true
		}
		return 0, false
	case *ssa.Convert:
		return affine(x.X, depth+1)
	case *ssa.Parameter, *ssa.FreeVar:
		return 0, true
	case *ssa.UnOp:
		if x.Op == token.MUL {
			return 0, true // a loaded local/field: treated as loop-invariant
		}
	case *ssa.Extract:
		return 0, true
	}
	return 0, false
}

func (c *Ctx) ruleI2(f *ssa.Function) {
	fk := fnKey(f)
	// writes to a map held in a field of the receiver
	type write struct {
		in  ssa.Instruction
		key ssa.Value
		op  string
	}
	isIndexMap := func(m ssa.Value) bool {
		u, ok := m.(*ssa.UnOp)
		if !ok || u.Op != token.MUL {
			return false
		}
		fa, ok := u.X.(*ssa.FieldAddr)
		return ok && isRecv(f, fa.X)
	}
	var writes []write
	eachInstr(f, func(in ssa.Instruction) {
		switch x := in.(type) {
		case *ssa.MapUpdate:
			if isIndexMap(x.Map) {
				// a map[K]struct{} held by the receiver is a remembered set, not the view (see I6)
				if st, ok := x.Value.Type().Underlying().(*types.Struct); ok && st.NumFields() == 0 {
					return
				}
				writes = append(writes, write{x, x.Key, "store"})
			}
		case *ssa.Call:
			if b, ok := x.Call.Value.(*ssa.Builtin); ok && b.Name() == "delete" && isIndexMap(x.Call.Args[0]) {
				writes = append(writes, write{x, x.Call.Args[1], "delete"})
			}
		}
	})
	if len(writes) == 0 {
		return // not a keyed index
	}
	// scan direction: index expression of the element handed to ParseOperation
	dir, dirKnown := 0, false
	var scanPos token.Pos
	eachCall(f, func(call ssa.CallInstruction) {
		a := c.parseCallEntry(call)
		if a == nil {
			return
		}
		scanPos = call.Pos()
		if u, ok := a.(*ssa.UnOp); ok && u.Op == token.MUL {
			if ia, ok := u.X.(*ssa.IndexAddr); ok {
				if k, ok := affine(ia.Index, 0); ok && k != 0 {
					dirKnown = true
					if k > 0 {
						dir = 1
					} else {
						dir = -1
					}
				}
			}
		}
	})
	if !dirKnown {
		c.undecided("I2", fk+"#scan-direction", scanPos, "cannot classify the scan over the log as ascending or descending (index expression not affine in the loop variable)")
		return
	}
	dname := map[int]string{1: "ascending (oldest first)", -1: "descending (newest first)"}[dir]
	for i, w := range writes {
		cons := fmt.Sprintf("%s→index.%s#%d", fk, w.op, i)
		g := findSeenGuard(w.in.Block())
		switch {
		case g == nil && dir == 1:
			c.ok("I2", cons, w.in.Pos(), "ascending scan with unconditional writes: the last operation in the total order wins")
		case g == nil && dir == -1:
			c.bad("I2", cons, w.in.Pos(), "descending scan with an unconditional write: the OLDEST operation on a key overrides newer ones")
		case g != nil && dir == 1:
			c.bad("I2", cons, w.in.Pos(), "ascending scan with a first-seen guard: the OLDEST operation on a key wins, later updates are ignored")
		default:
			if !g.firstSeenBranch {
				c.bad("I2", cons, w.in.Pos(), "the write happens only when the key was ALREADY seen in the "+dname+" scan")
				continue
			}
			kt, kw := nf(g.testKey), nf(w.key)
			if kt != kw {
				c.bad("I2", cons, w.in.Pos(), fmt.Sprintf("first-seen set is tested with key %s but the index is written at key %s", kt, kw))
				continue
			}
			// every mark of the set in the guarded region uses the same key; and there is one
			marks := 0
			badMark := ""
			var badPos token.Pos
			eachInstr(f, func(in ssa.Instruction) {
				mu, ok := in.(*ssa.MapUpdate)
				if !ok || mu.Map != g.set {
					return
				}
				if !dominates(g.region, mu.Block()) {
					return
				}
				if km := nf(mu.Key); km != kt {
					badMark, badPos = km, mu.Pos()
				} else {
					marks++
				}
			})
			switch {
			case badMark != "":
				c.bad("I2", cons, badPos, fmt.Sprintf("first-seen set is tested with key %s but marked with key %s: a later (older) operation on the tested key is not recognised as already handled and overrides the newer one", kt, badMark))
			case marks == 0:
				c.bad("I2", cons, w.in.Pos(), fmt.Sprintf("first-seen set is tested with key %s but never marked with it on this branch", kt))
			default:
				c.ok("I2", cons, w.in.Pos(), "descending scan; tested, marked and written key agree ("+kt+")")
			}
		}
	}
}

type seenGuard struct {
	set             ssa.Value
	testKey         ssa.Value
	region          *ssa.BasicBlock // successor taken when the key was not seen before
	firstSeenBranch bool
}

// findSeenGuard finds the innermost comma-ok lookup on a local map[K]struct{} whose
// outcome decides whether block b runs.
func findSeenGuard(b *ssa.BasicBlock) *seenGuard {
	var best *seenGuard
	var bestBlk *ssa.BasicBlock
	for _, blk := range b.Parent().Blocks {
		if len(blk.Instrs) == 0 || !dominates(blk, b) || blk == b {
			continue
		}
		iff, ok := blk.Instrs[len(blk.Instrs)-1].(*ssa.If)
		if !ok {
			continue
		}
		cond := iff.Cond
		neg := false
		if u, ok := cond.(*ssa.UnOp); ok && u.Op == token.NOT {
			cond, neg = u.X, true
		}
		ex, ok := cond.(*ssa.Extract)
		if !ok || ex.Index != 1 {
			continue
		}
		lk, ok := ex.Tuple.(*ssa.Lookup)
		if !ok || !lk.CommaOk {
			continue
		}
		mt, ok := lk.X.Type().Underlying().(*types.Map)
		if !ok {
			continue
		}
		if st, ok := mt.Elem().Underlying().(*types.Struct); !ok || st.NumFields() != 0 {
			if bt, ok := mt.Elem().Underlying().(*types.Basic); !ok || bt.Kind() != types.Bool {
				continue
			}
		}
		if _, isLocal := lk.X.(*ssa.MakeMap); !isLocal {
			continue
		}
		seenSucc, freshSucc := blk.Succs[0], blk.Succs[1]
		if neg {
			seenSucc, freshSucc = freshSucc, seenSucc
		}
		var g *seenGuard
		switch {
		case branchCovers(freshSucc, b) && !branchCovers(seenSucc, b):
			g = &seenGuard{lk.X, lk.Index, freshSucc, true}
		case branchCovers(seenSucc, b) && !branchCovers(freshSucc, b):
			g = &seenGuard{lk.X, lk.Index, seenSucc, false}
		default:
			continue
		}
		if best == nil || dominates(bestBlk, blk) {
			best, bestBlk = g, blk
		}
	}
	return best
}

// isOpConstructor: a function of the operation package that builds an operation from
// (key, opcode, ...): its second parameter is the opcode string, its result an operation.
func isOpConstructor(call ssa.CallInstruction) bool {
	g := call.Common().StaticCallee()
	if g == nil || g.Pkg == nil || g.Pkg.Pkg.Path() != repoMod+"/stores/operation" || g.Signature.Recv() != nil {
		return false
	}
	ps := g.Signature.Params()
	if ps.Len() < 2 || len(call.Common().Args) < 2 || g.Signature.Results().Len() == 0 {
		return false
	}
	if b, ok := ps.At(1).Type().Underlying().(*types.Basic); !ok || b.Kind() != types.String {
		return false
	}
	return strings.Contains(typeStr(g.Signature.Results().At(0).Type()), "operation")
}

// ---------------------------------------------------------------------------
// I3

func (c *Ctx) ruleI3() {
	type pk struct {
		written  map[string]token.Pos
		deleteOp map[string]bool
		compared map[string]token.Pos
		idxFns   []*ssa.Function
	}
	pkgs := map[string]*pk{}
	get := func(p string) *pk {
		if pkgs[p] == nil {
			pkgs[p] = &pk{map[string]token.Pos{}, map[string]bool{}, map[string]token.Pos{}, nil}
		}
		return pkgs[p]
	}
	idxTypes := map[*types.TypeName]bool{}
	for _, n := range c.indexImpls() {
		idxTypes[n.Obj()] = true
	}
	for _, f := range c.RepoFns {
		if c.isControlFn(f) {
			continue
		}
		pp := strings.TrimPrefix(f.Pkg.Pkg.Path(), repoMod+"/")
		eachCall(f, func(call ssa.CallInstruction) {
			if isOpConstructor(call) {
				if s, ok := constString(call.Common().Args[1]); ok {
					get(pp).written[s] = call.Pos()
					if topLevel(f).Name() == "Delete" {
						get(pp).deleteOp[s] = true
					}
				} else if _, isParam := call.Common().Args[1].(*ssa.Parameter); isParam && f.Pkg.Pkg.Path() == repoMod+"/stores/operation" {
					// one constructor delegating to another: the opcode is its caller's
				} else {
					c.undecided("I3", fnKey(f)+"→NewOperation#opcode", call.Pos(), "opcode is not a constant")
				}
			}
		})
	}
	for _, f := range c.RepoFns {
		if c.isControlFn(f) {
			continue
		}
		pp := strings.TrimPrefix(f.Pkg.Pkg.Path(), repoMod+"/")
		if rn := recvNamed(f); rn != nil && idxTypes[rn.Obj()] {
			get(pp).idxFns = append(get(pp).idxFns, f)
			eachInstr(f, func(in ssa.Instruction) {
				bo, ok := in.(*ssa.BinOp)
				if !ok || (bo.Op != token.EQL && bo.Op != token.NEQ) {
					return
				}
				for _, pr := range [][2]ssa.Value{{bo.X, bo.Y}, {bo.Y, bo.X}} {
					if s, ok := constString(pr[1]); ok {
						if call, ok := pr[0].(*ssa.Call); ok && methodName(call) == "GetOperation" {
							get(pp).compared[s] = bo.Pos()
							// effect reachability
							c.i3Effect(f, bo, s, get(pp).deleteOp[s], pp)
						}
					}
				}
			})
		}
	}
	nPk := 0
	var names []string
	for p := range pkgs {
		names = append(names, p)
	}
	sort.Strings(names)
	for _, p := range names {
		k := pkgs[p]
		if len(k.written) == 0 {
			continue
		}
		nPk++
		if len(k.compared) == 0 {
			c.ok("I3", p+"#opcodes", token.NoPos, fmt.Sprintf("store writes %v; its index does not interpret opcodes (vacuous)", keys(k.written)))
			continue
		}
		for op, pos := range k.written {
			if _, ok := k.compared[op]; !ok {
				c.bad("I3", p+"#opcode:"+op, pos, fmt.Sprintf("store writes opcode %q but the package's index never handles it: such operations are silently ignored by the view", op))
			} else {
				c.ok("I3", p+"#opcode:"+op, pos, "opcode written by the store is handled by its index")
			}
		}
		for op, pos := range k.compared {
			if _, ok := k.written[op]; !ok {
				c.bad("I3", p+"#opcode:"+op, pos, fmt.Sprintf("index handles opcode %q that the store never writes (writer/reader tables disagree)", op))
			}
		}
	}
	c.floor("I3", "store packages writing operations", nPk, 3)
}

func keys(m map[string]token.Pos) []string {
	var out []string
	for k := range m {
		out = append(out, k)
	}
	sort.Strings(out)
	return out
}

// i3Effect: the branch taken when GetOperation()==op reaches a delete (for the delete opcode)
// or a store (otherwise) on a receiver map.
func (c *Ctx) i3Effect(f *ssa.Function, cmp *ssa.BinOp, op string, isDelete bool, pp string) {
	refs := cmp.Referrers()
	if refs == nil {
		return
	}
	for _, r := range *refs {
		iff, ok := r.(*ssa.If)
		if !ok {
			continue
		}
		branch := iff.Block().Succs[0]
		if cmp.Op == token.NEQ {
			branch = iff.Block().Succs[1]
		}
		wantDelete := isDelete
		found := false
		other := false
		for _, b := range f.Blocks {
			if !branchCovers(branch, b) {
				continue
			}
			// stop at the next opcode comparison's own region: only blocks reached before another test
			for _, in := range b.Instrs {
				switch x := in.(type) {
				case *ssa.MapUpdate:
					if isRecvMap(f, x.Map) {
						if !wantDelete {
							found = true
						} else {
							other = true
						}
					}
				case *ssa.Call:
					if bi, ok := x.Call.Value.(*ssa.Builtin); ok && bi.Name() == "delete" && isRecvMap(f, x.Call.Args[0]) {
						if wantDelete {
							found = true
						} else {
							other = true
						}
					}
					// the effect may sit in a small method of the same index (i.set(k, v) / i.unset(k))
					if g := x.Call.StaticCallee(); g != nil && g.Blocks != nil && g.Signature.Recv() != nil && len(x.Call.Args) > 0 && isRecv(f, x.Call.Args[0]) {
						st, del := recvMapEffects(g)
						if st && !del {
							if !wantDelete {
								found = true
							} else {
								other = true
							}
						}
						if del && !st {
							if wantDelete {
								found = true
							} else {
								other = true
							}
						}
					}
				}
			}
		}
		cons := fmt.Sprintf("%s#effect:%s", pp, op)
		want := map[bool]string{true: "delete the key from", false: "store into"}[wantDelete]
		if found && !(other && false) {
			c.ok("I3", cons, cmp.Pos(), fmt.Sprintf("branch for %q reaches a %s the index map", op, map[bool]string{true: "delete on", false: "store into"}[wantDelete]))
		} else {
			c.bad("I3", cons, cmp.Pos(), fmt.Sprintf("branch for opcode %q does not %s the index map", op, want))
		}
	}
}

// recvMapEffects: the method stores into / deletes from a map field of its receiver.
func recvMapEffects(g *ssa.Function) (stores, deletes bool) {
	eachInstr(g, func(in ssa.Instruction) {
		switch x := in.(type) {
		case *ssa.MapUpdate:
			if isRecvMap(g, x.Map) {
				stores = true
			}
		case *ssa.Call:
			if bi, ok := x.Call.Value.(*ssa.Builtin); ok && bi.Name() == "delete" && len(x.Call.Args) == 2 && isRecvMap(g, x.Call.Args[0]) {
				deletes = true
			}
		}
	})
	return
}

func isRecvMap(f *ssa.Function, m ssa.Value) bool {
	u, ok := m.(*ssa.UnOp)
	if !ok || u.Op != token.MUL {
		return false
	}
	fa, ok := u.X.(*ssa.FieldAddr)
	if !ok {
		return false
	}
	// the map may sit in a struct nested in the receiver (c.subs.byPeer)
	base := fa.X
	for {
		inner, ok := base.(*ssa.FieldAddr)
		if !ok {
			break
		}
		base = inner.X
	}
	return isRecv(f, base)
}

// isRecv: v is the receiver parameter of f, directly or reloaded from the cell it was
// spilled into (go/ssa spills parameters captured by closures).
func isRecv(f *ssa.Function, v ssa.Value) bool {
	if len(f.Params) == 0 || f.Signature.Recv() == nil {
		return false
	}
	if v == ssa.Value(f.Params[0]) {
		return true
	}
	if u, ok := v.(*ssa.UnOp); ok && u.Op == token.MUL {
		if a, ok := u.X.(*ssa.Alloc); ok {
			return uniqueStore(a) == ssa.Value(f.Params[0])
		}
	}
	return false
}

// ---------------------------------------------------------------------------
// I5

// installedIndexTypes returns, per repo package, the concrete index types its store
// constructor installs through NewStoreOptions.Index.
func (c *Ctx) installedIndexTypes() map[string][]*types.Named {
	out := map[string][]*types.Named{}
	for _, f := range c.RepoFns {
		eachInstr(f, func(in ssa.Instruction) {
			st, ok := in.(*ssa.Store)
			if !ok {
				return
			}
			fa, ok := st.Addr.(*ssa.FieldAddr)
			if !ok || fieldName(fa.X.Type(), fa.Field) != "Index" {
				return
			}
			if !strings.HasSuffix(typeStr(fa.X.Type()), "iface.NewStoreOptions") {
				return
			}
			var ctor *ssa.Function
			switch v := strip(st.Val).(type) {
			case *ssa.Function:
				ctor = v
			case *ssa.MakeClosure:
				ctor, _ = v.Fn.(*ssa.Function)
			}
			if ctor == nil {
				return
			}
			for _, t := range c.returnedConcrete(ctor, 0) {
				out[f.Pkg.Pkg.Path()] = append(out[f.Pkg.Pkg.Path()], t)
			}
		})
	}
	return out
}

// returnedConcrete: named types boxed into the interface results of f (following one level of calls).
func (c *Ctx) returnedConcrete(f *ssa.Function, depth int) []*types.Named {
	var out []*types.Named
	if f == nil || f.Blocks == nil || depth > 3 {
		return nil
	}
	eachInstr(f, func(in ssa.Instruction) {
		r, ok := in.(*ssa.Return)
		if !ok {
			return
		}
		var vals []ssa.Value
		for _, rv := range r.Results {
			vals = append(vals, resolveSpill(rv)...)
		}
		for _, v := range vals {
			switch x := v.(type) {
			case *ssa.MakeInterface:
				t := x.X.Type()
				if p, ok := t.(*types.Pointer); ok {
					t = p.Elem()
				}
				if n, ok := t.(*types.Named); ok {
					out = append(out, n)
				}
			case *ssa.Call:
				if cal := x.Call.StaticCallee(); cal != nil {
					out = append(out, c.returnedConcrete(cal, depth+1)...)
				}
			}
		}
	})
	return out
}

// freshResult: every value returned by f is freshly allocated (a call result of a
// constructor-like callee, make/append-to-nil) or nil; field loads are shared storage.
func (c *Ctx) sharedReturns(f *ssa.Function) (shared []ssa.Instruction) {
	eachInstr(f, func(in ssa.Instruction) {
		r, ok := in.(*ssa.Return)
		if !ok {
			return
		}
		for _, rv := range r.Results {
			for _, v := range resolveSpill(rv) {
				v = strip(v)
				if isNilConst(v) {
					continue
				}
				if !isSliceLike(v.Type()) {
					continue
				}
				if !freshValue(v, 0) {
					shared = append(shared, r)
				}
			}
		}
	})
	return
}

func isSliceLike(t types.Type) bool {
	_, ok := t.Underlying().(*types.Slice)
	return ok
}

func freshValue(v ssa.Value, depth int) bool {
	if depth > 5 {
		return false
	}
	switch x := v.(type) {
	case *ssa.Const:
		return true
	case *ssa.MakeSlice:
		return true
	case *ssa.Call:
		if b, ok := x.Call.Value.(*ssa.Builtin); ok {
			if b.Name() == "append" {
				return isNilConst(x.Call.Args[0]) || freshValue(x.Call.Args[0], depth+1)
			}
			return false
		}
		// a method that builds its result: OrderedEntries.Slice()/Keys() of the dependency allocate;
		// any other call is treated as fresh only if it is a dependency/stdlib call returning a new slice.
		name := methodName(x)
		if name == "Slice" || name == "Keys" {
			return true
		}
		if f := x.Call.StaticCallee(); f != nil && f.Blocks != nil {
			for _, b := range f.Blocks {
				for _, in := range b.Instrs {
					if r, ok := in.(*ssa.Return); ok {
						for _, rv0 := range r.Results {
							for _, rv := range resolveSpill(rv0) {
								if isSliceLike(rv.Type()) && !isNilConst(rv) && !freshValue(strip(rv), depth+1) {
									return false
								}
							}
						}
					}
				}
			}
			return true
		}
		return false
	case *ssa.Phi:
		for _, e := range x.Edges {
			if !freshValue(e, depth+1) {
				return false
			}
		}
		return true
	case *ssa.Extract:
		return freshValue(x.Tuple, depth+1)
	case *ssa.Slice:
		return freshValue(x.X, depth+1)
	}
	return false
}

// listingOrigin: the call's result is (derived from) a listing handed out by an index — the
// interface Get, a method of an index implementation called directly, or a repo helper
// returning one of those. providers are the direct index methods involved (other than the
// interface Get, which is resolved through the installed types).
func (c *Ctx) listingOrigin(call ssa.CallInstruction, idxGet func(ssa.CallInstruction) bool, depth int) ([]*ssa.Function, bool) {
	if idxGet(call) {
		return nil, true
	}
	g := call.Common().StaticCallee()
	if g == nil || g.Blocks == nil || g.Pkg == nil || !inRepo(g.Pkg.Pkg) || depth > 2 {
		return nil, false
	}
	returnsSlice := false
	res := g.Signature.Results()
	for i := 0; i < res.Len(); i++ {
		switch res.At(i).Type().Underlying().(type) {
		case *types.Slice, *types.Interface:
			returnsSlice = true
		}
	}
	if !returnsSlice {
		return nil, false
	}
	if rn := recvNamed(g); rn != nil {
		for _, n := range c.indexImpls() {
			if n.Obj() == rn.Obj() {
				return []*ssa.Function{g}, true
			}
		}
	}
	var provs []*ssa.Function
	found := false
	eachCall(g, func(inner ssa.CallInstruction) {
		if inner.Value() == nil {
			return
		}
		ps, ok := c.listingOrigin(inner, idxGet, depth+1)
		if !ok {
			return
		}
		d := derived([]ssa.Value{inner.Value()}, flowOpts{})
		flows := false
		eachInstr(g, func(in ssa.Instruction) {
			if r, ok := in.(*ssa.Return); ok {
				for _, v := range r.Results {
					for _, rv := range resolveSpill(v) {
						if d[rv] {
							flows = true
						}
					}
					if d[v] {
						flows = true
					}
				}
			}
		})
		if flows {
			found = true
			provs = append(provs, ps...)
		}
	})
	return provs, found
}

func (c *Ctx) ruleI5() {
	installed := c.installedIndexTypes()
	idxGet := func(call ssa.CallInstruction) bool { return c.isMethodOn(call, "Get", ifaceIndex) }
	n := 0
	for _, f := range c.RepoFns {
		if f.Pkg == nil || !strings.HasPrefix(f.Pkg.Pkg.Path(), repoMod+"/stores/") {
			continue
		}
		// values obtained from Index().Get(...), directly or through a repo helper that returns
		// what the index (its Get, or another method of an index type) handed out
		var seeds []ssa.Value
		var providers []*ssa.Function
		eachCall(f, func(call ssa.CallInstruction) {
			if call.Value() == nil {
				return
			}
			if ps, ok := c.listingOrigin(call, idxGet, 0); ok {
				seeds = append(seeds, call.Value())
				providers = append(providers, ps...)
			}
		})
		if len(seeds) == 0 {
			continue
		}
		d := derived(seeds, flowOpts{})
		// also follow into repo callees taking the listing as argument (one level)
		type mut struct {
			in ssa.Instruction
			fn *ssa.Function
		}
		var muts []mut
		findMut := func(g *ssa.Function, dv map[ssa.Value]bool) {
			eachInstr(g, func(in ssa.Instruction) {
				st, ok := in.(*ssa.Store)
				if !ok {
					return
				}
				if ia, ok := st.Addr.(*ssa.IndexAddr); ok && dv[ia.X] {
					if _, isSl := ia.X.Type().Underlying().(*types.Slice); isSl {
						muts = append(muts, mut{st, g})
					}
				}
			})
		}
		findMut(f, d)
		eachCall(f, func(call ssa.CallInstruction) {
			g := call.Common().StaticCallee()
			if g == nil || g.Blocks == nil || g.Pkg == nil || !inRepo(g.Pkg.Pkg) {
				return
			}
			var ps []ssa.Value
			for i, a := range call.Common().Args {
				if d[a] && i < len(g.Params) {
					ps = append(ps, g.Params[i])
				}
			}
			if len(ps) > 0 {
				findMut(g, derived(ps, flowOpts{}))
			}
		})
		if len(muts) == 0 {
			continue
		}
		n++
		fk := fnKey(f)
		types_ := installed[f.Pkg.Pkg.Path()]
		if len(types_) == 0 {
			c.undecided("I5", fk+"#listing-mutated", muts[0].in.Pos(), "a listing obtained from the index is mutated in place and the index type installed by this store could not be resolved")
			continue
		}
		okAll := true
		for _, t := range types_ {
			g := c.methodOf(t, "Get")
			if g == nil || g.Blocks == nil {
				continue
			}
			if sh := c.sharedReturns(g); len(sh) > 0 {
				okAll = false
				c.bad("I5", fk+"#listing-mutated:"+relType(t), muts[0].in.Pos(),
					fmt.Sprintf("the listing returned by %s.Get is shared storage (returned at %s) and is reordered in place here: the next query observes a corrupted order", relType(t), c.pos(sh[0].Pos())))
			}
		}
		seenP := map[*ssa.Function]bool{}
		for _, g := range providers {
			if g == nil || seenP[g] {
				continue
			}
			seenP[g] = true
			if sh := c.sharedReturns(g); len(sh) > 0 {
				okAll = false
				c.bad("I5", fk+"#listing-mutated:"+fnKey(g), muts[0].in.Pos(),
					fmt.Sprintf("the listing returned by %s is shared storage (returned at %s) and is reordered in place here: the next query observes a corrupted order", fnKey(g), c.pos(sh[0].Pos())))
			}
		}
		if okAll {
			c.ok("I5", fk+"#listing-mutated", muts[0].in.Pos(), "the listing mutated in place is freshly built by the installed index on every call")
		}
	}
	c.Counts["I5:in-place mutations of index listings"] = n
	if n == 0 {
		// nothing reorders a listing in place any more: nothing a shared listing could suffer from
		c.ok("I5", "no-listing-mutated-in-place", token.NoPos, "no store function mutates a listing obtained from its index in place")
	}
}
