package main

import (
	"fmt"
	"go/token"
	"go/types"
	"sort"
	"strings"

	"golang.org/x/tools/go/ssa"
)

// rulesExtra5: rules added after the third round of independently seeded changes
// (less travelled paths: cancellation, restart, second calls).
//
//	P6 — the load path reads the head records and never rewrites them: under DF7 (the
//	     fetcher omits what it could not fetch and reports no error) the log a loader has
//	     just rebuilt may be partial, and its heads written back over a head record drop
//	     every branch the abandoned load did not reach
//	P7 — what the merge path records as merged heads is the heads of the log itself, read
//	     after the merge: the heads of the batch alone overwrite the record of every earlier
//	     batch the new one does not descend from
//	X8 — nothing removes a block from the block store: blocks are content addressed and not
//	     reference counted, the block "no longer needed" may be the very block just written
//	     (an unchanged log snapshots to the same file) or shared with an entry
//	R6 — a remembered copy of the log's length read by the status recalculation is refreshed
//	     after every Append and Join (R2 then models it as the log's length)
//	G11 — a goroutine that belongs to one call of an operation and writes the replication
//	     status is waited for before the operation returns
//	I11 — the batch handed to a batch operation holds one document per key (a map, or a list
//	     drawn from a range over a map)
//	J4 — a Join that trims (size other than -1) is only reached from the load path
//	Q6 — after a task is retired every path to the return passes the idle test
//	J3 — the limit handed to the head fetches is never 0: what may be zero passes the
//	     non-positive → -1 test first
//	G12 — a slot shared by all peers is not held while waiting for one peer's bytes
//	G13 — Close takes no lock that an operation holds across a fetch of log history
//	M7 — a list serialised into content-addressed data is not ordered by map iteration
//	G14 — the replicator's workers run under the request context bound to its own, which Stop cancels
//	G10 — what Drop destroys is what the store was opened on: cache.Destroy names the same
//	     directory and address as the cache.Load of the function that builds the store
func rulesExtra5(c *Ctx) {
	c.ruleP6()
	c.ruleP7()
	c.ruleX8()
	c.ruleG10()
	c.ruleR6()
	c.ruleG11()
	c.ruleI11()
	c.ruleJ4()
	c.ruleQ6()
	c.ruleJ3()
	c.ruleG12()
	c.ruleG13()
	c.ruleM7()
	c.ruleG14()
}

// keyParamOf: the string parameter a datastore key expression is built from
// (datastore.NewKey(p) or datastore.NewKey(path.Join(..., p))), if any.
func keyParamOf(v ssa.Value) *ssa.Parameter {
	call, ok := v.(*ssa.Call)
	if !ok || calleeFull(call) != "github.com/ipfs/go-datastore.NewKey" || len(call.Call.Args) != 1 {
		return nil
	}
	a := call.Call.Args[0]
	if j, ok := a.(*ssa.Call); ok && (calleeFull(j) == "path.Join" || calleeFull(j) == "path/filepath.Join") {
		if last := lastVariadicElem(j.Call.Args[len(j.Call.Args)-1]); last != nil {
			a = last
		}
	}
	p, _ := a.(*ssa.Parameter)
	return p
}

type reachedPut struct {
	call ssa.CallInstruction
	keys []string
	via  []string
}

// putsReachable: the datastore Puts that f, its function literals and the functions of its
// package it calls statically (three levels) make, with the key each one writes. A key that
// is a parameter of a shared helper is taken from the call that leads there, not from all of
// the helper's callers.
func (c *Ctx) putsReachable(f *ssa.Function, bind map[*ssa.Parameter]string, depth int, via []string, seen map[*ssa.Function]bool) []reachedPut {
	var out []reachedPut
	if f == nil || f.Blocks == nil || depth > 3 || seen[f] {
		return out
	}
	seen[f] = true
	defer delete(seen, f)
	for _, g := range withClosures(f) {
		eachCall(g, func(call ssa.CallInstruction) {
			if c.isMethodOn(call, "Put", ifaceDSWrite) {
				a := argsOf(call)
				if len(a) >= 2 {
					if p := keyParamOf(a[1]); p != nil {
						if s, ok := bind[p]; ok {
							out = append(out, reachedPut{call, []string{s}, via})
							return
						}
					}
					if ks := c.dsKeysOf(a[1]); len(ks) > 0 {
						out = append(out, reachedPut{call, ks, via})
					}
				}
				return
			}
			h := call.Common().StaticCallee()
			if h == nil || h.Blocks == nil || h.Pkg != f.Pkg || topLevel(h) == topLevel(f) {
				return
			}
			nb := map[*ssa.Parameter]string{}
			for i, arg := range call.Common().Args {
				if i >= len(h.Params) {
					break
				}
				if s, ok := constString(arg); ok {
					nb[h.Params[i]] = s
				} else if p, ok := arg.(*ssa.Parameter); ok {
					if s, ok := bind[p]; ok {
						nb[h.Params[i]] = s
					}
				}
			}
			out = append(out, c.putsReachable(h, nb, depth+1, append(append([]string{}, via...), h.Name()), seen)...)
		})
	}
	return out
}

// ---------------------------------------------------------------------------
// P6

func (c *Ctx) ruleP6() {
	isFetch := func(call ssa.CallInstruction) bool { return calleeFull(call) == logMod+".NewFromEntryHash" }
	// loaders: functions of the store that read a cache key and rebuild the log from it
	type loader struct {
		f    *ssa.Function
		keys []string
	}
	var loaders []loader
	headKeys := map[string]bool{}
	for _, f := range c.RepoFns {
		if c.isTestFile(f.Pos()) || f.Parent() != nil || f.Pkg == nil {
			continue
		}
		if f.Pkg.Pkg.Path() != repoMod+"/stores/basestore" || !c.reachesStatic(f, isFetch, 0) {
			continue
		}
		var ks []string
		c.reachesStatic(f, func(call ssa.CallInstruction) bool {
			ks = append(ks, c.cacheGetKeys(call)...)
			return false
		}, 0)
		if len(ks) == 0 {
			continue
		}
		sort.Strings(ks)
		loaders = append(loaders, loader{f, ks})
		if !c.isControlFn(f) {
			for _, k := range ks {
				headKeys[k] = true
			}
		}
	}
	n := 0
	for _, l := range loaders {
		if !c.isControlFn(l.f) {
			n++
		}
		cons := fnKey(l.f) + "#heads-not-rewritten"
		viol := false
		for _, p := range c.putsReachable(l.f, map[*ssa.Parameter]string{}, 0, nil, map[*ssa.Function]bool{}) {
			for _, k := range p.keys {
				if !headKeys[k] {
					continue
				}
				viol = true
				where := ""
				if len(p.via) > 0 {
					where = " (through " + strings.Join(p.via, "→") + ")"
				}
				c.bad("P6", cons, p.call.Pos(), fmt.Sprintf("the load path writes the head record %q%s: the log it has just rebuilt is only as complete as the fetch was, and the fetcher reports no error for what it could not fetch (request cancelled or past its deadline, block unavailable) — after an abandoned load the record is overwritten with the heads of a partial log and every branch that was not reached is lost for all later restarts", k, where))
				break
			}
			if viol {
				break
			}
		}
		if !viol {
			c.ok("P6", cons, l.f.Pos(), "reads "+strings.Join(l.keys, ", ")+" and writes no head record")
		}
	}
	c.floor("P6", "load paths (cache read feeding a fetch)", n, 1)
}

// ---------------------------------------------------------------------------
// P7

// headsProvenance: the value written by the persist site `site` of g derives from the heads
// of a log that is not one of the batch handed to g (a Heads() call on the log interface), or
// from one of the seed parameters.
// stale=true: it does, but every such Heads() call in g can still be followed by a merge.
func (c *Ctx) headsProvenance(g *ssa.Function, site ssa.Instruction, seeds []ssa.Value, isJoin instrPred, depth int) (ok, stale, decided bool) {
	if depth > 3 {
		return false, false, false
	}
	// batch parameters: slices handed in (the fetched logs, the entries)
	var batch []ssa.Value
	for _, p := range g.Params {
		if strings.HasPrefix(typeStr(p.Type().Underlying()), "[]") {
			batch = append(batch, p)
		}
	}
	fromBatch := derived(batch, flowOpts{throughCalls: true, intoClosures: true})
	var headsCalls []ssa.CallInstruction
	all := append([]ssa.Value{}, seeds...)
	for _, h := range withClosures(g) {
		eachCall(h, func(call ssa.CallInstruction) {
			if !c.isLogCall(call, "Heads") || call.Value() == nil {
				return
			}
			if r := recvOf(call); r != nil && fromBatch[r] {
				return
			}
			headsCalls = append(headsCalls, call)
			all = append(all, call.Value())
		})
	}
	d := derived(all, flowOpts{throughCalls: true, intoClosures: true})
	call, isCall := site.(ssa.CallInstruction)
	if !isCall {
		return false, false, false
	}
	staleHere := func() bool {
		// the value may also come from a seed parameter: then the caller answers for freshness
		if len(seeds) > 0 || len(headsCalls) == 0 {
			return false
		}
		for _, hc := range headsCalls {
			if hc.Parent() != g {
				return false
			}
			if hit, _ := findPath(g, after(hc), nil, isJoin, nil); hit == nil {
				return false
			}
		}
		return true
	}
	if c.isMethodOn(call, "Put", ifaceDSWrite) {
		a := argsOf(call)
		if len(a) < 3 {
			return false, false, false
		}
		if d[a[2]] {
			return true, staleHere(), true
		}
		return false, false, true
	}
	h := call.Common().StaticCallee()
	if mc, isMC := call.Common().Value.(*ssa.MakeClosure); isMC && h == nil {
		h, _ = mc.Fn.(*ssa.Function)
	}
	if h == nil || h.Blocks == nil {
		return false, false, false
	}
	var ps []ssa.Value
	for i, arg := range call.Common().Args {
		if i < len(h.Params) && d[arg] {
			// the receiver carries the store, not the heads
			if i == 0 && h.Signature.Recv() != nil {
				continue
			}
			ps = append(ps, h.Params[i])
		}
	}
	anyDecided := false
	for _, hh := range withClosures(h) {
		var res struct{ ok, stale, found bool }
		eachInstr(hh, func(in ssa.Instruction) {
			if res.found || !c.mayPutSite(in) {
				return
			}
			if _, isC := in.(ssa.CallInstruction); !isC {
				return
			}
			o, s, dec := c.headsProvenance(h, in, ps, isJoin, depth+1)
			if dec {
				anyDecided = true
				res.ok, res.stale, res.found = o, s, true
			}
		})
		if res.found {
			st := res.stale
			if len(ps) > 0 {
				st = staleHere()
			}
			return res.ok, st, true
		}
	}
	return false, false, anyDecided
}

func (c *Ctx) ruleP7() {
	kEmitRepl := c.kindEmit("stores.EventReplicated")
	kJoin := newKind("join", func(call ssa.CallInstruction) bool { return c.isLogCall(call, "Join") })
	isJoin := func(in ssa.Instruction) bool { return c.isSite(kJoin, in) }
	isJoinCall := func(call ssa.CallInstruction) bool { return c.isLogCall(call, "Join") }
	n := 0
	for _, f := range c.RepoFns {
		if c.isTestFile(f.Pos()) || f.Parent() != nil || f.Blocks == nil {
			continue
		}
		hasEmit := false
		var puts []ssa.Instruction
		eachInstr(f, func(in ssa.Instruction) {
			if _, isCall := in.(ssa.CallInstruction); !isCall {
				return
			}
			if _, isGo := in.(*ssa.Go); isGo {
				return
			}
			if c.isSite(kEmitRepl, in) {
				hasEmit = true
			}
			if c.mayPutSite(in) {
				puts = append(puts, in)
			}
		})
		// the merge itself may sit in a helper (a loop over the batch)
		if !hasEmit || len(puts) == 0 || !c.reachesStatic(f, isJoinCall, 0) {
			continue
		}
		if !c.isControlFn(f) {
			n++
		}
		cons := fnKey(f) + "→persist#heads-of-the-log"
		var good, stale, undec bool
		var badAt ssa.Instruction
		for _, p := range puts {
			ok, st, dec := c.headsProvenance(f, p, nil, isJoin, 0)
			switch {
			case !dec:
				undec = true
			case ok && st:
				stale = true
				badAt = p
			case ok:
				good = true
			default:
				if badAt == nil {
					badAt = p
				}
			}
		}
		switch {
		case good:
			c.ok("P7", cons, f.Pos(), "the record written after the merge derives from Heads() of the log, read after the merge")
		case stale:
			c.bad("P7", cons, badAt.Pos(), "the heads recorded after the merge were read from the log before the merge: the record misses what this batch brought in, and those entries are unreachable after a restart")
		case badAt != nil:
			c.bad("P7", cons, badAt.Pos(), "what the merge path records is not derived from the heads of the log (Heads() of the store's log after the merge): a record built from the merged batch alone replaces the record of every earlier batch, and a branch the new batch does not descend from — another writer's — is unreachable after a restart although it was reported as replicated")
		case undec:
			c.undecided("P7", cons, f.Pos(), "the value written by the persist step could not be traced")
		}
	}
	c.floor("P7", "merge paths that record heads", n, 1)
}

// mayPutSite: a datastore Put, or a call of a function of the repo that can reach one.
func (c *Ctx) mayPutSite(in ssa.Instruction) bool {
	call, ok := in.(ssa.CallInstruction)
	if !ok {
		return false
	}
	isPut := func(x ssa.CallInstruction) bool { return c.isMethodOn(x, "Put", ifaceDSWrite) }
	if isPut(call) {
		return true
	}
	h := call.Common().StaticCallee()
	if h == nil || h.Blocks == nil || h.Pkg == nil || !inRepo(h.Pkg.Pkg) {
		return false
	}
	return c.reachesStatic(h, isPut, 0)
}

// ---------------------------------------------------------------------------
// X8

func (c *Ctx) isBlockRemoval(call ssa.CallInstruction) bool {
	name := methodName(call)
	switch name {
	case "Rm", "Remove", "RemoveMany", "DeleteBlock", "DeleteBlocks":
	default:
		return false
	}
	r := recvOf(call)
	if r == nil {
		return false
	}
	t := typeStr(r.Type())
	for _, frag := range []string{"coreiface.BlockAPI", "core/coreiface.BlockAPI", "coreiface.APIDagService", "go-ipld-format.DAGService", "go-ipld-format.NodeAdder", "blockstore.Blockstore", "blockservice.BlockService", "coreiface.PinAPI"} {
		if strings.HasSuffix(t, frag) {
			return true
		}
	}
	if c.isMethodOn(call, name, "github.com/ipfs/go-ipld-format.DAGService") && (name == "Remove" || name == "RemoveMany") {
		return true
	}
	return false
}

func (c *Ctx) ruleX8() {
	scanned, ctl := 0, 0
	for _, f := range c.RepoFns {
		if c.isTestFile(f.Pos()) || f.Blocks == nil {
			continue
		}
		scanned++
		eachCall(f, func(call ssa.CallInstruction) {
			if !c.isBlockRemoval(call) {
				return
			}
			if c.isControlFn(f) {
				ctl++
			}
			c.bad("X8", fnKey(topLevel(f))+"→"+methodName(call)+"#block-removal", call.Pos(), "a block is removed from the block store: blocks are content addressed and nothing counts their references — the block may be shared with the snapshot just written (an unchanged log snapshots to the very same file), with another snapshot's chunks, or be an entry of the log; what was saved or acknowledged can then no longer be loaded")
		})
	}
	c.Counts["X8:functions scanned"] = scanned
	c.ok("X8", "repo#no-block-removal-scan", 0, fmt.Sprintf("%d functions scanned for calls that remove a block (Block().Rm, Dag().Remove/RemoveMany, Blockstore.DeleteBlock, Pin().Rm)", scanned))
}

// ---------------------------------------------------------------------------
// G10

// originOf canonicalises where a value comes from: parameters, captured variables (resolved
// through the closure's bindings), fields, dereferences and single-assignment locals. Two
// expressions with the same origin denote the same storage.
func originOf(v ssa.Value, bind map[ssa.Value]ssa.Value, depth int) string {
	if depth > 12 {
		return "?"
	}
	if b, ok := bind[v]; ok {
		return originOf(b, bind, depth+1)
	}
	switch x := v.(type) {
	case *ssa.Parameter:
		return "param:" + x.Parent().Name() + "." + x.Name()
	case *ssa.FreeVar:
		return "free:" + x.Parent().Name() + "." + x.Name()
	case *ssa.Const:
		return "const:" + x.String()
	case *ssa.Global:
		return "global:" + x.String()
	case *ssa.Alloc:
		// a local (or a spilled parameter) that is stored exactly once stands for what is stored
		var stores []*ssa.Store
		other := false
		if refs := x.Referrers(); refs != nil {
			for _, r := range *refs {
				switch y := r.(type) {
				case *ssa.Store:
					if y.Addr == ssa.Value(x) {
						stores = append(stores, y)
					}
				case *ssa.UnOp, *ssa.MakeClosure, *ssa.DebugRef:
				default:
					other = true
				}
			}
		}
		if len(stores) == 1 && !other {
			return "&" + originOf(stores[0].Val, bind, depth+1)
		}
		return fmt.Sprintf("alloc:%s@%s", x.Comment, x.Parent().Name())
	case *ssa.UnOp:
		if x.Op.String() == "*" {
			// a field of a struct built here and assigned once (a set-up struct): what was assigned
			if fa, ok := x.X.(*ssa.FieldAddr); ok {
				base := fa.X
				for i := 0; i < 4; i++ {
					if b, ok := bind[base]; ok {
						base = b
					} else {
						break
					}
				}
				if al, ok := base.(*ssa.Alloc); ok && al.Referrers() != nil {
					var vals []ssa.Value
					for _, r := range *al.Referrers() {
						fa2, ok := r.(*ssa.FieldAddr)
						if !ok || fa2.Field != fa.Field || fa2.Referrers() == nil {
							continue
						}
						for _, r2 := range *fa2.Referrers() {
							if st, ok := r2.(*ssa.Store); ok && st.Addr == ssa.Value(fa2) {
								vals = append(vals, st.Val)
							}
						}
					}
					if len(vals) == 1 {
						return originOf(vals[0], bind, depth+1)
					}
				}
			}
			o := originOf(x.X, bind, depth+1)
			if strings.HasPrefix(o, "&") {
				return o[1:]
			}
			return "*(" + o + ")"
		}
	case *ssa.FieldAddr:
		st := x.X.Type().Underlying().(*types.Pointer).Elem().Underlying().(*types.Struct)
		return "&" + originOf(x.X, bind, depth+1) + "." + st.Field(x.Field).Name()
	case *ssa.Field:
		st := x.X.Type().Underlying().(*types.Struct)
		return originOf(x.X, bind, depth+1) + "." + st.Field(x.Field).Name()
	case *ssa.ChangeType:
		return originOf(x.X, bind, depth+1)
	case *ssa.MakeInterface:
		return originOf(x.X, bind, depth+1)
	case *ssa.ChangeInterface:
		return originOf(x.X, bind, depth+1)
	case *ssa.Extract:
		return fmt.Sprintf("%s#%d", originOf(x.Tuple, bind, depth+1), x.Index)
	case *ssa.Call:
		var as []string
		for _, a := range x.Call.Args {
			as = append(as, originOf(a, bind, depth+1))
		}
		name := "?"
		if x.Call.IsInvoke() {
			name = originOf(x.Call.Value, bind, depth+1) + "." + x.Call.Method.Name()
		} else if h := x.Call.StaticCallee(); h != nil {
			name = h.String()
		}
		return fmt.Sprintf("call:%s(%s)@%s", name, strings.Join(as, ","), x.Parent().Name()+":"+x.Name())
	}
	return fmt.Sprintf("val:%s@%s", v.Name(), func() string {
		if in, ok := v.(ssa.Instruction); ok && in.Parent() != nil {
			return in.Parent().Name()
		}
		return ""
	}())
}

// closureBindings: free variables of fn mapped to what the MakeClosure that creates it binds.
func closureBindings(fn *ssa.Function, into map[ssa.Value]ssa.Value) {
	p := fn.Parent()
	if p == nil {
		return
	}
	eachInstr(p, func(in ssa.Instruction) {
		mc, ok := in.(*ssa.MakeClosure)
		if !ok || mc.Fn != ssa.Value(fn) {
			return
		}
		for i, b := range mc.Bindings {
			if i < len(fn.FreeVars) {
				into[fn.FreeVars[i]] = b
			}
		}
	})
	closureBindings(p, into)
}

type cacheCall struct {
	call  ssa.CallInstruction
	dir   string
	addr  string
	depth int
}

// cacheCallsFrom: the calls of method `name` of the cache interface made by f, its function
// literals and the repo functions they call statically (two levels), with the origins of the
// directory and address arguments expressed in f's terms.
func (c *Ctx) cacheCallsFrom(f *ssa.Function, name string, bind map[ssa.Value]ssa.Value, depth int) []cacheCall {
	var out []cacheCall
	if f == nil || f.Blocks == nil || depth > 2 {
		return out
	}
	for _, g := range withClosures(f) {
		b := map[ssa.Value]ssa.Value{}
		for k, v := range bind {
			b[k] = v
		}
		if g != f {
			closureBindings(g, b)
		}
		eachCall(g, func(call ssa.CallInstruction) {
			if c.isMethodOn(call, name, repoMod+"/cache.Interface") {
				a := argsOf(call)
				if len(a) >= 2 {
					out = append(out, cacheCall{call, originOf(a[0], b, 0), originOf(a[1], b, 0), depth})
				}
				return
			}
			h := call.Common().StaticCallee()
			if h == nil || h.Blocks == nil || h.Pkg == nil || !inRepo(h.Pkg.Pkg) || topLevel(h) == topLevel(f) {
				return
			}
			nb := map[ssa.Value]ssa.Value{}
			for k, v := range b {
				nb[k] = v
			}
			for i, arg := range call.Common().Args {
				if i < len(h.Params) {
					nb[h.Params[i]] = arg
				}
			}
			out = append(out, c.cacheCallsFrom(h, name, nb, depth+1)...)
		})
	}
	return out
}

// ruleG10: what Drop destroys is what the store was opened on. The function that builds a
// store hands it a cache (cache.Load(directory, address)) and the means to destroy it
// (cache.Destroy(directory, address)): the two calls name the same directory and address.
func (c *Ctx) ruleG10() {
	// every destroy call is judged in the innermost function that also reaches a load: the
	// hook may be built by a helper that is handed the directory and the address
	type judged struct {
		f     *ssa.Function
		d     cacheCall
		loads []cacheCall
	}
	best := map[ssa.CallInstruction]*judged{}
	var order []ssa.CallInstruction
	for _, f := range c.RepoFns {
		if c.isTestFile(f.Pos()) || f.Parent() != nil || f.Blocks == nil || f.Pkg == nil {
			continue
		}
		// the cache implementations themselves are not users of the interface
		if strings.Contains(f.Pkg.Pkg.Path(), "/cache") {
			continue
		}
		destroys := c.cacheCallsFrom(f, "Destroy", map[ssa.Value]ssa.Value{}, 0)
		if len(destroys) == 0 {
			continue
		}
		loads := c.cacheCallsFrom(f, "Load", map[ssa.Value]ssa.Value{}, 0)
		for _, d := range destroys {
			cur, seen := best[d.call]
			if !seen {
				order = append(order, d.call)
			}
			switch {
			case !seen,
				len(cur.loads) == 0 && len(loads) > 0,
				len(loads) > 0 && d.depth < cur.d.depth:
				best[d.call] = &judged{f, d, loads}
			}
		}
	}
	n := 0
	perFn := map[*ssa.Function]int{}
	for _, dc := range order {
		j := best[dc]
		f, d, loads := j.f, j.d, j.loads
		if !c.isControlFn(f) {
			n++
		}
		cons := fmt.Sprintf("%s→cache.Destroy#%d#same-as-loaded", fnKey(f), perFn[f])
		perFn[f]++
		if len(loads) == 0 {
			c.undecided("G10", cons, d.call.Pos(), "a cache is destroyed by a function that neither loads it nor is called by one that does: the directory and address it was loaded with could not be found")
			continue
		}
		match := false
		for _, l := range loads {
			if l.dir == d.dir && l.addr == d.addr {
				match = true
			}
		}
		if match {
			c.ok("G10", cons, d.call.Pos(), "Destroy names the directory and address the store's cache was loaded with ("+d.dir+", "+d.addr+")")
		} else {
			l := loads[0]
			what := "directory"
			got, want := d.dir, l.dir
			if l.dir == d.dir {
				what, got, want = "address", d.addr, l.addr
			}
			c.bad("G10", cons, d.call.Pos(), fmt.Sprintf("the store's cache is loaded with %s %s but what Drop destroys is %s: when the two differ (a rarely used option, another database) Drop reports success and removes the wrong path — every entry of the dropped database comes back when it is opened again", what, want, got))
		}
	}
	c.floor("G10", "cache destroy hooks", n, 1)
}

// ---------------------------------------------------------------------------
// L5 (second clause)

// absentBranches: the blocks entered when the comma-ok look-up found the key absent.
func absentBranches(lk *ssa.Lookup) []*ssa.BasicBlock {
	var absent []*ssa.BasicBlock
	if lk.Referrers() == nil {
		return nil
	}
	for _, r := range *lk.Referrers() {
		ex, ok := r.(*ssa.Extract)
		if !ok || ex.Index != 1 || ex.Referrers() == nil {
			continue
		}
		for _, rr := range *ex.Referrers() {
			switch y := rr.(type) {
			case *ssa.If:
				absent = append(absent, y.Block().Succs[1])
			case *ssa.UnOp:
				if y.Op.String() == "!" && y.Referrers() != nil {
					for _, r3 := range *y.Referrers() {
						if iff, ok := r3.(*ssa.If); ok {
							absent = append(absent, iff.Block().Succs[0])
						}
					}
				}
			}
		}
	}
	return absent
}

// ruleL5b: what an entry stands for is started only by the caller that records it. Where a
// function records a value in a lock-protected map when the key is absent, a goroutine that
// serves that value (it captures the value, or something created here that went into it: the
// subscription, its context) starts inside the "absent" branch. Started after the branches
// have joined, it also runs for the caller that found the key present — whose own
// subscription is recorded nowhere, is never closed, and delivers every payload a second time.
func (c *Ctx) ruleL5b() {
	for _, f := range c.RepoFns {
		if c.isTestFile(f.Pos()) || f.Blocks == nil {
			continue
		}
		k := 0
		eachInstr(f, func(in ssa.Instruction) {
			lk, ok := in.(*ssa.Lookup)
			if !ok || !lk.CommaOk {
				return
			}
			fv := mapFieldOf(lk.X)
			if fv == nil {
				return
			}
			absent := absentBranches(lk)
			if len(absent) == 0 {
				return
			}
			covered := func(b *ssa.BasicBlock) bool {
				for _, a := range absent {
					if branchCovers(a, b) {
						return true
					}
				}
				return false
			}
			// what goes into the recorded value
			parts := map[ssa.Value]bool{}
			created := func(v ssa.Value) bool {
				switch x := v.(type) {
				case *ssa.Call:
					return true
				case *ssa.Extract:
					_, isCall := x.Tuple.(*ssa.Call)
					return isCall
				}
				return false
			}
			addPart := func(v ssa.Value) {
				if created(v) {
					parts[v] = true
				}
				// a captured local is a cell: the goroutine is handed the cell
				if u, ok := v.(*ssa.UnOp); ok && u.Op.String() == "*" {
					if cell, ok := u.X.(*ssa.Alloc); ok && cell.Referrers() != nil {
						for _, r := range *cell.Referrers() {
							if st, ok := r.(*ssa.Store); ok && st.Addr == ssa.Value(cell) && created(st.Val) {
								parts[cell] = true
							}
						}
					}
				}
			}
			any := false
			for _, b := range f.Blocks {
				if !covered(b) {
					continue
				}
				for _, x := range b.Instrs {
					mu, ok := x.(*ssa.MapUpdate)
					if !ok || mapFieldOf(mu.Map) != fv {
						continue
					}
					any = true
					v := mu.Value
					if mi, ok := v.(*ssa.MakeInterface); ok {
						v = mi.X
					}
					// a value held in a captured local: the cell, and what was stored in it
					if u, ok := v.(*ssa.UnOp); ok && u.Op.String() == "*" {
						if cell, ok := u.X.(*ssa.Alloc); ok && cell.Referrers() != nil {
							for _, r := range *cell.Referrers() {
								if st, ok := r.(*ssa.Store); ok && st.Addr == ssa.Value(cell) {
									if inner, ok := st.Val.(*ssa.Alloc); ok {
										parts[cell] = true
										v = inner
									}
								}
							}
						}
					}
					if al, ok := v.(*ssa.Alloc); ok {
						parts[al] = true
						if al.Referrers() != nil {
							for _, r := range *al.Referrers() {
								fa, ok := r.(*ssa.FieldAddr)
								if !ok || fa.Referrers() == nil {
									continue
								}
								for _, r2 := range *fa.Referrers() {
									if st, ok := r2.(*ssa.Store); ok && st.Addr == ssa.Value(fa) {
										addPart(st.Val)
									}
								}
							}
						}
					} else {
						addPart(v)
					}
				}
			}
			if !any || len(parts) == 0 {
				return
			}
			for _, b := range f.Blocks {
				for _, x := range b.Instrs {
					g, ok := x.(*ssa.Go)
					if !ok {
						continue
					}
					serves := false
					var handed []ssa.Value
					handed = append(handed, g.Call.Args...)
					if mc, ok := g.Call.Value.(*ssa.MakeClosure); ok {
						handed = append(handed, mc.Bindings...)
					}
					for _, h := range handed {
						if parts[h] {
							serves = true
						}
					}
					if !serves {
						continue
					}
					cons := fmt.Sprintf("%s→absent(%s)→serve#%d", fnKey(f), mapFieldName(fv), k)
					k++
					if covered(b) {
						c.ok("L5", cons, g.Pos(), "the goroutine serving the recorded value starts in the branch that found the key absent and recorded it")
					} else {
						c.bad("L5", cons, g.Pos(), "the goroutine that serves what this function creates for the entry starts whether or not the entry was recorded: a caller that finds the key present (another caller got there first) still runs it on its own, unrecorded creation — a second subscription to the same pairwise topic that nothing closes, and every payload is delivered twice")
					}
				}
			}
		})
	}
}

// ---------------------------------------------------------------------------
// R6

// atomicFieldOp: a Load/Store call on a sync/atomic typed field (x.f.Load(), x.f.Store(v)) or
// the function form on its address; returns the field, the operation and the stored value.
func atomicFieldOp(in ssa.Instruction) (fv *types.Var, op string, val ssa.Value) {
	call, ok := in.(ssa.CallInstruction)
	if !ok {
		return nil, "", nil
	}
	g := call.Common().StaticCallee()
	if g == nil || g.Pkg == nil || g.Pkg.Pkg.Path() != "sync/atomic" {
		return nil, "", nil
	}
	args := call.Common().Args
	if len(args) == 0 {
		return nil, "", nil
	}
	fa, ok := args[0].(*ssa.FieldAddr)
	if !ok {
		return nil, "", nil
	}
	name := g.Name()
	switch {
	case name == "Load" || strings.HasPrefix(name, "Load"):
		return fieldVarOf(fa), "load", nil
	case (name == "Store" || strings.HasPrefix(name, "Store")) && len(args) >= 2:
		return fieldVarOf(fa), "store", args[1]
	}
	return nil, "", nil
}

// fromLogLen: v is the result of Len() on a log, possibly converted.
func (c *Ctx) fromLogLen(v ssa.Value) bool {
	for i := 0; i < 4; i++ {
		switch x := v.(type) {
		case *ssa.Convert:
			v = x.X
			continue
		case *ssa.ChangeType:
			v = x.X
			continue
		case *ssa.Call:
			return c.isLogCall(x, "Len")
		}
		return false
	}
	return false
}

// holdsStatus: the struct the field belongs to is the one that holds the replication status.
func holdsStatus(fa *ssa.FieldAddr) bool {
	pt, ok := fa.X.Type().Underlying().(*types.Pointer)
	if !ok {
		return false
	}
	st, ok := pt.Elem().Underlying().(*types.Struct)
	if !ok {
		return false
	}
	for i := 0; i < st.NumFields(); i++ {
		if strings.HasSuffix(typeStr(st.Field(i).Type()), "replicator.ReplicationInfo") {
			return true
		}
	}
	return false
}

// lengthCaches: integer fields of the store that are assigned the length of the log — a
// remembered copy of Len().
func (c *Ctx) lengthCaches() map[*types.Var]bool {
	if c.lenCacheMemo != nil {
		return c.lenCacheMemo
	}
	out := map[*types.Var]bool{}
	for _, f := range c.fnsInPkg("stores/basestore") {
		if c.isTestFile(f.Pos()) || c.isControlFn(f) {
			continue
		}
		eachInstr(f, func(in ssa.Instruction) {
			if st, ok := in.(*ssa.Store); ok {
				if fa, ok := st.Addr.(*ssa.FieldAddr); ok && c.fromLogLen(st.Val) && holdsStatus(fa) {
					out[fieldVarOf(fa)] = true
				}
				return
			}
			if fv, op, v := atomicFieldOp(in); fv != nil && op == "store" && c.fromLogLen(v) {
				if fa, ok := in.(ssa.CallInstruction).Common().Args[0].(*ssa.FieldAddr); ok && holdsStatus(fa) {
					out[fv] = true
				}
			}
		})
	}
	c.lenCacheMemo = out
	return out
}

// isLenCacheRead: v reads a remembered length (plain or atomic load of such a field).
func (c *Ctx) isLenCacheRead(v ssa.Value) bool {
	caches := c.lengthCaches()
	if len(caches) == 0 {
		return false
	}
	switch x := v.(type) {
	case *ssa.UnOp:
		if x.Op.String() == "*" {
			if fa, ok := x.X.(*ssa.FieldAddr); ok {
				return caches[fieldVarOf(fa)]
			}
		}
	case *ssa.Call:
		if fv, op, _ := atomicFieldOp(x); fv != nil && op == "load" {
			return caches[fv]
		}
	}
	return false
}

// ruleR6: a remembered copy of the log's length that the status recalculation reads instead
// of Len() is refreshed wherever the log changes: after every Append and Join on a log in the
// store's package, every path to the function's return passes the refresh (in the function
// or, for a helper, in each of its callers). A missed site leaves the floor of the progress
// stale: at rest the status counts fewer entries than the store holds.
func (c *Ctx) ruleR6() {
	caches := c.lengthCaches()
	if len(caches) == 0 {
		c.ok("R6", "status-floor#length-not-cached", 0, "no field of the store remembers the log's length: the recalculation asks the log itself (R2 models that value)")
		return
	}
	var names []string
	for fv := range caches {
		names = append(names, fv.Name())
	}
	sort.Strings(names)
	for _, nm := range names {
		var fv *types.Var
		for v := range caches {
			if v.Name() == nm {
				fv = v
			}
		}
		refresh := newKindInstr("refresh:"+nm, func(in ssa.Instruction) bool {
			if st, ok := in.(*ssa.Store); ok {
				if fa, ok := st.Addr.(*ssa.FieldAddr); ok && fieldVarOf(fa) == fv && c.fromLogLen(st.Val) {
					return true
				}
			}
			if v, op, val := atomicFieldOp(in); v == fv && op == "store" && c.fromLogLen(val) {
				return true
			}
			return false
		})
		n := 0
		for _, f := range c.fnsInPkg("stores/basestore") {
			if c.isTestFile(f.Pos()) || c.isControlFn(f) {
				continue
			}
			k := 0
			eachCall(f, func(call ssa.CallInstruction) {
				what := ""
				switch {
				case c.isLogCall(call, "Join"):
					what = "Join"
				case c.isLogCall(call, "Append"):
					what = "Append"
				default:
					return
				}
				n++
				cons := fmt.Sprintf("%s→%s#%d→refresh(%s)", fnKey(f), what, k, nm)
				k++
				start, _, tested := okStart(call)
				if !tested {
					start = after(call)
				}
				if ok, hit, tr := c.releasedAfter(f, start, refresh, 0); !ok {
					c.bad("R6", cons, hit.Pos(), fmt.Sprintf("the status recalculation reads %s, a remembered copy of the log's length, and this %s changes the log without refreshing it on some path (neither here nor in the callers): the floor of the progress stays at the old length, and at rest the status counts fewer entries than the store holds", nm, what), c.trailStr(tr)...)
				} else {
					c.ok("R6", cons, call.Pos(), "the remembered length is refreshed after the log changes on every path")
				}
			})
		}
		c.Counts["R6:log-changing sites checked for "+nm] = n
	}
}

// ---------------------------------------------------------------------------
// G11

// chanRoot resolves a channel operand to the value that identifies the channel in its
// creating function: the MakeChan, or the cell (captured local) that holds it.
func chanRoot(v ssa.Value, bind map[ssa.Value]ssa.Value) ssa.Value {
	for i := 0; i < 6; i++ {
		if b, ok := bind[v]; ok {
			v = b
			continue
		}
		switch x := v.(type) {
		case *ssa.UnOp:
			if x.Op.String() == "*" {
				v = x.X
				continue
			}
		case *ssa.ChangeType:
			v = x.X
			continue
		case *ssa.Alloc:
			// a cell holding a channel made here: stands for that channel
			if sv := uniqueStore(x); sv != nil {
				if _, isMake := sv.(*ssa.MakeChan); isMake {
					return sv
				}
			}
			return x
		}
		return v
	}
	return v
}

// chanOps: channels (by root) that fn receives from / closes / sends on, including in its
// deferred calls; closures of fn are not followed.
func chanOps(fn *ssa.Function, bind map[ssa.Value]ssa.Value) (recv, closes, sends map[ssa.Value]bool) {
	recv, closes, sends = map[ssa.Value]bool{}, map[ssa.Value]bool{}, map[ssa.Value]bool{}
	eachInstr(fn, func(in ssa.Instruction) {
		switch x := in.(type) {
		case *ssa.UnOp:
			if x.Op.String() == "<-" {
				recv[chanRoot(x.X, bind)] = true
			}
		case *ssa.Select:
			for _, st := range x.States {
				if st.Dir == types.RecvOnly {
					recv[chanRoot(st.Chan, bind)] = true
				} else {
					sends[chanRoot(st.Chan, bind)] = true
				}
			}
		case *ssa.Send:
			sends[chanRoot(x.Chan, bind)] = true
		case *ssa.Range:
			recv[chanRoot(x.X, bind)] = true
		case ssa.CallInstruction:
			if b, ok := x.Common().Value.(*ssa.Builtin); ok && b.Name() == "close" && len(x.Common().Args) == 1 {
				closes[chanRoot(x.Common().Args[0], bind)] = true
				return
			}
			if _, isGo := x.(*ssa.Go); isGo {
				return
			}
			// a channel handed to a named function: what that function does with it
			h := x.Common().StaticCallee()
			if h == nil || h.Blocks == nil || h.Pkg == nil || !inRepo(h.Pkg.Pkg) || h == fn || chanOpsDepth >= 2 {
				return
			}
			nb := map[ssa.Value]ssa.Value{}
			any := false
			for i, a := range x.Common().Args {
				if i < len(h.Params) {
					if _, isChan := a.Type().Underlying().(*types.Chan); isChan {
						nb[h.Params[i]] = chanRoot(a, bind)
						any = true
					}
				}
			}
			if !any {
				return
			}
			chanOpsDepth++
			r2, c2, s2 := chanOps(h, nb)
			chanOpsDepth--
			for v := range r2 {
				recv[v] = true
			}
			for v := range c2 {
				closes[v] = true
			}
			for v := range s2 {
				sends[v] = true
			}
		}
	})
	return
}

var chanOpsDepth int

// writesStatusDeep: fn or a function of its package it calls (four levels) changes the status.
func writesStatusDeep(c *Ctx, fn *ssa.Function, depth int, seen map[*ssa.Function]bool) bool {
	if fn == nil || fn.Blocks == nil || depth > 4 || seen[fn] {
		return false
	}
	seen[fn] = true
	found := false
	for _, g := range withClosures(fn) {
		eachCall(g, func(call ssa.CallInstruction) {
			if found {
				return
			}
			if c.isStatusMutation(call) {
				found = true
				return
			}
			if h := call.Common().StaticCallee(); h != nil && h.Pkg == fn.Pkg {
				if writesStatusDeep(c, h, depth+1, seen) {
					found = true
				}
			}
		})
	}
	return found
}

// ruleG11: a goroutine that belongs to one call of an operation — its loop ends when the
// operation closes the channel it reads — and that writes the replication status is waited
// for before the operation returns. Left running, it writes the status after the operation
// has returned: after a Close that follows at once (the status Close has just reset is
// non-zero again), or between two samples taken "at rest".
func (c *Ctx) ruleG11() {
	n := 0
	for _, f := range c.RepoFns {
		if c.isTestFile(f.Pos()) || f.Blocks == nil {
			continue
		}
		k := 0
		eachInstr(f, func(in ssa.Instruction) {
			g, ok := in.(*ssa.Go)
			if !ok {
				return
			}
			var cl *ssa.Function
			bind := map[ssa.Value]ssa.Value{}
			if mc, ok := g.Call.Value.(*ssa.MakeClosure); ok {
				cl, _ = mc.Fn.(*ssa.Function)
				if cl != nil {
					for i, b := range mc.Bindings {
						if i < len(cl.FreeVars) {
							bind[cl.FreeVars[i]] = b
						}
					}
				}
			} else {
				cl = g.Call.StaticCallee()
			}
			if cl == nil || cl.Blocks == nil || !writesStatusDeep(c, cl, 0, map[*ssa.Function]bool{}) {
				return
			}
			for i, a := range g.Call.Args {
				if i < len(cl.Params) {
					bind[cl.Params[i]] = a
				}
			}
			clRecv, clCloses, clSends := chanOps(cl, bind)
			// channels the operation itself closes (directly, deferred, or in a deferred literal)
			fRecv, fCloses, _ := chanOps(f, nil)
			var waitsWG, doneWG bool
			for _, a := range f.AnonFuncs {
				if a == cl {
					continue
				}
				// only literals that are deferred or called in f, not other goroutines
				deferred := false
				eachInstr(f, func(x ssa.Instruction) {
					if d, ok := x.(*ssa.Defer); ok {
						if m, ok := d.Call.Value.(*ssa.MakeClosure); ok && m.Fn == ssa.Value(a) {
							deferred = true
						}
					}
				})
				if !deferred {
					continue
				}
				ab := map[ssa.Value]ssa.Value{}
				closureBindings(a, ab)
				r2, c2, _ := chanOps(a, ab)
				for v := range r2 {
					fRecv[v] = true
				}
				for v := range c2 {
					fCloses[v] = true
				}
			}
			scoped := false
			for v := range clRecv {
				if fCloses[v] {
					scoped = true
				}
			}
			if !scoped {
				return // tied to something else (the store's context, a subscription): G1's business
			}
			if !c.isControlFn(f) {
				n++
			}
			cons := fmt.Sprintf("%s→go#%d#joined", fnKey(f), k)
			k++
			joined := false
			for v := range fRecv {
				if clCloses[v] || clSends[v] {
					joined = true
				}
			}
			// or a WaitGroup: Done in the goroutine, Wait in the operation
			eachCall(cl, func(call ssa.CallInstruction) {
				if calleeFull(call) == "(*sync.WaitGroup).Done" {
					doneWG = true
				}
			})
			eachCall(f, func(call ssa.CallInstruction) {
				if calleeFull(call) == "(*sync.WaitGroup).Wait" {
					waitsWG = true
				}
			})
			if doneWG && waitsWG {
				joined = true
			}
			if joined {
				c.ok("G11", cons, g.Pos(), "the goroutine ends when the operation closes its channel and the operation waits for it before it returns")
			} else {
				c.bad("G11", cons, g.Pos(), "this goroutine writes the replication status and belongs to one call of the operation (it ends when the operation closes the channel it reads), but the operation does not wait for it: it can still be recalculating the status for the last item after the operation has returned — after a Close that follows at once the status Close has just reset is non-zero again, and a status sampled at rest changes with no operation in between")
			}
		})
	}
	c.Counts["G11:operation-scoped goroutines writing the status"] = n
}

// ---------------------------------------------------------------------------
// I11

// ruleI11: one document per key in a batch. The index keeps the first document it meets for a
// key inside one batch entry, which is right as long as a batch cannot name a key twice. The
// batch handed to an operation constructor is therefore a map keyed by document key, or a list
// whose elements are drawn from a range over a map; a list built straight from the caller's
// values can hold the same key twice, and the EARLIEST revision then wins — in the log, for
// every replica and every restart.
func (c *Ctx) ruleI11() {
	n := 0
	for _, f := range c.RepoFns {
		if c.isTestFile(f.Pos()) || f.Blocks == nil {
			continue
		}
		k := 0
		eachCall(f, func(call ssa.CallInstruction) {
			if !isOpConstructor(call) || len(call.Common().Args) < 3 {
				return
			}
			docs := call.Common().Args[2]
			switch docs.Type().Underlying().(type) {
			case *types.Map:
				if !c.isControlFn(f) {
					n++
				}
				c.ok("I11", fmt.Sprintf("%s→%s#one-document-per-key#%d", fnKey(f), call.Common().StaticCallee().Name(), k), call.Pos(), "the batch is a map keyed by document key: one document per key by construction")
				k++
				return
			case *types.Slice:
				// a value ([]byte) is not a batch
				if _, basic := docs.Type().Underlying().(*types.Slice).Elem().Underlying().(*types.Basic); basic {
					return
				}
			default:
				return
			}
			if !c.isControlFn(f) {
				n++
			}
			cons := fmt.Sprintf("%s→%s#one-document-per-key#%d", fnKey(f), call.Common().StaticCallee().Name(), k)
			k++
			// elements drawn from a range over a map?
			fromMap := false
			var seeds []ssa.Value
			eachInstr(f, func(in ssa.Instruction) {
				if r, ok := in.(*ssa.Range); ok {
					if _, isMap := r.X.Type().Underlying().(*types.Map); isMap {
						seeds = append(seeds, r)
					}
				}
			})
			if len(seeds) > 0 {
				d := derived(seeds, flowOpts{throughCalls: true})
				if d[docs] {
					fromMap = true
				}
				// the slice is usually grown by append in the loop: look at what is appended
				for _, v := range sliceSources(docs) {
					if d[v] {
						fromMap = true
					}
				}
			}
			// a parameter: the callers answer
			if p, ok := docs.(*ssa.Parameter); ok && !fromMap {
				_ = p
				c.ok("I11", cons, call.Pos(), "the batch is handed on as received: the callers of this constructor answer for it")
				return
			}
			if fromMap {
				c.ok("I11", cons, call.Pos(), "the batch list is drawn from a range over a map: one document per key")
			} else {
				c.bad("I11", cons, call.Pos(), "the batch handed to the operation is a list built from the caller's values, not from a map keyed by document key: it can name the same key twice, and inside one batch entry the index keeps the FIRST document it meets for a key — the earliest revision wins instead of the latest, in the log, for every replica and every restart")
			}
		})
	}
	c.floor("I11", "batch operations built", n, 1)
}

// sliceSources: the element values appended (or stored) into the slice v, following phis and
// append calls backwards.
func sliceSources(v ssa.Value) []ssa.Value {
	var out []ssa.Value
	seen := map[ssa.Value]bool{}
	var walk func(x ssa.Value, n int)
	walk = func(x ssa.Value, n int) {
		if x == nil || seen[x] || n > 8 {
			return
		}
		seen[x] = true
		switch y := x.(type) {
		case *ssa.Phi:
			for _, e := range y.Edges {
				walk(e, n+1)
			}
		case *ssa.Call:
			if b, ok := y.Call.Value.(*ssa.Builtin); ok && b.Name() == "append" && len(y.Call.Args) == 2 {
				walk(y.Call.Args[0], n+1)
				// the variadic tail: a slice literal holding the appended elements
				if sl, ok := y.Call.Args[1].(*ssa.Slice); ok {
					if al, ok := sl.X.(*ssa.Alloc); ok && al.Referrers() != nil {
						for _, r := range *al.Referrers() {
							if ia, ok := r.(*ssa.IndexAddr); ok && ia.Referrers() != nil {
								for _, r2 := range *ia.Referrers() {
									if st, ok := r2.(*ssa.Store); ok {
										out = append(out, st.Val)
									}
								}
							}
						}
					}
				}
			}
		case *ssa.UnOp:
			// a captured or address-taken local holding the slice
			if al, ok := y.X.(*ssa.Alloc); ok && al.Referrers() != nil {
				for _, r := range *al.Referrers() {
					if st, ok := r.(*ssa.Store); ok && st.Addr == ssa.Value(al) {
						walk(st.Val, n+1)
					}
				}
			}
		}
	}
	walk(v, 0)
	return out
}

// ---------------------------------------------------------------------------
// J4

// ruleJ4: entries only ever leave the log at load. A Join that is given a size other than the
// constant -1 keeps that many most recent entries and drops the rest: it belongs to the load
// path, where the caller asked for a limit. Reached from the path that merges a replicated
// batch or from the write path, every merge trims the log (to the MaxHistory option when the
// "no limit" of that path is resolved like Load's) and entries that were listed disappear.
func (c *Ctx) ruleJ4() {
	n := 0
	for _, f := range c.RepoFns {
		if c.isTestFile(f.Pos()) || f.Blocks == nil {
			continue
		}
		k := 0
		eachCall(f, func(call ssa.CallInstruction) {
			if !c.isLogCall(call, "Join") {
				return
			}
			a := argsOf(call)
			if len(a) < 2 {
				return
			}
			if kk, isK := constInt(a[1]); isK && kk == -1 {
				return
			}
			if !c.isControlFn(f) {
				n++
			}
			cons := fmt.Sprintf("%s→Join#%d#trims-only-at-load", fnKey(f), k)
			k++
			// the functions this trim can be reached from. While the size is a parameter handed
			// down unchanged, a caller that passes a negative constant ("no limit") does not trim
			reach := map[*ssa.Function]bool{}
			paramIdx := func(g *ssa.Function, v ssa.Value) int {
				for i, p := range g.Params {
					if ssa.Value(p) == v {
						return i
					}
				}
				return -1
			}
			var up func(g *ssa.Function, d int, idx int)
			up = func(g *ssa.Function, d int, idx int) {
				if reach[topLevel(g)] && idx < 0 || d > 4 {
					return
				}
				reach[topLevel(g)] = true
				for _, h := range c.RepoFns {
					if c.isTestFile(h.Pos()) || c.isControlFn(h) != c.isControlFn(f) {
						continue
					}
					eachCall(h, func(cs ssa.CallInstruction) {
						if cs.Common().StaticCallee() != g {
							return
						}
						next := -1
						if idx >= 0 && idx < len(cs.Common().Args) {
							arg := cs.Common().Args[idx]
							if kk, isK := constInt(arg); isK && kk < 0 {
								return // "no limit" handed down: this caller never trims
							}
							next = paramIdx(h, arg)
						}
						up(h, d+1, next)
					})
				}
			}
			up(f, 0, paramIdx(f, a[1]))
			var why string
			var names []string
			for g := range reach {
				names = append(names, fnKey(g))
			}
			sort.Strings(names)
			for g := range reach {
				for _, gg := range withClosures(g) {
					eachCall(gg, func(x ssa.CallInstruction) {
						switch {
						case c.isEmitOf(x, "stores.EventReplicated"):
							why = fnKey(g) + ", which merges a replicated batch"
						case c.isLogCall(x, "Append"):
							why = fnKey(g) + ", which appends a local write"
						}
					})
				}
			}
			if why == "" {
				c.ok("J4", cons, call.Pos(), "the trimming Join is only reached from "+strings.Join(names, ", ")+": no merge of a replicated batch and no local write goes through it")
			} else {
				c.bad("J4", cons, call.Pos(), "a Join that drops all but the most recent entries is reached from "+why+": entries only ever leave the log when a load asks for a limit — trimmed at every merge (down to the MaxHistory option when this path's \"no limit\" is resolved like Load's), entries that were listed disappear and Get by their address answers with another entry")
			}
		})
	}
	c.floor("J4", "trimming joins", n, 1)
}

// ---------------------------------------------------------------------------
// Q6

// ruleQ6: whoever retires a task asks whether the replicator is idle. The fetched logs wait in
// the buffer until the idle test passes and load-end hands them to the store; the test runs
// where a task leaves the table's active states. After every such site — a delete of a task
// entry, the assignment of a final state — every path to the return passes the idle test (in
// the function or, for a helper, in each caller). A failed fetch that "has nothing to flush"
// and returns early skips it: when it is the last of a busy period to complete, the valid logs
// fetched before it stay in the buffer, marked fetched, and are never joined.
func (c *Ctx) ruleQ6() {
	tt := c.findTaskTable()
	if tt == nil {
		return
	}
	var fns []*ssa.Function
	for _, f := range c.fnsInPkg("stores/replicator") {
		if !c.isTestFile(f.Pos()) {
			fns = append(fns, f)
		}
	}
	idle := map[*ssa.Function]bool{}
	for _, f := range c.idlePredicates(fns) {
		idle[f] = true
	}
	if len(idle) == 0 {
		c.floor("Q6", "idle tests gating load-end", 0, 1)
		return
	}
	kIdle := newKind("idle-test", func(call ssa.CallInstruction) bool { return idle[call.Common().StaticCallee()] })
	isNext := func(call ssa.CallInstruction) bool {
		h := call.Common().StaticCallee()
		return h != nil && h.Name() == "Next" && h.Signature.Recv() != nil && strings.Contains(typeStr(h.Signature.Recv().Type()), "processQueue")
	}
	emitsEnd := func(f *ssa.Function) bool {
		found := false
		eachCall(f, func(call ssa.CallInstruction) {
			if c.isEmitOf(call, "stores/replicator.EventLoadEnd") {
				found = true
			}
		})
		return found
	}
	n := 0
	for _, f := range fns {
		if f.Blocks == nil || emitsEnd(f) || idle[f] {
			continue // what load-end itself collects needs no further test
		}
		claims := false // the functions that queue an item or take it from the queue mark it active
		eachCall(f, func(call ssa.CallInstruction) {
			if isNext(call) {
				claims = true
			}
			if h := call.Common().StaticCallee(); h != nil && h.Name() == "Add" && h.Signature.Recv() != nil && strings.Contains(typeStr(h.Signature.Recv().Type()), "processQueue") {
				claims = true
			}
		})
		k := 0
		eachInstr(f, func(in ssa.Instruction) {
			retire := false
			switch x := in.(type) {
			case *ssa.MapUpdate:
				if tt.isTable(x.Map) {
					if s, ok := constInt(x.Value); ok && !tt.initial[s] && !claims {
						retire = true
					}
				}
			case *ssa.Call:
				if tt.isDelete(x) {
					retire = true
				}
			}
			if !retire {
				return
			}
			if !c.isControlFn(f) {
				n++
			}
			cons := fmt.Sprintf("%s→retire#%d→idle-test", fnKey(f), k)
			k++
			if ok, hit, tr := c.releasedAfter(f, after(in), kIdle, 0); !ok {
				c.bad("Q6", cons, hit.Pos(), "a task leaves the table here and a path to the return does not ask whether the replicator is idle (neither here nor in the callers): when this is the last task of a busy period to complete — a failed or rejected fetch finishing after the valid ones — load-end never fires for that period, and the logs already fetched stay in the buffer, marked fetched, never joined", c.trailStr(tr)...)
			} else {
				c.ok("Q6", cons, in.Pos(), "after the task is retired every path to the return passes the idle test")
			}
		})
	}
	c.floor("Q6", "task retirement sites", n, 1)
}

// ---------------------------------------------------------------------------
// J3

// positiveAt: a dominating test established v > 0 (or v >= 1) at block b.
func positiveAt(v ssa.Value, b *ssa.BasicBlock) bool {
	for _, ft := range factsAt(b) {
		x, y, op := ft.X, ft.Y, ft.Op
		if y == nil {
			continue
		}
		if x != v && y == v {
			x, y, op = y, x, swap(op)
		}
		if x != v {
			continue
		}
		k, isK := constInt(y)
		if !isK {
			continue
		}
		if (op == token.GTR && k >= 0) || (op == token.GEQ && k >= 1) {
			return true
		}
	}
	return false
}

// positiveOnEdge: the branch from block p to block to is taken only when v > 0
// (`if v <= 0 { v = -1 }` without an else: the edge that skips the assignment).
func positiveOnEdge(v ssa.Value, p, to *ssa.BasicBlock) bool {
	if len(p.Instrs) == 0 || len(p.Succs) != 2 || p.Succs[0] == p.Succs[1] {
		return false
	}
	iff, ok := p.Instrs[len(p.Instrs)-1].(*ssa.If)
	if !ok {
		return false
	}
	bo, ok := iff.Cond.(*ssa.BinOp)
	if !ok {
		return false
	}
	x, y, op := bo.X, bo.Y, bo.Op
	if x != v && y == v {
		x, y, op = y, x, swap(op)
	}
	if x != v {
		return false
	}
	k, isK := constInt(y)
	if !isK {
		return false
	}
	if to == p.Succs[1] {
		op = negate(op)
	} else if to != p.Succs[0] {
		return false
	}
	return (op == token.GTR && k >= 0) || (op == token.GEQ && k >= 1)
}

// limitNormalised: v is never zero — a non-zero constant, a value a dominating test found
// positive, or the result of a same-package function all of whose returns are.
func (c *Ctx) limitNormalised(v ssa.Value, at *ssa.BasicBlock, depth int) bool {
	if depth > 3 {
		return false
	}
	if k, isK := constInt(v); isK {
		return k != 0
	}
	if positiveAt(v, at) {
		return true
	}
	switch x := v.(type) {
	case *ssa.Phi:
		for i, e := range x.Edges {
			if i >= len(x.Block().Preds) {
				return false
			}
			p := x.Block().Preds[i]
			if positiveOnEdge(e, p, x.Block()) {
				continue
			}
			if !c.limitNormalised(e, p, depth+1) {
				return false
			}
		}
		return true
	case *ssa.Call:
		h := x.Call.StaticCallee()
		if h == nil || h.Blocks == nil || h.Pkg == nil || !inRepo(h.Pkg.Pkg) {
			return false
		}
		okAll, any := true, false
		eachInstr(h, func(in ssa.Instruction) {
			r, isRet := in.(*ssa.Return)
			if !isRet || len(r.Results) == 0 {
				return
			}
			any = true
			for _, rv := range resolveSpill(r.Results[0]) {
				if !c.limitNormalised(rv, r.Block(), depth+1) {
					okAll = false
				}
			}
		})
		return any && okAll
	}
	return false
}

// ruleJ3: a non-positive limit loads everything — it never reaches the fetcher as 0. The
// fetcher reads a length of 0 as "one entry per head" (and the trim reads it as "no limit"),
// so Load(-1) on a store whose MaxHistory option is 0 returns nil with only the newest entry
// visible. In the function that owns the limit handed to the head fetches, every value stored
// into it that may be zero is followed, on every path to the fetch, by the test that turns a
// non-positive limit into -1 (or by a store that is itself never zero).
func (c *Ctx) ruleJ3() {
	st := c.storeType()
	if st == nil {
		return
	}
	n := 0
	for _, f := range c.methodsOf(st) {
		if c.isTestFile(f.Pos()) {
			continue
		}
		top := topLevel(f)
		if top.Name() != "Load" && !strings.HasPrefix(top.Name(), "verifCtl") && !c.calledOnlyFrom(top, "Load") {
			continue
		}
		k := 0
		eachCall(f, func(call ssa.CallInstruction) {
			if calleeFull(call) != logMod+".NewFromEntryHash" {
				return
			}
			lenVal, _ := c.fetchOptField(call, "Length")
			if lenVal == nil {
				return
			}
			if k1, known := c.fetchLength(call); known && k1 == 1 {
				return
			}
			cons := fmt.Sprintf("%s→head-fetch#length-never-zero#%d", fnKey(f), k)
			k++
			// the cell that holds the limit, and the instruction of its owner that leads to the fetch
			if !c.isControlFn(f) {
				n++
			}
			c.j3Decided = nil
			cell, anchor := c.limitCell(lenVal, call, 0)
			if cell == nil && c.j3Decided != nil {
				if *c.j3Decided {
					c.ok("J3", cons, call.Pos(), "the limit is a parameter of this helper and every caller hands it a value that is never zero")
				} else {
					c.bad("J3", cons, call.Pos(), "a caller hands this helper a limit that may be 0 and it reaches the head fetch: the fetcher reads a length of 0 as one entry per head (and the trim reads it as no limit), so a load that should list everything returns nil with only the newest entry visible")
				}
				return
			}
			if cell == nil {
				// a shape this rule does not follow (the limit travels in a struct): J2 still
				// looks at the value; nothing is claimed here
				c.ok("J3", cons, call.Pos(), "the local that holds the limit could not be singled out (it travels in a struct): not judged by this rule, J2 looks at how the value is computed")
				return
			}
			g := cell.Parent()
			isNorm := func(in ssa.Instruction) bool {
				// the normalising test: a comparison of the limit with 0/1 one of whose branches
				// stores a negative constant into it
				iff, ok := in.(*ssa.If)
				if !ok {
					return false
				}
				bo, ok := iff.Cond.(*ssa.BinOp)
				if !ok {
					return false
				}
				ld, ok := bo.X.(*ssa.UnOp)
				if !ok || ld.X != ssa.Value(cell) {
					return false
				}
				for _, sc := range iff.Block().Succs {
					for _, x := range sc.Instrs {
						if s2, ok := x.(*ssa.Store); ok && s2.Addr == ssa.Value(cell) {
							if kk, isK := constInt(s2.Val); isK && kk < 0 {
								return true
							}
						}
					}
				}
				return false
			}
			var bad ssa.Instruction
			var trail []token.Pos
			eachInstr(g, func(in ssa.Instruction) {
				s, ok := in.(*ssa.Store)
				if !ok || s.Addr != ssa.Value(cell) || bad != nil {
					return
				}
				if c.limitNormalised(s.Val, s.Block(), 0) {
					return
				}
				via := func(x ssa.Instruction) bool {
					if isNorm(x) {
						return true
					}
					if s2, ok := x.(*ssa.Store); ok && s2.Addr == ssa.Value(cell) && s2 != s && c.limitNormalised(s2.Val, s2.Block(), 0) {
						return true
					}
					return false
				}
				if hit, tr := findPath(g, after(s), via, func(x ssa.Instruction) bool { return x == anchor }, nil); hit != nil {
					bad, trail = s, tr
				}
			})
			if bad != nil {
				c.bad("J3", cons, bad.Pos(), "a value that may be 0 is stored into the limit and reaches the head fetch without passing the test that turns a non-positive limit into -1: the fetcher reads a length of 0 as one entry per head (and the trim reads it as no limit), so a load that should list everything — Load(-1) on a store whose MaxHistory option is 0 — returns nil with only the newest entry visible", c.trailStr(trail)...)
			} else {
				c.ok("J3", cons, call.Pos(), "every value stored into the limit that may be zero passes the non-positive → -1 test before the head fetch")
			}
		})
	}
	c.floor("J3", "head fetches at load", n, 1)
}

// limitCell resolves the Length handed to a fetch to the local that holds the limit in the
// function that owns it, and the instruction of that function which leads to the fetch (the
// fetch itself, the go statement or the call that hands the limit on).
func (c *Ctx) limitCell(v ssa.Value, use ssa.Instruction, depth int) (*ssa.Alloc, ssa.Instruction) {
	if depth > 4 {
		return nil, nil
	}
	switch x := v.(type) {
	case *ssa.Alloc:
		// a copy made for this fetch (length := amount): follow what is copied
		if sv := uniqueStore(x); sv != nil {
			if ld, ok := sv.(*ssa.UnOp); ok && ld.Op == token.MUL {
				if c2, a2 := c.limitCell(ld.X, use, depth+1); c2 != nil {
					return c2, a2
				}
			}
			if p, ok := sv.(*ssa.Parameter); ok {
				if c2, a2 := c.limitCell(p, use, depth+1); c2 != nil {
					return c2, a2
				}
				if ok, seen := c.j3Values[p]; seen {
					c.j3Decided = &ok
					return nil, nil
				}
			}
		}
		return x, use
	case *ssa.FreeVar:
		fn := x.Parent()
		par := fn.Parent()
		if par == nil {
			return nil, nil
		}
		var out *ssa.Alloc
		var anchor ssa.Instruction
		eachInstr(par, func(in ssa.Instruction) {
			mc, ok := in.(*ssa.MakeClosure)
			if !ok || mc.Fn != ssa.Value(fn) || out != nil {
				return
			}
			for i, fv := range fn.FreeVars {
				if fv == x && i < len(mc.Bindings) {
					// the instruction that runs the literal: the go/call that uses this closure
					var user ssa.Instruction = mc
					if refs := mc.Referrers(); refs != nil && len(*refs) > 0 {
						user = (*refs)[0]
					}
					out, anchor = c.limitCell(mc.Bindings[i], user, depth+1)
				}
			}
		})
		return out, anchor
	case *ssa.Parameter:
		fn := x.Parent()
		idx := -1
		for i, p := range fn.Params {
			if p == x {
				idx = i
			}
		}
		if idx < 0 {
			return nil, nil
		}
		var out *ssa.Alloc
		var anchor ssa.Instruction
		for _, g := range c.RepoFns {
			if c.isTestFile(g.Pos()) || out != nil {
				continue
			}
			eachCall(g, func(cs ssa.CallInstruction) {
				if out != nil || cs.Common().StaticCallee() != fn || idx >= len(cs.Common().Args) {
					return
				}
				a := cs.Common().Args[idx]
				if ld, ok := a.(*ssa.UnOp); ok && ld.Op == token.MUL {
					a = ld.X
				}
				out, anchor = c.limitCell(a, cs, depth+1)
				if out == nil {
					// a plain value, not a local whose address is taken: judged where it is handed over
					if c.j3Values == nil {
						c.j3Values = map[*ssa.Parameter]bool{}
					}
					ok, seen := c.j3Values[x]
					now := c.limitNormalised(cs.Common().Args[idx], cs.Block(), 0)
					if !seen {
						ok = true
					}
					c.j3Values[x] = ok && now
				}
			})
		}
		return out, anchor
	}
	return nil, nil
}

// ---------------------------------------------------------------------------
// G12

// isPeerRead: a call that waits for bytes from a reader (io.ReadFull and friends, bufio and
// binary readers, a Read method).
func isPeerRead(call ssa.CallInstruction) bool {
	switch calleeFull(call) {
	case "io.ReadFull", "io.ReadAtLeast", "io.ReadAll", "io.Copy", "io.CopyN", "encoding/binary.Read", "encoding/binary.ReadUvarint", "encoding/binary.ReadVarint":
		return true
	}
	if g := call.Common().StaticCallee(); g != nil && g.Signature.Recv() != nil && typeStr(g.Signature.Recv().Type()) == "*bufio.Reader" && (strings.HasPrefix(g.Name(), "Read") || g.Name() == "Peek") {
		return true
	}
	return call.Common().IsInvoke() && methodName(call) == "Read"
}

// ruleG12: a slot shared by every peer is not held while waiting for one peer's bytes. In a
// function that serves a network stream, no read from the stream is reachable between taking a
// slot (a counting semaphore, a token channel) and giving it back. A frame that announces its
// length and then stops — the stream left open — holds its slot for ever; as many such frames
// as there are slots and every later message from every peer waits for ever.
func (c *Ctx) ruleG12() {
	n, nStreamFns := 0, 0
	for _, f := range c.RepoFns {
		if c.isTestFile(f.Pos()) || f.Blocks == nil || f.Parent() != nil {
			continue
		}
		// serves a stream: a parameter or a value of the libp2p stream type
		serves := false
		for _, g := range withClosures(f) {
			for _, p := range g.Params {
				if strings.HasSuffix(typeStr(p.Type()), "network.Stream") {
					serves = true
				}
			}
		}
		if !serves {
			continue
		}
		if !c.isControlFn(f) {
			nStreamFns++
		}
		for _, g := range withClosures(f) {
			k := 0
			eachInstr(g, func(in ssa.Instruction) {
				op := resourceOp(in)
				if op == nil || !op.acquire {
					return
				}
				if !c.isControlFn(f) {
					n++
				}
				cons := fmt.Sprintf("%s→acquire(%s)#%d#not-held-across-peer-read", fnKey(g), op.res, k)
				k++
				rel := func(x ssa.Instruction) bool {
					o := resourceOp(x)
					if o != nil && !o.acquire && o.res == op.res {
						return true
					}
					// released by a function literal called here (not deferred: a deferred
					// release runs at the return, after the read)
					if call, ok := x.(ssa.CallInstruction); ok {
						if _, isDefer := x.(*ssa.Defer); isDefer {
							return false
						}
						if mc, ok := call.Common().Value.(*ssa.MakeClosure); ok {
							if lit, ok := mc.Fn.(*ssa.Function); ok {
								found := false
								eachInstr(lit, func(y ssa.Instruction) {
									if o := resourceOp(y); o != nil && !o.acquire && o.res == op.res {
										found = true
									}
								})
								return found
							}
						}
					}
					return false
				}
				read := func(x ssa.Instruction) bool {
					call, ok := x.(ssa.CallInstruction)
					if !ok {
						return false
					}
					if _, isDefer := x.(*ssa.Defer); isDefer {
						return false
					}
					return isPeerRead(call)
				}
				// findPath evaluates deferred calls at the return, so a deferred release does not
				// shield a read that comes before the return
				if hit, tr := findPath(g, after(in), rel, read, nil); hit != nil {
					c.bad("G12", cons, hit.Pos(), "a slot shared by all peers is held while this function waits for bytes from one peer's stream: a frame that announces a length and then stops, its stream left open, keeps the slot for ever — as many such frames as there are slots and every later frame from every peer (and the honest sender's Send) waits for ever", c.trailStr(tr)...)
				} else {
					c.ok("G12", cons, in.Pos(), "the slot is given back before anything is read from the stream")
				}
			})
		}
	}
	c.Counts["G12:slot acquisitions in stream handlers"] = n
	c.floor("G12", "functions serving a network stream", nStreamFns, 1)
}

// ---------------------------------------------------------------------------
// G13

// ruleG13: Close does not wait for a fetch. A lock that some operation holds across a fetch of
// log history (it waits for blocks, under the CALLER's context, which Close does not cancel) is
// not taken by Close or by what Close calls: otherwise a Close issued while a Load is waiting
// for a block that does not arrive blocks for as long as the fetch does — half-way, with the
// store already marked closed, so that a second Close returns nil as if all were released.
func (c *Ctx) ruleG13() {
	st := c.storeType()
	if st == nil {
		return
	}
	isFetch := func(call ssa.CallInstruction) bool {
		switch calleeFull(call) {
		case logMod + ".NewFromEntryHash", logMod + ".NewFromJSON", logMod + ".NewFromMultihash", logMod + ".NewFromEntry":
			return true
		}
		return false
	}
	// locks held across a fetch, anywhere in the store's package
	held := map[string]string{} // class -> where
	for _, f := range c.fnsInPkg("stores/basestore") {
		if c.isTestFile(f.Pos()) || c.isControlFn(f) || f.Blocks == nil {
			continue
		}
		var ls map[ssa.Instruction]lockset
		eachCall(f, func(call ssa.CallInstruction) {
			if !isFetch(call) {
				return
			}
			if ls == nil {
				ls = c.locksetsOf(f)
			}
			for cls := range ls[call] {
				held[cls] = fnKey(f)
			}
			for cls := range c.entryLocks(f, 0) {
				held[cls] = fnKey(f)
			}
		})
	}
	closeFn := c.methodOf(st, "Close")
	if closeFn == nil || closeFn.Blocks == nil {
		c.floor("G13", "store Close", 0, 1)
		return
	}
	// lock acquisitions of Close and of the same-package functions it calls (three levels)
	type acq struct {
		in  ssa.Instruction
		cls string
		via string
	}
	var acqs []acq
	seen := map[*ssa.Function]bool{}
	var walk func(f *ssa.Function, d int, via string)
	walk = func(f *ssa.Function, d int, via string) {
		if f == nil || f.Blocks == nil || seen[f] || d > 3 {
			return
		}
		seen[f] = true
		for _, g := range withClosures(f) {
			eachInstr(g, func(in ssa.Instruction) {
				if op := lockOpOf(in); op != nil && (op.kind == "Lock" || op.kind == "RLock") {
					acqs = append(acqs, acq{in, op.class, via})
				}
				if call, ok := in.(ssa.CallInstruction); ok {
					if _, isGo := in.(*ssa.Go); isGo {
						return
					}
					if h := call.Common().StaticCallee(); h != nil && h.Pkg == closeFn.Pkg {
						walk(h, d+1, via+"→"+h.Name())
					}
				}
			})
		}
	}
	walk(closeFn, 0, "Close")
	cons := fnKey(closeFn) + "#no-lock-held-across-a-fetch"
	for _, a := range acqs {
		if where, ok := held[a.cls]; ok {
			c.bad("G13", cons, a.in.Pos(), fmt.Sprintf("Close (%s) takes %s, which %s holds across a fetch of log history: the fetch waits for blocks under its caller's context, which Close does not cancel, so a Close issued while a load is waiting for a block blocks as long as the fetch does — with the store already marked closed, the cache and its directory lock still open, and a second Close returning nil", a.via, a.cls, where))
			return
		}
	}
	var hs []string
	for cls := range held {
		hs = append(hs, cls)
	}
	sort.Strings(hs)
	c.ok("G13", cons, closeFn.Pos(), fmt.Sprintf("none of the %d lock acquisition(s) reachable from Close is of a lock held across a fetch (%s)", len(acqs), strings.Join(hs, ", ")))
}

// ---------------------------------------------------------------------------
// M7

// isSerialise: a call that turns a value into bytes that are content-addressed or compared.
func isSerialise(call ssa.CallInstruction) bool {
	switch calleeFull(call) {
	case "encoding/json.Marshal", "github.com/ipfs/go-ipld-cbor.WrapObject", "github.com/ipfs/go-ipld-cbor.DumpObject", "github.com/polydawn/refmt/cbor.Marshal":
		return true
	}
	g := call.Common().StaticCallee()
	return g != nil && (g.Name() == "WriteCBOR" || g.Name() == "CreateDBManifest")
}

// ruleM7: what goes into content-addressed data does not depend on map iteration order. In the
// access-controller packages a list that is built by appending inside a range over a map, and
// not sorted afterwards, is not stored into a field that the package serialises (the write
// list a controller saves): the same inputs would give different bytes, hence different
// controller addresses and different database addresses, on two peers or on one peer asked twice.
func (c *Ctx) ruleM7() {
	n := 0
	for _, pkg := range []string{"accesscontroller/ipfs", "accesscontroller/orbitdb", "accesscontroller/simple", "accesscontroller/utils", "accesscontroller/base", "utils"} {
		fns := c.fnsInPkg(pkg)
		// fields this package serialises
		serialised := map[*types.Var]bool{}
		for _, f := range fns {
			if c.isTestFile(f.Pos()) || f.Blocks == nil {
				continue
			}
			var loads []ssa.Value
			byVal := map[ssa.Value]*types.Var{}
			eachInstr(f, func(in ssa.Instruction) {
				if u, ok := in.(*ssa.UnOp); ok && u.Op == token.MUL {
					if fa, ok := u.X.(*ssa.FieldAddr); ok {
						loads = append(loads, u)
						byVal[u] = fieldVarOf(fa)
					}
				}
			})
			if len(loads) == 0 {
				continue
			}
			eachCall(f, func(call ssa.CallInstruction) {
				if !isSerialise(call) {
					return
				}
				for _, l := range loads {
					d := derived([]ssa.Value{l}, flowOpts{throughCalls: true})
					for _, a := range call.Common().Args {
						if d[a] || a == l {
							serialised[byVal[l]] = true
						}
					}
				}
			})
		}
		for _, f := range fns {
			if c.isTestFile(f.Pos()) || f.Blocks == nil {
				continue
			}
			// values drawn from a range over a map
			var seeds []ssa.Value
			eachInstr(f, func(in ssa.Instruction) {
				if r, ok := in.(*ssa.Range); ok {
					if _, isMap := r.X.Type().Underlying().(*types.Map); isMap {
						seeds = append(seeds, r)
					}
				}
			})
			dm := map[ssa.Value]bool{}
			if len(seeds) > 0 {
				dm = derived(seeds, flowOpts{throughCalls: true})
			}
			k := 0
			eachInstr(f, func(in ssa.Instruction) {
				// a store of a slice into a serialised field (assignment or composite literal)
				st, ok := in.(*ssa.Store)
				if !ok {
					return
				}
				fa, ok := st.Addr.(*ssa.FieldAddr)
				if !ok || !serialised[fieldVarOf(fa)] {
					return
				}
				if _, isSlice := st.Val.Type().Underlying().(*types.Slice); !isSlice {
					return
				}
				if !c.isControlFn(f) {
					n++
				}
				cons := fmt.Sprintf("%s→%s#order-independent#%d", fnKey(f), fieldVarOf(fa).Name(), k)
				k++
				fromMap := dm[st.Val]
				for _, v := range sliceSources(st.Val) {
					if dm[v] {
						fromMap = true
					}
				}
				// appended slices (append(s, ids...)): the variadic operand itself
				var walk func(v ssa.Value, d int)
				walk = func(v ssa.Value, d int) {
					if v == nil || d > 6 {
						return
					}
					switch y := v.(type) {
					case *ssa.Phi:
						for _, e := range y.Edges {
							walk(e, d+1)
						}
					case *ssa.Call:
						if b, ok := y.Call.Value.(*ssa.Builtin); ok && b.Name() == "append" && len(y.Call.Args) == 2 {
							if dm[y.Call.Args[1]] {
								fromMap = true
							}
							walk(y.Call.Args[0], d+1)
						}
					}
				}
				walk(st.Val, 0)
				if !fromMap {
					c.ok("M7", cons, st.Pos(), "the list stored for serialisation is not built from a range over a map")
					return
				}
				sorted := false
				ds := derived([]ssa.Value{st.Val}, flowOpts{})
				eachCall(f, func(call ssa.CallInstruction) {
					full := calleeFull(call)
					if strings.HasPrefix(full, "sort.") || strings.HasPrefix(full, "slices.Sort") {
						for _, a := range call.Common().Args {
							if a == st.Val || ds[a] {
								sorted = true
							}
							if mi, ok := a.(*ssa.MakeInterface); ok && (mi.X == st.Val || ds[mi.X]) {
								sorted = true
							}
						}
					}
				})
				if sorted {
					c.ok("M7", cons, st.Pos(), "the list is drawn from a map and sorted before it is stored")
				} else {
					c.bad("M7", cons, st.Pos(), "a list that this package serialises into content-addressed data is built by appending inside a range over a map and is not sorted: its order changes from run to run, so the same inputs give different controller addresses and different database addresses — on two peers, and on one peer asked twice; Create of the same database is then no longer refused")
				}
			})
		}
	}
	c.Counts["M7:lists stored for serialisation"] = n
	if n == 0 {
		// the write list is reached through accessors this rule does not follow: nothing is claimed
		c.ok("M7", "no-list-stored-for-serialisation-found", 0, "no assignment of a list to a field that is serialised was singled out (the field is reached through accessors): not judged")
	}
}

// ---------------------------------------------------------------------------
// G14

// ruleG14: Stop ends the fetches in flight. The replicator's Stop cancels a context of its
// own (a field of context type); a fetch started by a request runs under the REQUEST's
// context — the instance's, the user's — which Close does not cancel. In the exported
// function that starts the workers, the context handed on to them is derived from a call to a
// same-package function that reads that field (the request context bound to the replicator's
// own), not the request context as it came in.
func (c *Ctx) ruleG14() {
	fns := c.fnsInPkg("stores/replicator")
	readsRootCtx := func(h *ssa.Function) bool {
		found := false
		for _, g := range withClosures(h) {
			eachInstr(g, func(in ssa.Instruction) {
				if fa, ok := in.(*ssa.FieldAddr); ok {
					if strings.HasSuffix(typeStr(fieldVarOf(fa).Type()), "context.Context") {
						found = true
					}
				}
			})
		}
		return found
	}
	isFetch := func(call ssa.CallInstruction) bool { return calleeFull(call) == logMod+".NewFromEntryHash" }
	// the fetch may be many helpers below the entry point (worker, item loop, fetch step, …)
	memo := map[*ssa.Function]int{}
	var reaches func(h *ssa.Function, d int) bool
	reaches = func(h *ssa.Function, d int) bool {
		if h == nil || h.Blocks == nil || d > 8 {
			return false
		}
		switch memo[h] {
		case 1:
			return false
		case 2:
			return true
		}
		memo[h] = 1
		found := false
		for _, g := range withClosures(h) {
			eachCall(g, func(call ssa.CallInstruction) {
				if found {
					return
				}
				if isFetch(call) {
					found = true
					return
				}
				if x := call.Common().StaticCallee(); x != nil && x.Pkg == h.Pkg {
					if reaches(topLevel(x), d+1) {
						found = true
					}
				}
			})
		}
		if found {
			memo[h] = 2
		} else {
			memo[h] = 0
		}
		return found
	}
	n := 0
	for _, f := range fns {
		if c.isTestFile(f.Pos()) || f.Parent() != nil || f.Blocks == nil || f.Object() == nil || !f.Object().Exported() {
			continue
		}
		// a request entry point: takes a context and starts goroutines that reach the fetch
		var ctxParam *ssa.Parameter
		for _, p := range f.Params {
			if strings.HasSuffix(typeStr(p.Type()), "context.Context") {
				ctxParam = p
			}
		}
		if ctxParam == nil || !reaches(f, 0) {
			continue
		}
		if !c.isControlFn(f) {
			n++
		}
		cons := fnKey(f) + "#fetches-end-with-Stop"
		// contexts bound to the replicator's own
		var bound []ssa.Value
		raw0 := derived([]ssa.Value{ctxParam}, flowOpts{throughCalls: true})
		eachCall(f, func(call ssa.CallInstruction) {
			h := call.Common().StaticCallee()
			if h != nil && h.Blocks != nil && h.Pkg == f.Pkg && call.Value() != nil && readsRootCtx(h) {
				takes := false
				for _, a := range call.Common().Args {
					if a == ssa.Value(ctxParam) || (raw0[a] && strings.HasSuffix(typeStr(a.Type()), "context.Context")) {
						takes = true
					}
				}
				if takes {
					bound = append(bound, call.Value())
				}
			}
		})
		d := derived(bound, flowOpts{intoClosures: true, throughCalls: true})
		raw := derived([]ssa.Value{ctxParam}, flowOpts{intoClosures: true, throughCalls: true})
		var badAt ssa.Instruction
		for _, g := range withClosures(f) {
			eachCall(g, func(call ssa.CallInstruction) {
				h := call.Common().StaticCallee()
				if h == nil || h.Blocks == nil || h.Pkg != f.Pkg || !reaches(topLevel(h), 0) || badAt != nil {
					return
				}
				for _, a := range call.Common().Args {
					if !strings.HasSuffix(typeStr(a.Type()), "context.Context") {
						continue
					}
					if raw[a] && !d[a] {
						badAt = call
					}
				}
			})
		}
		switch {
		case len(bound) == 0:
			c.bad("G14", cons, f.Pos(), "the request's context is handed to the fetch workers as it came in, not bound to the replicator's own: Stop (which Close calls) cancels only the replicator's context, so a fetch already running — under the instance's or the user's context — keeps going after the store is closed, until that other context ends")
		case badAt != nil:
			c.bad("G14", cons, badAt.Pos(), "a worker is started with the request's context as it came in although a context bound to the replicator's own was made: Stop does not end that fetch")
		default:
			c.ok("G14", cons, f.Pos(), "the workers run under the request's context bound to the replicator's own, which Stop cancels")
		}
	}
	c.floor("G14", "replicator request entry points", n, 1)
}
