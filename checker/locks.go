package main

import (
	"go/types"
	"sort"
	"strings"

	"golang.org/x/tools/go/ssa"
)

// lock operations are recognised on sync.Mutex, sync.RWMutex and sync.Locker values.
// A lock class is the normal form of the receiver expression with the root variable
// replaced by its type ("(*T).mu"), so that the same field reached through different
// variables of the same type is one class (sound for the aliasing that matters here:
// w.manager.muCaches vs l.muCaches).

type lockOp struct {
	class string
	inst  string // instance-level normal form (root variable kept)
	kind  string // "Lock", "RLock", "Unlock", "RUnlock"
}

func lockOpOf(in ssa.Instruction) *lockOp {
	call, ok := in.(ssa.CallInstruction)
	if !ok {
		return nil
	}
	name := methodName(call)
	switch name {
	case "Lock", "RLock", "Unlock", "RUnlock":
	default:
		return nil
	}
	full := calleeFull(call)
	if !strings.HasPrefix(full, "(*sync.Mutex).") && !strings.HasPrefix(full, "(*sync.RWMutex).") && !strings.HasPrefix(full, "(sync.Locker).") {
		return nil
	}
	r := recvOf(call)
	if r == nil {
		return nil
	}
	return &lockOp{class: lockClass(r), inst: nf(r), kind: name}
}

// lockClass: (owning struct type).field of a mutex expression — the innermost field hop.
// A mutex held in a local variable is identified by the variable.
func lockClass(v ssa.Value) string {
	for {
		switch x := v.(type) {
		case *ssa.FieldAddr:
			return ownerType(x.X.Type()) + "." + fieldName(x.X.Type(), x.Field)
		case *ssa.Field:
			return ownerType(x.X.Type()) + "." + fieldName(x.X.Type(), x.Field)
		case *ssa.UnOp:
			v = x.X
			continue
		case *ssa.ChangeInterface:
			v = x.X
			continue
		case *ssa.MakeInterface:
			v = x.X
			continue
		case *ssa.FreeVar:
			return "local:" + x.Name()
		case *ssa.Alloc:
			return "local:" + x.Comment
		}
		return "value:" + v.Name()
	}
}

func ownerType(t types.Type) string {
	if p, ok := t.Underlying().(*types.Pointer); ok {
		t = p.Elem()
	}
	return strings.ReplaceAll(typeStr(t), repoMod+"/", "")
}

type lockset map[string]string // class -> mode ("W" or "R")

func (l lockset) clone() lockset {
	o := lockset{}
	for k, v := range l {
		o[k] = v
	}
	return o
}

func (l lockset) String() string {
	var ks []string
	for k, v := range l {
		ks = append(ks, k+":"+v)
	}
	sort.Strings(ks)
	return strings.Join(ks, ",")
}

func meet(a, b lockset) lockset {
	o := lockset{}
	for k, v := range a {
		if w, ok := b[k]; ok {
			if v == w {
				o[k] = v
			} else {
				o[k] = "R"
			}
		}
	}
	return o
}

func equalLS(a, b lockset) bool {
	if len(a) != len(b) {
		return false
	}
	for k, v := range a {
		if b[k] != v {
			return false
		}
	}
	return true
}

// locksets computes, for every instruction of f, the set of lock classes held on EVERY path
// reaching it (forward must-analysis; entry lockset empty; deferred unlocks keep the lock held
// to the end of the function).
func locksets(f *ssa.Function) map[ssa.Instruction]lockset {
	in := map[*ssa.BasicBlock]lockset{}
	out := map[*ssa.BasicBlock]lockset{}
	if len(f.Blocks) == 0 {
		return nil
	}
	transfer := func(b *ssa.BasicBlock, s lockset, rec map[ssa.Instruction]lockset) lockset {
		s = s.clone()
		for _, ins := range b.Instrs {
			if rec != nil {
				rec[ins] = s.clone()
			}
			if _, isDefer := ins.(*ssa.Defer); isDefer {
				continue
			}
			if _, isGo := ins.(*ssa.Go); isGo {
				continue
			}
			if op := lockOpOf(ins); op != nil {
				switch op.kind {
				case "Lock":
					s[op.class] = "W"
				case "RLock":
					s[op.class] = "R"
				case "Unlock", "RUnlock":
					delete(s, op.class)
				}
			}
		}
		return s
	}
	in[f.Blocks[0]] = lockset{}
	work := []*ssa.BasicBlock{f.Blocks[0]}
	seen := map[*ssa.BasicBlock]bool{}
	for len(work) > 0 {
		b := work[0]
		work = work[1:]
		o := transfer(b, in[b], nil)
		if prev, ok := out[b]; ok && equalLS(prev, o) && seen[b] {
			continue
		}
		seen[b] = true
		out[b] = o
		for _, s := range b.Succs {
			var ni lockset
			if cur, ok := in[s]; ok {
				ni = meet(cur, o)
				if equalLS(ni, cur) && seen[s] {
					continue
				}
			} else {
				ni = o.clone()
			}
			in[s] = ni
			work = append(work, s)
		}
	}
	rec := map[ssa.Instruction]lockset{}
	for _, b := range f.Blocks {
		if s, ok := in[b]; ok {
			transfer(b, s, rec)
		}
	}
	return rec
}
