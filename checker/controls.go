package main

import (
	"embed"
	"io/fs"
	"path/filepath"
	"strings"
)

// Positive and negative controls are tiny functions laid over the repo packages at load
// time (packages.Config.Overlay): they are type-checked against the real types, go through
// the same role resolution and rules as the real code, and are named verifCtlBad*/verifCtlGood*.
// A rule must report every Bad control and stay silent on every Good one, or the check fails.
// Nothing is written to /repo.
//
//go:embed controls
var controlFS embed.FS

func controlOverlay(repo string) map[string][]byte {
	out := map[string][]byte{}
	_ = fs.WalkDir(controlFS, "controls", func(p string, d fs.DirEntry, err error) error {
		if err != nil || d.IsDir() || !strings.HasSuffix(p, ".go.txt") {
			return nil
		}
		b, err := controlFS.ReadFile(p)
		if err != nil {
			return nil
		}
		rel := strings.TrimPrefix(p, "controls/")
		dir, base := filepath.Split(rel)
		name := "zz_verif_ctl_" + strings.TrimSuffix(base, ".txt")
		out[filepath.Join(repo, dir, name)] = b
		return nil
	})
	return out
}
