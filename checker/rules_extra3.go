package main

import (
	"fmt"
	"go/token"
	"go/types"
	"strings"

	"golang.org/x/tools/go/ssa"
)

// rulesExtra3: rules added after the third round of independently seeded changes.
//
//	M4 — a controller that loads its write list from IPFS assigns the decoded list on every
//	     successful path of Load; the manifest resolved from IPFS takes nothing from the
//	     opener's parameters
//	M5 — address values are only built by the parsing constructor
//	X4 — the membership snapshot is replaced on every successful path of the diff
//	B6 — no per-store closure is written back into the caller's options so that it wraps
//	     the previous value of the same field
//	G8 — Close (past its guard) reaches cancel, Replicator.Stop and the cache Close on EVERY path
func rulesExtra3(c *Ctx) {
	c.ruleM4()
	c.ruleM5()
	c.ruleX4()
	c.ruleB6()
	c.ruleG8()
	c.ruleG9()
	c.ruleP5()
}

func successNil(in ssa.Instruction) bool {
	r, ok := in.(*ssa.Return)
	return ok && !isFailureReturn(r)
}

func (c *Ctx) ruleM4() {
	n := 0
	for _, nt := range c.acImpls() {
		f := c.methodOf(nt, "Load")
		if f == nil || f.Blocks == nil {
			continue
		}
		isRead := func(call ssa.CallInstruction) bool {
			return strings.HasSuffix(calleeFull(call), "go-ipfs-log/io.ReadCBOR")
		}
		var reads []ssa.Value
		eachCall(f, func(call ssa.CallInstruction) {
			if isRead(call) && call.Value() != nil {
				reads = append(reads, call.Value())
				return
			}
			// a same-package "read and decode into" helper: what it is given to fill is what was read
			if h := call.Common().StaticCallee(); h != nil && h.Blocks != nil && h.Pkg == f.Pkg && c.reachesStatic(h, isRead, 0) {
				for _, a := range call.Common().Args {
					if _, isPtr := a.Type().Underlying().(*types.Pointer); isPtr {
						reads = append(reads, strip(a))
					}
					if mi, ok := a.(*ssa.MakeInterface); ok {
						if _, isPtr := mi.X.Type().Underlying().(*types.Pointer); isPtr {
							reads = append(reads, mi.X)
						}
					}
				}
			}
		})
		if len(reads) == 0 {
			continue
		}
		if !strings.Contains(relType(nt), "verifCtl") {
			n++
		}
		cons := relType(nt) + ".Load#assigns-decoded-list"
		d := derived(reads, flowOpts{throughCalls: true})
		assign := func(in ssa.Instruction) bool {
			if st, ok := in.(*ssa.Store); ok {
				if !d[st.Val] {
					return false
				}
				fa, ok := st.Addr.(*ssa.FieldAddr)
				return ok && isRecv(f, fa.X)
			}
			// a setter of the same controller given the decoded list
			call, ok := in.(*ssa.Call)
			if !ok {
				return false
			}
			h := call.Call.StaticCallee()
			if h == nil || h.Blocks == nil || h.Signature.Recv() == nil || len(call.Call.Args) == 0 || !isRecv(f, call.Call.Args[0]) {
				return false
			}
			for i, a := range call.Call.Args {
				if i == 0 || !d[a] || i >= len(h.Params) {
					continue
				}
				dp := derived([]ssa.Value{h.Params[i]}, flowOpts{})
				sets := func(x ssa.Instruction) bool {
					st, ok := x.(*ssa.Store)
					if !ok || !dp[st.Val] {
						return false
					}
					fa, ok := st.Addr.(*ssa.FieldAddr)
					return ok && isRecv(h, fa.X)
				}
				anyRet := func(x ssa.Instruction) bool { _, ok := x.(*ssa.Return); return ok }
				has := false
				eachInstr(h, func(x ssa.Instruction) {
					if sets(x) {
						has = true
					}
				})
				if hit, _ := findPath(h, entry, sets, anyRet, nil); has && hit == nil {
					return true
				}
			}
			return false
		}
		if hit, tr := findPath(f, entry, assign, successNil, nil); hit != nil {
			c.bad("M4", cons, hit.Pos(), "Load of this access controller can report success without replacing its write list by the one decoded from the address it was asked to load: the store opened from an address then keeps whatever list the controller was constructed with (for instance one supplied by the opener) instead of the one recorded at creation", c.trailStr(tr)...)
		} else {
			c.ok("M4", cons, f.Pos(), "every successful Load assigns the write list decoded from IPFS")
		}
	}
	c.floor("M4", "access controllers loading their list from IPFS", n, 1)
	// the manifest resolved from IPFS is not mixed with the opener's parameters
	m := 0
	for _, f := range c.fnsInPkg("accesscontroller") {
		if c.isTestFile(f.Pos()) || f.Parent() != nil {
			continue
		}
		isDecode := func(call ssa.CallInstruction) bool {
			return strings.HasSuffix(calleeFull(call), "go-ipld-cbor.DecodeInto")
		}
		// a decode here, or a call to a same-package reader that decodes and returns the manifest
		var decodes []ssa.CallInstruction
		targets := map[ssa.CallInstruction]ssa.Value{}
		eachCall(f, func(call ssa.CallInstruction) {
			if isDecode(call) {
				decodes = append(decodes, call)
				targets[call] = strip(call.Common().Args[len(call.Common().Args)-1])
				return
			}
			if h := call.Common().StaticCallee(); h != nil && h.Blocks != nil && h.Pkg == f.Pkg && h != f && call.Value() != nil && c.reachesStatic(h, isDecode, 0) {
				decodes = append(decodes, call)
				targets[call] = call.Value()
			}
		})
		var paramsP *ssa.Parameter
		for _, p := range f.Params {
			if strings.HasSuffix(typeStr(p.Type()), "accesscontroller.ManifestParams") {
				paramsP = p
			}
		}
		if len(decodes) == 0 {
			continue
		}
		m++
		cons := fnKey(f) + "#decoded-manifest-untouched"
		if paramsP == nil {
			c.ok("M4", cons, f.Pos(), "the function that decodes the manifest is not given the opener's parameters at all")
			continue
		}
		dp := derived([]ssa.Value{paramsP}, flowOpts{throughCalls: true})
		bad := false
		for _, dc := range decodes {
			dm := derived([]ssa.Value{targets[dc]}, flowOpts{throughCalls: true})
			// after the decode: stores into the decoded object, or setter calls on it, of opener-derived values
			reach := func(in ssa.Instruction) bool {
				switch x := in.(type) {
				case *ssa.Store:
					if fa, ok := x.Addr.(*ssa.FieldAddr); ok && dm[fa.X] && dp[x.Val] {
						return true
					}
				case *ssa.Call:
					if strings.HasPrefix(methodName(x), "Set") {
						if r := recvOf(x); r != nil && dm[r] {
							for _, a := range argsOf(x) {
								if dp[a] {
									return true
								}
							}
						}
					}
				}
				return false
			}
			if hit, _ := findPath(f, after(dc), nil, reach, nil); hit != nil {
				bad = true
				c.bad("M4", cons, hit.Pos(), "after decoding the manifest stored at the address, values taken from the OPENER's parameters (name, access lists) are written into it: the controller built from that manifest reflects what the opener asked for, not what was recorded when the database was created")
			}
		}
		if !bad {
			c.ok("M4", cons, f.Pos(), "the manifest decoded from IPFS is returned as decoded")
		}
	}
	c.floor("M4", "manifest resolvers", m, 1)
}

// fromSplit: v (a value of function f) derives from strings.Split of a string: directly, through
// a repo helper that returns pieces of a split, or — when v derives from a parameter of f —
// at every static call site of f.
func (c *Ctx) fromSplit(v ssa.Value, f *ssa.Function, depth int) bool {
	if depth > 3 {
		return false
	}
	var seeds []ssa.Value
	eachCall(f, func(call ssa.CallInstruction) {
		if call.Value() == nil {
			return
		}
		if calleeFull(call) == "strings.Split" {
			seeds = append(seeds, call.Value())
			return
		}
		// a helper whose results derive from a split inside it
		if h := call.Common().StaticCallee(); h != nil && h.Blocks != nil && h.Pkg != nil && inRepo(h.Pkg.Pkg) && h != f {
			splitsInside := false
			eachInstr(h, func(in ssa.Instruction) {
				r, ok := in.(*ssa.Return)
				if !ok {
					return
				}
				for _, rv := range r.Results {
					if c.fromSplit(rv, h, depth+1) {
						splitsInside = true
					}
				}
			})
			if splitsInside {
				seeds = append(seeds, call.Value())
			}
		}
	})
	if len(seeds) > 0 && derived(seeds, flowOpts{throughCalls: true})[v] {
		return true
	}
	// through a parameter
	for i, p := range f.Params {
		if !derived([]ssa.Value{p}, flowOpts{throughCalls: true})[v] {
			continue
		}
		sites := 0
		okAll := true
		for _, g := range c.RepoFns {
			if c.isTestFile(g.Pos()) {
				continue
			}
			eachCall(g, func(call ssa.CallInstruction) {
				if call.Common().StaticCallee() != f || i >= len(call.Common().Args) {
					return
				}
				sites++
				if !c.fromSplit(call.Common().Args[i], g, depth+1) {
					okAll = false
				}
			})
		}
		if sites > 0 && okAll {
			return true
		}
	}
	return false
}

func (c *Ctx) ruleM5() {
	p := c.repoPkg("address")
	if p == nil {
		c.floor("M5", "address package", 0, 1)
		return
	}
	// the concrete type implementing address.Address
	var impl *types.Named
	for _, n := range c.implementers(repoMod + "/address.Address") {
		if n.Obj().Pkg() == p.Types {
			impl = n
		}
	}
	if impl == nil {
		c.floor("M5", "address implementation", 0, 1)
		return
	}
	n := 0
	for _, f := range c.RepoFns {
		if c.isTestFile(f.Pos()) {
			continue
		}
		eachInstr(f, func(in ssa.Instruction) {
			al, ok := in.(*ssa.Alloc)
			if !ok {
				return
			}
			pt, ok := al.Type().(*types.Pointer)
			if !ok {
				return
			}
			nt, ok := pt.Elem().(*types.Named)
			if !ok || nt.Obj() != impl.Obj() {
				return
			}
			n++
			cons := fnKey(f) + "→new(" + impl.Obj().Name() + ")"
			// the path field must come from splitting/joining the textual form (normalised), i.e.
			// derive from strings.Split / strings.Join of an input string
			okPath := false
			for name, v := range structLitFields(al) {
				if name == "path" && c.fromSplit(v, f, 0) {
					okPath = true
				}
			}
			if okPath {
				c.ok("M5", cons, al.Pos(), "the address is built by the parsing constructor (path taken from the split textual form)")
			} else {
				c.bad("M5", cons, al.Pos(), "an address value is built without going through the parser: its path is stored as given, while String() prints a cleaned path — for names with '.', '..', empty or trailing segments the printed address no longer parses back to the same root and path (and names that used to be refused are accepted)")
			}
		})
	}
	c.floor("M5", "address constructions", n, 1)
}

// setterStore: the call hands a value of d to a method of the same package that stores that
// parameter into a field of its receiver; returns the field.
func setterStore(call ssa.CallInstruction, d map[ssa.Value]bool) *types.Var {
	if _, isGo := call.(*ssa.Go); isGo {
		return nil
	}
	h := call.Common().StaticCallee()
	if h == nil || h.Blocks == nil || h.Signature.Recv() == nil {
		return nil
	}
	var out *types.Var
	for i, a := range call.Common().Args {
		if !d[a] || i >= len(h.Params) || i == 0 {
			continue
		}
		p := h.Params[i]
		eachInstr(h, func(in ssa.Instruction) {
			st, ok := in.(*ssa.Store)
			if !ok || st.Val != ssa.Value(p) {
				return
			}
			if fa, ok := st.Addr.(*ssa.FieldAddr); ok && isRecv(h, fa.X) {
				out = fieldVarOf(fa)
			}
		})
	}
	return out
}

func (c *Ctx) ruleX4() {
	n := 0
	for _, f := range c.fnsInPkg("pubsub/pubsubcoreapi") {
		if c.isTestFile(f.Pos()) || f.Parent() != nil || f.Signature.Recv() == nil {
			continue
		}
		var peers []ssa.Value
		eachCall(f, func(call ssa.CallInstruction) {
			if methodName(call) == "Peers" && call.Common().IsInvoke() && strings.HasSuffix(typeStr(call.Common().Value.Type()), "coreiface.PubSubAPI") && call.Value() != nil {
				peers = append(peers, call.Value())
			}
		})
		if len(peers) == 0 {
			continue
		}
		n++
		cons := fnKey(f) + "#snapshot-replaced"
		d := derived(peers, flowOpts{})
		assign := func(in ssa.Instruction) bool {
			if call, ok := in.(ssa.CallInstruction); ok {
				// through a setter method of the same receiver
				return setterStore(call, d) != nil
			}
			st, ok := in.(*ssa.Store)
			if !ok || !d[st.Val] {
				return false
			}
			fa, ok := st.Addr.(*ssa.FieldAddr)
			return ok && isRecv(f, fa.X)
		}
		// and only by one that was read: an assignment that is not covered by the succeeding
		// branch of the Peers() error test also runs when the poll failed, and stores an empty
		// snapshot — the next successful poll then reports every peer as joining a second time
		var peersCall ssa.CallInstruction
		eachCall(f, func(call ssa.CallInstruction) {
			if methodName(call) == "Peers" && call.Common().IsInvoke() && strings.HasSuffix(typeStr(call.Common().Value.Type()), "coreiface.PubSubAPI") {
				peersCall = call
			}
		})
		if peersCall != nil {
			if ev := errResult(peersCall); ev != nil {
				ts := errTests(ev)
				eachInstr(f, func(in ssa.Instruction) {
					if !assign(in) {
						return
					}
					covered := false
					for _, t := range ts {
						if t.Ok != nil && branchCovers(t.Ok, in.Block()) {
							covered = true
						}
					}
					consF := fnKey(f) + "#snapshot-not-replaced-on-failure"
					if covered {
						c.ok("X4", consF, in.Pos(), "the remembered snapshot is only replaced once the poll is known to have succeeded")
					} else {
						c.bad("X4", consF, in.Pos(), "the remembered membership snapshot is replaced before the outcome of the poll is known: a poll that fails stores an empty snapshot without any leave being reported, and the next successful poll reports every peer still on the topic as joining a second time — a duplicate join event and head exchange for each")
					}
				})
			}
		}
		if hit, tr := findPath(f, entry, assign, successNil, nil); hit != nil {
			c.bad("X4", cons, hit.Pos(), "the membership diff can return successfully without replacing the remembered snapshot by the one just read: the next poll diffs against a stale snapshot — a peer that left is never reported as leaving, and when it comes back its join is not reported either, so no head exchange takes place", c.trailStr(tr)...)
		} else {
			c.ok("X4", cons, f.Pos(), "every successful diff replaces the remembered membership snapshot by the one just read")
		}
	}
	c.floor("X4", "polled membership diffs", n, 1)
}

func (c *Ctx) ruleB6() {
	n := 0
	for _, f := range c.fnsInPkg("baseorbitdb") {
		if c.isTestFile(f.Pos()) || f.Parent() != nil {
			continue
		}
		hasCtor := false
		eachCall(f, func(call ssa.CallInstruction) {
			cc := call.Common()
			if !cc.IsInvoke() && cc.StaticCallee() == nil && strings.HasSuffix(typeStr(cc.Value.Type()), "iface.StoreConstructor") {
				hasCtor = true
			}
		})
		if !hasCtor {
			continue
		}
		n++
		var optsP *ssa.Parameter
		for _, p := range f.Params {
			if strings.HasSuffix(typeStr(p.Type()), "CreateDBOptions") {
				optsP = p
			}
		}
		cons := fnKey(f) + "#options-not-chained"
		if optsP == nil {
			c.ok("B6", cons, f.Pos(), "no caller-supplied options in scope")
			continue
		}
		bad := false
		eachInstr(f, func(in ssa.Instruction) {
			st, ok := in.(*ssa.Store)
			if !ok {
				return
			}
			fa, ok := st.Addr.(*ssa.FieldAddr)
			if !ok || !isParamValue(fa.X, optsP) {
				return
			}
			field := fieldVarOf(fa)
			mc, ok := st.Val.(*ssa.MakeClosure)
			if !ok {
				// a value computed by a helper FROM the previous value of the same field
				// (options.F = wrap(options.F, …)) chains just the same
				if call, isCall := st.Val.(*ssa.Call); isCall && strings.HasPrefix(typeStr(fieldVarOf(fa).Type()), "func(") {
					var prev0 []ssa.Value
					eachInstr(f, func(x ssa.Instruction) {
						if u, ok := x.(*ssa.UnOp); ok && u.Op == token.MUL {
							if fa3, ok := u.X.(*ssa.FieldAddr); ok && fieldVarOf(fa3) == field && isParamValue(fa3.X, optsP) {
								prev0 = append(prev0, u)
							}
						}
					})
					dp := derived(prev0, flowOpts{})
					wraps := false
					for _, a := range call.Call.Args {
						if dp[a] {
							wraps = true
						}
					}
					// or the helper is handed the options themselves and reads the field
					if h := call.Call.StaticCallee(); h != nil && h.Blocks != nil {
						for i, a := range call.Call.Args {
							if isParamValue(a, optsP) && i < len(h.Params) {
								for _, hh := range withClosures(h) {
									eachInstr(hh, func(x ssa.Instruction) {
										if fa4, ok := x.(*ssa.FieldAddr); ok && fieldVarOf(fa4) == field {
											wraps = true
										}
									})
								}
							}
						}
					}
					if wraps {
						bad = true
						c.bad("B6", cons, st.Pos(), fmt.Sprintf("the caller's options.%s is replaced by a value built from its previous value: when one options value is used to open several databases the hooks chain, so closing one database also runs its siblings' hooks (unregistering them from the instance while they are still open)", field.Name()))
					}
				}
				return
			}
			fn, _ := mc.Fn.(*ssa.Function)
			if fn == nil {
				return
			}
			// does the closure read the same field of the options it is stored into?
			reads := false
			eachInstr(fn, func(x ssa.Instruction) {
				if fa2, ok := x.(*ssa.FieldAddr); ok && fieldVarOf(fa2) == field && strings.HasSuffix(typeStr(fa2.X.Type()), "CreateDBOptions") {
					reads = true
				}
			})
			// or captures what that field held before (onClose := options.F; options.F = func(){ onClose(); … })
			var prev []ssa.Value
			eachInstr(f, func(x ssa.Instruction) {
				if u, ok := x.(*ssa.UnOp); ok && u.Op == token.MUL {
					if fa3, ok := u.X.(*ssa.FieldAddr); ok && fieldVarOf(fa3) == field && isParamValue(fa3.X, optsP) {
						prev = append(prev, u)
					}
				}
			})
			dprev := derived(prev, flowOpts{})
			for _, b := range mc.Bindings {
				if dprev[b] {
					reads = true
				}
			}
			if reads {
				bad = true
				c.bad("B6", cons, st.Pos(), fmt.Sprintf("a per-store closure is written back into the caller's options.%s and calls the previous value of that very field: when one options value is used to open several databases the hooks chain, so closing one database also runs its siblings' hooks (unregistering them from the instance while they are still open)", field.Name()))
			}
		})
		if !bad {
			c.ok("B6", cons, f.Pos(), "nothing written back into the caller's options wraps the previous value of the same field")
		}
	}
	c.floor("B6", "store constructor invocations", n, 1)
}

func (c *Ctx) ruleG8() {
	st := c.storeType()
	if st == nil {
		return
	}
	f := c.methodOf(st, "Close")
	if f == nil || f.Blocks == nil {
		return
	}
	// cut the "already closed" edge of the idempotence guard
	b0 := f.Blocks[0]
	cut := func(b *ssa.BasicBlock, si int) bool {
		if b != b0 {
			return false
		}
		if _, ok := b.Instrs[len(b.Instrs)-1].(*ssa.If); ok {
			return si == 0 && blockReturns(b.Succs[0]) != nil
		}
		return false
	}
	type need struct {
		key, what string
		kind      *siteKind
	}
	needs := []need{
		{"cancel", "the cancellation of the store's context", newKind("cancel", func(call ssa.CallInstruction) bool {
			cc := call.Common()
			return !cc.IsInvoke() && cc.StaticCallee() == nil && strings.HasSuffix(typeStr(cc.Value.Type()), "context.CancelFunc")
		})},
		{"replicator-stop", "Replicator.Stop", newKind("stop", func(call ssa.CallInstruction) bool {
			return methodName(call) == "Stop" && recvOf(call) != nil && strings.Contains(typeStr(recvOf(call).Type()), "eplicator")
		})},
		{"cache-close", "Close of the cache datastore", newKind("cache-close", func(call ssa.CallInstruction) bool {
			return methodName(call) == "Close" && recvOf(call) != nil && strings.HasSuffix(typeStr(recvOf(call).Type()), "go-datastore.Datastore")
		})},
		{"legacy-subscribers", "the teardown of the legacy subscribers", newKind("unsub", func(call ssa.CallInstruction) bool {
			g := call.Common().StaticCallee()
			return g != nil && g.Name() == "UnsubscribeAll"
		})},
	}
	for _, nd := range needs {
		cons := relType(st) + ".Close→" + nd.key + "#always"
		k := nd.kind
		anyExit := func(in ssa.Instruction) bool {
			_, ok := in.(*ssa.Return)
			return ok
		}
		if hit, tr := findPath(f, entry, func(in ssa.Instruction) bool { return c.isSite(k, in) }, anyExit, cut); hit != nil {
			c.bad("G8", cons, hit.Pos(), "Close can return (past its already-closed guard) without "+nd.what+": on that path what it guards keeps running after the store is closed — fetches, workers and their goroutines outlive the store, and a pending load never returns", c.trailStr(tr)...)
		} else {
			c.ok("G8", cons, f.Pos(), "every path of Close past the already-closed guard passes "+nd.what)
		}
	}
	_ = token.NoPos
}

// G9 — the store's own context has no parent. Close is idempotent because it starts by
// testing that context: if the context can be cancelled by anything other than Close (a
// parent handed in by the opener or the instance), the test is true although Close never
// ran, and every later Close/Drop returns without releasing anything.
func (c *Ctx) ruleG9() {
	st := c.storeType()
	if st == nil {
		return
	}
	n := 0
	for _, f := range c.methodsOf(st) {
		if f.Parent() != nil {
			continue
		}
		eachCall(f, func(call ssa.CallInstruction) {
			full := calleeFull(call)
			if full != "context.WithCancel" && full != "context.WithTimeout" && full != "context.WithDeadline" {
				return
			}
			if call.Value() == nil {
				return
			}
			// stored into a context field of the receiver?
			d := derived([]ssa.Value{call.Value()}, flowOpts{})
			toField := false
			for v := range d {
				if refs := v.Referrers(); refs != nil {
					for _, r := range *refs {
						if s, ok := r.(*ssa.Store); ok && s.Val == v {
							if fa, ok := s.Addr.(*ssa.FieldAddr); ok && isRecv(f, fa.X) && typeStr(fieldVarOf(fa).Type()) == "context.Context" {
								toField = true
							}
						}
					}
				}
			}
			if !toField {
				return
			}
			n++
			cons := fnKey(f) + "→store-context#root"
			parent := call.Common().Args[0]
			if pc, ok := parent.(*ssa.Call); ok && (calleeFull(pc) == "context.Background" || calleeFull(pc) == "context.TODO") && full == "context.WithCancel" {
				c.ok("G9", cons, call.Pos(), "the store's context is a root context cancelled only by the store's own cancel function")
			} else {
				c.bad("G9", cons, call.Pos(), "the store's own context is derived from a context it does not control (or expires by itself): Close begins by testing that context to be idempotent, so once the parent is cancelled every Close/Drop returns immediately without stopping the replicator, closing the emitters and the cache, or ending the legacy subscribers")
			}
		})
	}
	c.floor("G9", "store context creations", n, 1)
}

// P5 — sibling cache writes agree on Sync. Today no cache write is followed by a datastore
// Sync: a Put is relied upon to be durable when it returns. If SOME constant-key Put sites are
// followed by a Sync (because the cache was made write-buffered), every other one is a
// contradiction: its key can be lost by a crash after the write was acknowledged.
func (c *Ctx) ruleP5() {
	type site struct {
		call   ssa.CallInstruction
		key    string
		synced bool
		fn     *ssa.Function
	}
	var sites []site
	for _, f := range c.RepoFns {
		if c.isTestFile(f.Pos()) {
			continue
		}
		eachCall(f, func(call ssa.CallInstruction) {
			k, ok := c.cachePutKey(call)
			if !ok {
				return
			}
			s := site{call: call, key: k, fn: f}
			// a Sync on the same key reachable after the Put (in this function or a caller one level up is not needed today)
			isSync := func(in ssa.Instruction) bool {
				sc, ok := in.(ssa.CallInstruction)
				if !ok || !c.isMethodOn(sc, "Sync", "github.com/ipfs/go-datastore.Datastore") && !c.isMethodOn(sc, "Sync", ifaceDSWrite) {
					return false
				}
				a := argsOf(sc)
				if len(a) < 2 {
					return false
				}
				if kk, ok := dsKeyOf(a[1]); ok {
					return kk == k
				}
				return true // a computed key: assume it may be this one
			}
			if hit, _ := findPath(f, after(call), nil, isSync, nil); hit != nil {
				s.synced = true
			}
			sites = append(sites, s)
		})
	}
	group := func(ctl bool) {
		var with, without []site
		for _, s := range sites {
			if c.isControlFn(s.fn) != ctl {
				continue
			}
			if s.synced {
				with = append(with, s)
			} else {
				without = append(without, s)
			}
		}
		if len(with) == 0 {
			if !ctl {
				c.ok("P5", "cache-writes#sync-agreement", token.NoPos, fmt.Sprintf("no cache write depends on a later Sync (%d constant-key Put sites, all relied upon to be durable on return)", len(without)))
			}
			return
		}
		for _, s := range without {
			c.bad("P5", fnKey(s.fn)+"→Put("+s.key+")#synced-like-siblings", s.call.Pos(), fmt.Sprintf("%d other cache write(s) are followed by a datastore Sync — i.e. the cache may hold a Put back — but the write of %q is not: after it has been acknowledged (write returned, batch announced as replicated) a crash loses it", len(with), s.key))
		}
		for _, s := range with {
			c.ok("P5", fnKey(s.fn)+"→Put("+s.key+")#synced-like-siblings", s.call.Pos(), "cache write followed by Sync")
		}
	}
	group(false)
	group(true)
}
