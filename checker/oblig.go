package main

import (
	"encoding/json"
	"fmt"
	"go/token"
	"os"
	"path/filepath"
	"sort"
	"strings"
)

type Status string

const (
	Discharged Status = "discharged"
	Violated   Status = "violated"
	Undecided  Status = "undecided"
)

// Obligation is one rule instance on one construct of the analysed tree.
type Obligation struct {
	Property  string   `json:"property"`
	Rule      string   `json:"rule"`
	Construct string   `json:"construct"` // stable key: function + role, never a line number
	Pos       string   `json:"pos"`
	Status    Status   `json:"status"`
	Detail    string   `json:"detail"`
	Path      []string `json:"path,omitempty"`
	Control   string   `json:"control,omitempty"` // "bad"/"good" when the construct is a positive/negative control
	Known     bool     `json:"known,omitempty"`
	pos       token.Pos
}

func (o *Obligation) Key() string { return o.Rule + "/" + o.Construct }

// add records an obligation. Constructs inside verifCtl* functions are controls.
func (c *Ctx) add(rule, construct string, p token.Pos, st Status, detail string, path ...string) *Obligation {
	o := &Obligation{Rule: rule, Construct: construct, Pos: c.pos(p), Status: st, Detail: detail, Path: path, pos: p}
	if i := strings.Index(construct, "verifCtlBad"); i >= 0 {
		// verifCtlBad_<rule>_<rule>_Name: a positive control for the listed rules only;
		// what other rules say about it is irrelevant and dropped.
		o.Control = "skip"
		for _, tok := range strings.Split(ctlIdent(construct[i:]), "_")[1:] {
			if tok == rule {
				o.Control = "bad"
			}
		}
		if o.Control == "skip" {
			return o
		}
	} else if strings.Contains(construct, "verifCtlGood") {
		o.Control = "good"
	}
	c.Obls = append(c.Obls, o)
	return o
}

func (c *Ctx) ok(rule, construct string, p token.Pos, detail string) {
	c.add(rule, construct, p, Discharged, detail)
}
func (c *Ctx) bad(rule, construct string, p token.Pos, detail string, path ...string) {
	c.add(rule, construct, p, Violated, detail, path...)
}
func (c *Ctx) undecided(rule, construct string, p token.Pos, detail string) {
	c.add(rule, construct, p, Undecided, detail)
}

// floor fails the run when a role resolves to fewer instances than confirmed by hand.
func (c *Ctx) floor(rule, role string, got, want int) {
	c.Counts[rule+":"+role] = got
	if got < want {
		c.add(rule, "anchor-lost:"+role, token.NoPos, Violated,
			fmt.Sprintf("kind=anchor-lost role %q resolved to %d instance(s), at least %d confirmed on the reference tree; the rule would pass vacuously", role, got, want))
	}
}

// ---------------------------------------------------------------------------
// known findings

type KnownFinding struct {
	Property  string `json:"property"`
	Rule      string `json:"rule"`
	Construct string `json:"construct"`
	Status    string `json:"status"` // "known" or "fixed"
	What      string `json:"what"`
	Commit    string `json:"commit,omitempty"`
	Line      string `json:"line,omitempty"`
}

func loadKnown(path string) ([]KnownFinding, error) {
	b, err := os.ReadFile(path)
	if err != nil {
		if os.IsNotExist(err) {
			return nil, nil
		}
		return nil, err
	}
	var f struct {
		Findings []KnownFinding `json:"findings"`
	}
	if err := json.Unmarshal(b, &f); err != nil {
		return nil, err
	}
	return f.Findings, nil
}

// ---------------------------------------------------------------------------
// evidence

type Evidence struct {
	PropertyID  string                 `json:"property_id"`
	Tier        string                 `json:"tier"`
	Seed        int                    `json:"seed"`
	Level       string                 `json:"level"`
	Coverage    map[string]interface{} `json:"coverage"`
	Assumptions []string               `json:"assumptions"`
	WallS       float64                `json:"wall_s"`
	Violations  int                    `json:"violations"`
}

func sortObls(c *Ctx, obls []*Obligation) {
	sort.SliceStable(obls, func(i, j int) bool {
		a, b := obls[i], obls[j]
		if a.pos != b.pos && a.pos.IsValid() && b.pos.IsValid() {
			return c.posLess(a.pos, b.pos)
		}
		return a.Key() < b.Key()
	})
}

func writeJSON(path string, v interface{}) error {
	if err := os.MkdirAll(filepath.Dir(path), 0o755); err != nil {
		return err
	}
	b, err := json.MarshalIndent(v, "", " ")
	if err != nil {
		return err
	}
	return os.WriteFile(path, append(b, '\n'), 0o644)
}

// ctlIdent cuts the identifier that starts a control name.
func ctlIdent(s string) string {
	for i, r := range s {
		if !(r == '_' || r >= '0' && r <= '9' || r >= 'a' && r <= 'z' || r >= 'A' && r <= 'Z') {
			return s[:i]
		}
	}
	return s
}
