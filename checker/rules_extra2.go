package main

import (
	"fmt"
	"go/token"
	"go/types"
	"sort"
	"strings"

	"golang.org/x/tools/go/ssa"
)

// rulesExtra2: rules added after the second round of independently seeded changes.
//
//	G7 — every acquired slot (semaphore.Weighted, or a buffered chan struct{} used as one) is
//	     released on every path to a return, at the level that acquires it or in every caller
//	Q5 — the counter the replicator's idle test reads is balanced: whatever increments it is
//	     followed by a decrement on every path of the worker
//	T5 — the claimed address of a received head is compared as a whole with the recomputed one
//	I7 — the event-log store selects its windows from the index listing only
func rulesExtra2(c *Ctx) {
	c.ruleG7()
	c.ruleQ5()
	c.ruleT5()
	c.ruleI7()
	c.ruleS1()
}

// ---------------------------------------------------------------------------
// G7

type resOp struct {
	acquire bool
	res     string
}

// resourceOp classifies an instruction as acquire/release of a slot-like resource.
func resourceOp(in ssa.Instruction) *resOp {
	switch x := in.(type) {
	case ssa.CallInstruction:
		switch calleeFull(x) {
		case "(*golang.org/x/sync/semaphore.Weighted).Acquire", "(*golang.org/x/sync/semaphore.Weighted).TryAcquire":
			return &resOp{true, lockClass(recvOf(x))}
		case "(*golang.org/x/sync/semaphore.Weighted).Release":
			return &resOp{false, lockClass(recvOf(x))}
		}
	case *ssa.Send:
		if isSlotChan(x.Chan) {
			return &resOp{true, lockClass(x.Chan)}
		}
	case *ssa.UnOp:
		if x.Op == token.ARROW && isSlotChan(x.X) {
			return &resOp{false, lockClass(x.X)}
		}
	}
	return nil
}

// isSlotChan: a chan struct{} held in a struct field (a counting semaphore).
func isSlotChan(v ssa.Value) bool {
	ch, ok := v.Type().Underlying().(*types.Chan)
	if !ok {
		return false
	}
	st, ok := ch.Elem().Underlying().(*types.Struct)
	if !ok || st.NumFields() != 0 {
		return false
	}
	u, ok := v.(*ssa.UnOp)
	if !ok {
		return false
	}
	_, isField := u.X.(*ssa.FieldAddr)
	return isField
}

func (c *Ctx) ruleG7() {
	n := 0
	for _, f := range c.RepoFns {
		if c.isTestFile(f.Pos()) {
			continue
		}
		k := 0
		eachInstr(f, func(in ssa.Instruction) {
			op := resourceOp(in)
			if op == nil || !op.acquire {
				return
			}
			if !c.isControlFn(f) {
				n++
			}
			cons := fmt.Sprintf("%s→acquire(%s)#%d", fnKey(f), op.res, k)
			k++
			rel := newKindInstr("release:"+op.res, func(x ssa.Instruction) bool {
				o := resourceOp(x)
				return o != nil && !o.acquire && o.res == op.res
			})
			start := after(in)
			if call, ok := in.(ssa.CallInstruction); ok {
				if st, _, tested := okStart(call); tested {
					start = st
				}
			}
			if ok, hit, tr := c.releasedAfter(f, start, rel, 0); !ok {
				c.bad("G7", cons, hit.Pos(), "a slot acquired here is not released on some path to a return (neither in this function nor, for a helper that returns holding it, in its callers): each such path leaks one slot, and once they are all gone every later request waits forever", c.trailStr(tr)...)
			} else {
				c.ok("G7", cons, in.Pos(), "every path after the acquisition passes the release (here or, for a helper, in each caller)")
			}
		})
	}
	c.floor("G7", "slot acquisitions", n, 1)
	c.ruleG7b()
}

// ruleG7b: the converse of G7 — a path on which the acquisition FAILED passes no release.
// A weighted semaphore panics ("released more than held") when more is released than was
// acquired; a worker that gave up while waiting for its slot (request cancelled, store
// closed) and then runs the common "done" code that gives a slot back brings the process down.
func (c *Ctx) ruleG7b() {
	for _, f := range c.RepoFns {
		if c.isTestFile(f.Pos()) {
			continue
		}
		k := 0
		eachInstr(f, func(in ssa.Instruction) {
			op := resourceOp(in)
			if op == nil || !op.acquire {
				return
			}
			call, isCall := in.(ssa.CallInstruction)
			idx := k
			k++
			if !isCall || !hasErrResult(call) {
				return
			}
			cons := fmt.Sprintf("%s→acquire(%s)#%d#failed-not-released", fnKey(f), op.res, idx)
			isRel := func(x ssa.Instruction) bool {
				o := resourceOp(x)
				return o != nil && !o.acquire && o.res == op.res
			}
			hit, tr, n := c.releaseAfterFailure(call, isRel, 0)
			if hit != nil {
				c.bad("G7", cons, hit.Pos(), "a path on which this acquisition failed (request cancelled or store closed while waiting for a slot) goes on to release a slot: more is released than was acquired, which a weighted semaphore answers with a panic — closing a store in the middle of a replication with more queued than there are slots brings the process down", c.trailStr(tr)...)
			} else {
				c.ok("G7", cons, in.Pos(), fmt.Sprintf("no release is reachable from the failing branch of the acquisition (%d function(s) followed)", n))
			}
		})
	}
}

// releaseAfterFailure follows the failing branch of call (in its function, then — when the
// failure is handed up — in the callers after their own test of the error) and reports a
// release it can reach. Values returned next to the error are nil on that branch, and so are
// the parameters they are passed as: guards on them are honoured.
func (c *Ctx) releaseAfterFailure(call ssa.CallInstruction, isRel instrPred, depth int) (ssa.Instruction, []token.Pos, int) {
	f := call.Parent()
	_, failBlocks, tested := okStart(call)
	nilSet := map[ssa.Value]bool{}
	if v := call.Value(); v != nil {
		if refs := v.Referrers(); refs != nil {
			for _, r := range *refs {
				if ex, ok := r.(*ssa.Extract); ok && !isErrorType(ex.Type()) && canBeNil(ex.Type()) {
					nilSet[ex] = true
				}
			}
		}
	}
	followed := 1
	if tested {
		for _, fb := range failBlocks {
			if hit, tr := c.mayRelease(f, atBlock(fb), isRel, nilSet, 0); hit != nil {
				return hit, tr, followed
			}
		}
	}
	if depth >= 3 {
		return nil, nil, followed
	}
	// does the failure leave f? (a failing return reachable from the failing branch, or the
	// error handed up untested)
	leaves := !tested
	for _, fb := range failBlocks {
		if hit, _ := findPath(f, atBlock(fb), nil, func(in ssa.Instruction) bool {
			r, ok := in.(*ssa.Return)
			return ok && !isCertainSuccess(r)
		}, nil); hit != nil {
			leaves = true
		}
	}
	if !leaves {
		return nil, nil, followed
	}
	for _, g := range c.RepoFns {
		if c.isTestFile(g.Pos()) {
			continue
		}
		var found ssa.Instruction
		var ftr []token.Pos
		eachCall(g, func(cs ssa.CallInstruction) {
			if found != nil || cs.Common().StaticCallee() != f || !hasErrResult(cs) {
				return
			}
			if _, isGo := cs.(*ssa.Go); isGo {
				return
			}
			if _, isDefer := cs.(*ssa.Defer); isDefer {
				return
			}
			h, tr, n := c.releaseAfterFailure(cs, isRel, depth+1)
			followed += n
			if h != nil {
				found, ftr = h, tr
			}
		})
		if found != nil {
			return found, ftr, followed
		}
	}
	return nil, nil, followed
}

func canBeNil(t types.Type) bool {
	switch t.Underlying().(type) {
	case *types.Pointer, *types.Interface, *types.Map, *types.Slice, *types.Chan, *types.Signature:
		return true
	}
	return false
}

// isCertainSuccess: the return's error result is the nil constant.
func isCertainSuccess(r *ssa.Return) bool {
	if len(r.Results) == 0 {
		return false
	}
	last := r.Results[len(r.Results)-1]
	return isErrorType(last.Type()) && isNilConst(last)
}

// mayRelease: a release is reachable from start in f, following static repo callees (three
// levels) and deferred calls, and not following edges that need a value of nilSet to be non-nil.
func (c *Ctx) mayRelease(f *ssa.Function, start startPt, isRel instrPred, nilSet map[ssa.Value]bool, depth int) (ssa.Instruction, []token.Pos) {
	cut := func(b *ssa.BasicBlock, si int) bool {
		if len(b.Instrs) == 0 {
			return false
		}
		iff, ok := b.Instrs[len(b.Instrs)-1].(*ssa.If)
		if !ok {
			return false
		}
		bo, ok := iff.Cond.(*ssa.BinOp)
		if !ok || (bo.Op != token.NEQ && bo.Op != token.EQL) {
			return false
		}
		x, y := bo.X, bo.Y
		if isNilConst(x) {
			x, y = y, x
		}
		if !isNilConst(y) {
			return false
		}
		known := false
		for a := range valueAliases(x) {
			if nilSet[a] {
				known = true
			}
		}
		if !known {
			return false
		}
		if bo.Op == token.NEQ {
			return si == 0 // x != nil is false here
		}
		return si == 1
	}
	target := func(in ssa.Instruction) bool {
		if isRel(in) {
			return true
		}
		cs, ok := in.(ssa.CallInstruction)
		if !ok || depth >= 3 {
			return false
		}
		if _, isGo := in.(*ssa.Go); isGo {
			return false
		}
		h := cs.Common().StaticCallee()
		if h == nil || h.Blocks == nil || h.Pkg == nil || !inRepo(h.Pkg.Pkg) || h == f {
			return false
		}
		ns := map[ssa.Value]bool{}
		for i, a := range cs.Common().Args {
			if i >= len(h.Params) {
				break
			}
			for al := range valueAliases(a) {
				if nilSet[al] {
					ns[h.Params[i]] = true
				}
			}
		}
		hit, _ := c.mayRelease(h, entry, isRel, ns, depth+1)
		return hit != nil
	}
	return findPath(f, start, nil, target, cut)
}

// newKindInstr: a site kind whose direct sites are arbitrary instructions.
func newKindInstr(name string, direct func(ssa.Instruction) bool) *siteKind {
	k := newKind(name, func(ssa.CallInstruction) bool { return false })
	k.directInstr = direct
	return k
}

// releasedAfter: every path from start to any return passes a K-site, in f or in each static caller after the call.
func (c *Ctx) releasedAfter(f *ssa.Function, start startPt, k *siteKind, depth int) (bool, ssa.Instruction, []token.Pos) {
	anyReturn := func(in ssa.Instruction) bool { _, ok := in.(*ssa.Return); return ok }
	hit, tr := findPath(f, start, func(in ssa.Instruction) bool { return c.isSite(k, in) }, anyReturn, nil)
	if hit == nil {
		return true, nil, nil
	}
	// the path that returns holding the slot must be a successful one of a helper whose callers release
	if r, ok := hit.(*ssa.Return); ok && isFailureReturn(r) {
		return false, hit, tr
	}
	if depth >= 3 {
		return false, hit, tr
	}
	var callers []ssa.CallInstruction
	for _, g := range c.RepoFns {
		if c.isTestFile(g.Pos()) {
			continue
		}
		eachCall(g, func(call ssa.CallInstruction) {
			if _, isGo := call.(*ssa.Go); !isGo && call.Common().StaticCallee() == f {
				callers = append(callers, call)
			}
		})
	}
	if len(callers) == 0 {
		return false, hit, tr
	}
	for _, cs := range callers {
		st, _, tested := okStart(cs)
		if !tested {
			st = after(cs)
		}
		if ok, h2, t2 := c.releasedAfter(cs.Parent(), st, k, depth+1); !ok {
			return false, h2, t2
		}
	}
	return true, nil, nil
}

// ---------------------------------------------------------------------------
// Q5

// counterStep: the instruction stores field±1 into the same int field of the receiver; returns the field and +1/-1.
func counterStep(in ssa.Instruction) (*types.Var, int) {
	st, ok := in.(*ssa.Store)
	if !ok {
		return nil, 0
	}
	fa, ok := st.Addr.(*ssa.FieldAddr)
	if !ok {
		return nil, 0
	}
	bo, ok := st.Val.(*ssa.BinOp)
	if !ok || (bo.Op != token.ADD && bo.Op != token.SUB) {
		return nil, 0
	}
	k, ok := constInt(bo.Y)
	if !ok || k != 1 {
		return nil, 0
	}
	ld, ok := bo.X.(*ssa.UnOp)
	if !ok || ld.Op != token.MUL {
		return nil, 0
	}
	fa2, ok := ld.X.(*ssa.FieldAddr)
	if !ok || fieldVarOf(fa2) != fieldVarOf(fa) {
		return nil, 0
	}
	if bo.Op == token.ADD {
		return fieldVarOf(fa), 1
	}
	return fieldVarOf(fa), -1
}

// lockWrapperCallOf: lit is a function literal handed, in its parent, to a repo function that
// calls its parameter on every path; returns that call.
func (c *Ctx) lockWrapperCallOf(lit *ssa.Function) ssa.CallInstruction {
	p := lit.Parent()
	if p == nil {
		return nil
	}
	var found ssa.CallInstruction
	eachCall(p, func(call ssa.CallInstruction) {
		if found != nil {
			return
		}
		if _, isGo := call.(*ssa.Go); isGo {
			return
		}
		h := call.Common().StaticCallee()
		if h == nil || h.Blocks == nil {
			return
		}
		for i, a := range call.Common().Args {
			mc, ok := a.(*ssa.MakeClosure)
			if !ok || mc.Fn != ssa.Value(lit) || i >= len(h.Params) {
				continue
			}
			if c.mustCallParam(h, h.Params[i]) {
				found = call
			}
		}
	})
	return found
}

// goAfter: the go statements that can execute after in, in in's function.
func goAfter(in ssa.Instruction) []*ssa.Go {
	var out []*ssa.Go
	seen := map[*ssa.BasicBlock]bool{}
	var walk func(b *ssa.BasicBlock, from int)
	walk = func(b *ssa.BasicBlock, from int) {
		for _, x := range b.Instrs[from:] {
			if g, ok := x.(*ssa.Go); ok {
				out = append(out, g)
			}
		}
		for _, s := range b.Succs {
			if !seen[s] {
				seen[s] = true
				walk(s, 0)
			}
		}
	}
	walk(in.Block(), instrIndex(in)+1)
	return out
}

// queueEmptyCut prunes the edges taken when the replicator's queue is empty
// (`if q.Len() > 0 {...}`: the false edge; `== 0`: the true edge).
func queueEmptyCut(b *ssa.BasicBlock, si int) bool {
	if len(b.Instrs) == 0 {
		return false
	}
	iff, ok := b.Instrs[len(b.Instrs)-1].(*ssa.If)
	if !ok {
		return false
	}
	bo, ok := iff.Cond.(*ssa.BinOp)
	if !ok {
		return false
	}
	call, ok := bo.X.(*ssa.Call)
	if !ok {
		return false
	}
	g := call.Call.StaticCallee()
	if g == nil || g.Name() != "Len" || g.Signature.Recv() == nil || !strings.Contains(typeStr(g.Signature.Recv().Type()), "processQueue") {
		return false
	}
	z, isConst := constInt(bo.Y)
	if !isConst || z != 0 {
		return false
	}
	switch bo.Op {
	case token.GTR, token.NEQ:
		return si == 1
	case token.EQL, token.LEQ:
		return si == 0
	}
	return false
}

// idlePredicates: the boolean, parameterless methods of the replicator whose true result
// leads to the function that emits EventLoadEnd — the test that decides whether load-end fires.
func (c *Ctx) idlePredicates(fns []*ssa.Function) []*ssa.Function {
	var idleFns []*ssa.Function
	for _, f := range fns {
		if c.isTestFile(f.Pos()) || f.Parent() != nil {
			continue
		}
		// returns bool, no params besides receiver, and is used as a condition guarding the function that emits EventLoadEnd
		if f.Signature.Results().Len() == 1 && typeStr(f.Signature.Results().At(0).Type()) == "bool" && f.Signature.Params().Len() == 0 && f.Signature.Recv() != nil {
			used := false
			for _, g := range fns {
				eachCall(g, func(call ssa.CallInstruction) {
					if call.Common().StaticCallee() != f || call.Value() == nil {
						return
					}
					for _, r := range *call.Value().Referrers() {
						if iff, ok := r.(*ssa.If); ok {
							for _, sc := range iff.Block().Succs {
								for _, in := range sc.Instrs {
									if cl, ok := in.(ssa.CallInstruction); ok {
										if h := cl.Common().StaticCallee(); h != nil {
											// the emit may sit one or two helpers further down (idle → flushBuffer)
											if c.reachesStatic(h, func(ec ssa.CallInstruction) bool { return c.isEmitOf(ec, "stores/replicator.EventLoadEnd") }, 0) {
												used = true
											}
										}
									}
								}
							}
						}
					}
				})
			}
			if used {
				idleFns = append(idleFns, f)
			}
		}
	}
	return idleFns
}

func (c *Ctx) ruleQ5() {
	fns := c.fnsInPkg("stores/replicator")
	idleFns := c.idlePredicates(fns)
	c.floor("Q5", "idle tests gating load-end", len(idleFns), 1)
	counters := map[*types.Var]bool{}
	for _, f := range idleFns {
		eachInstr(f, func(in ssa.Instruction) {
			if u, ok := in.(*ssa.UnOp); ok && u.Op == token.MUL {
				if fa, ok := u.X.(*ssa.FieldAddr); ok && isIntType(fieldVarOf(fa).Type()) {
					counters[fieldVarOf(fa)] = true
				}
			}
		})
	}
	for cv := range counters {
		inc := newKindInstr("inc:"+cv.Name(), func(in ssa.Instruction) bool { v, d := counterStep(in); return v == cv && d == 1 })
		dec := newKindInstr("dec:"+cv.Name(), func(in ssa.Instruction) bool { v, d := counterStep(in); return v == cv && d == -1 })
		// a path on which the queue was found empty took no item: nothing is owed for it
		dec.cut = queueEmptyCut
		// a counter kept by table-transition helpers (they look the task up and step the counter
		// according to what they find and what they store): consistent by construction as long as
		// every change of the table goes through them — that is what is checked, not the paths
		if tt := c.findTaskTable(); tt != nil {
			helpers := map[*ssa.Function]bool{}
			for _, f := range fns {
				if c.isTestFile(f.Pos()) || f.Blocks == nil {
					continue
				}
				mut, step, look := false, false, false
				// the decrement depends on the state the task was found in
				var stateTests []*ssa.If
				eachInstr(f, func(in ssa.Instruction) {
					switch x := in.(type) {
					case *ssa.MapUpdate:
						if tt.isTable(x.Map) {
							mut = true
						}
					case *ssa.Lookup:
						if tt.isTable(x.X) {
							d := derived([]ssa.Value{x}, flowOpts{})
							eachInstr(f, func(y ssa.Instruction) {
								bo, ok := y.(*ssa.BinOp)
								if !ok || (bo.Op != token.EQL && bo.Op != token.NEQ) {
									return
								}
								_, kx := constInt(bo.X)
								_, ky := constInt(bo.Y)
								if !(d[bo.X] && ky) && !(d[bo.Y] && kx) {
									return
								}
								dd := derived([]ssa.Value{bo}, flowOpts{})
								eachInstr(f, func(z ssa.Instruction) {
									if iff, ok := z.(*ssa.If); ok && (iff.Cond == ssa.Value(bo) || dd[iff.Cond]) {
										stateTests = append(stateTests, iff)
									}
								})
							})
						}
					case *ssa.Call:
						if tt.isDelete(x) {
							mut = true
						}
					}
				})
				eachInstr(f, func(in ssa.Instruction) {
					if v, d := counterStep(in); v == cv && d == -1 {
						step = true
						for _, iff := range stateTests {
							for _, sc := range iff.Block().Succs {
								if branchCovers(sc, in.Block()) {
									look = true
								}
							}
						}
					}
				})
				if mut && step && look {
					helpers[f] = true
				}
			}
			if len(helpers) > 0 {
				k := 0
				for _, f := range fns {
					if c.isTestFile(f.Pos()) || f.Blocks == nil || helpers[f] {
						continue
					}
					eachInstr(f, func(in ssa.Instruction) {
						bare := false
						switch x := in.(type) {
						case *ssa.MapUpdate:
							bare = tt.isTable(x.Map)
						case *ssa.Call:
							bare = tt.isDelete(x)
						}
						if !bare {
							return
						}
						cons := fmt.Sprintf("%s#counter:%s#table-change-outside-helpers#%d", fnKey(f), cv.Name(), k)
						k++
						c.bad("Q5", cons, in.Pos(), fmt.Sprintf("the idle test reads %s, which the table-transition helpers keep equal to the number of active tasks — but this function changes the task table directly: the entry leaves (or changes state) without the count following, the count never returns to zero, load-end never fires again and nothing fetched afterwards is joined", cv.Name()))
					})
				}
				if k == 0 {
					var hs []string
					for h := range helpers {
						hs = append(hs, h.Name())
					}
					sort.Strings(hs)
					c.ok("Q5", "replicator#counter:"+cv.Name()+"#kept-by-transition-helpers", 0, cv.Name()+" is kept by the table-transition helpers ("+strings.Join(hs, ", ")+") and nothing else changes the task table")
				}
				continue
			}
		}
		// where is it incremented?
		var incFns []*ssa.Function
		for _, f := range fns {
			eachInstr(f, func(in ssa.Instruction) {
				if inc.directInstr(in) {
					incFns = append(incFns, f)
				}
			})
		}
		if len(incFns) == 0 {
			continue
		}
		isEnqueue := func(f *ssa.Function) bool {
			has := false
			eachCall(f, func(call ssa.CallInstruction) {
				if g := call.Common().StaticCallee(); g != nil && g.Name() == "Add" && g.Signature.Recv() != nil && strings.Contains(typeStr(g.Signature.Recv().Type()), "processQueue") {
					has = true
				}
			})
			return has
		}
		incAtEnqueue := false
		for _, f := range incFns {
			if isEnqueue(f) {
				incAtEnqueue = true
			}
		}
		// incremented where the worker is started: an increment followed, in the same function,
		// by a `go` statement. The count then stands for "one per started worker" and the
		// worker owes the decrement on every one of its paths, like a count taken at enqueue
		spawned := map[*ssa.Function]bool{} // functions the go statements after an increment start
		for _, f := range incFns {
			eachInstr(f, func(in ssa.Instruction) {
				if !inc.directInstr(in) {
					return
				}
				for _, g := range goAfter(in) {
					var started *ssa.Function
					if mc, ok := g.Call.Value.(*ssa.MakeClosure); ok {
						started, _ = mc.Fn.(*ssa.Function)
					} else {
						started = g.Call.StaticCallee()
					}
					if started != nil {
						spawned[started] = true
					}
				}
			})
		}
		incAtSpawn := func(w *ssa.Function) bool {
			for s := range spawned {
				if s == w || c.reachesStatic(s, func(call ssa.CallInstruction) bool { return call.Common().StaticCallee() == w }, 0) {
					return true
				}
			}
			return false
		}
		isDequeue := func(call ssa.CallInstruction) bool {
			h := call.Common().StaticCallee()
			return h != nil && h.Name() == "Next" && h.Signature.Recv() != nil && strings.Contains(typeStr(h.Signature.Recv().Type()), "processQueue")
		}
		anyReturn := func(in ssa.Instruction) bool { _, ok := in.(*ssa.Return); return ok }
		decVia := func(in ssa.Instruction) bool { return c.isSite(dec, in) }
		atQueueOrSpawn := incAtEnqueue || len(spawned) > 0
		if !atQueueOrSpawn {
			// incremented by the worker itself, wherever in its call chain: from the increment
			// every path to a return passes the decrement, in that function or — for a helper
			// that returns with the count taken — in each caller after the call
			k := 0
			for _, f := range incFns {
				eachInstr(f, func(in ssa.Instruction) {
					if !inc.directInstr(in) {
						return
					}
					cons := fmt.Sprintf("%s#counter:%s#%d", fnKey(f), cv.Name(), k)
					k++
					host, start := f, after(in)
					// incremented inside a function literal handed to a "run this under the
					// lock" helper: the literal runs where the helper is called
					if f.Parent() != nil {
						if cs := c.lockWrapperCallOf(f); cs != nil {
							if hit, _ := findPath(f, after(in), decVia, anyReturn, nil); hit != nil {
								host, start = cs.Parent(), after(cs)
							}
						}
					}
					if ok, hit, tr := c.releasedAfter(host, start, dec, 0); !ok {
						c.bad("Q5", cons, hit.Pos(), fmt.Sprintf("%s is incremented in the worker and a path to its return skips the decrement (neither here nor in the callers): the idle test stays false and load-end never fires again", cv.Name()), c.trailStr(tr)...)
					} else {
						c.ok("Q5", cons, in.Pos(), "every increment of "+cv.Name()+" is followed by its decrement on every path (here or, for a helper, in each caller)")
					}
				})
			}
			continue
		}
		// counted per queued item or per started worker: the worker — a named function started
		// with `go`, or called by the function literal that is — owes the decrement on every path
		workers := map[*ssa.Function]bool{}
		for _, f := range fns {
			if c.isTestFile(f.Pos()) {
				continue
			}
			eachInstr(f, func(in ssa.Instruction) {
				g, ok := in.(*ssa.Go)
				if !ok {
					return
				}
				var started *ssa.Function
				if mc, ok := g.Call.Value.(*ssa.MakeClosure); ok {
					started, _ = mc.Fn.(*ssa.Function)
				} else {
					started = g.Call.StaticCallee()
				}
				if started == nil || started.Blocks == nil {
					return
				}
				cands := []*ssa.Function{started}
				eachCall(started, func(call ssa.CallInstruction) {
					if h := call.Common().StaticCallee(); h != nil && h.Blocks != nil && h.Pkg == started.Pkg {
						cands = append(cands, h)
						// one more level: a named worker that only wraps the real one
						eachCall(h, func(c2 ssa.CallInstruction) {
							if h2 := c2.Common().StaticCallee(); h2 != nil && h2.Blocks != nil && h2.Pkg == started.Pkg {
								cands = append(cands, h2)
							}
						})
					}
				})
				// reaches the dequeue by synchronous calls (a goroutine it starts is another worker)
				var syncReach func(h *ssa.Function, d int) bool
				syncReach = func(h *ssa.Function, d int) bool {
					if h == nil || h.Blocks == nil || d > 3 {
						return false
					}
					found := false
					eachCall(h, func(x ssa.CallInstruction) {
						if found {
							return
						}
						if _, isGo := x.(*ssa.Go); isGo {
							return
						}
						if isDequeue(x) {
							found = true
							return
						}
						if g := x.Common().StaticCallee(); g != nil && g.Pkg == h.Pkg && g != h {
							if syncReach(g, d+1) {
								found = true
							}
						}
					})
					return found
				}
				for _, w := range cands {
					if w.Parent() == nil && !isEnqueue(w) && syncReach(w, 0) {
						// the function that dequeues itself is a step of the worker, not the worker
						direct := false
						eachCall(w, func(call ssa.CallInstruction) {
							if isDequeue(call) {
								direct = true
							}
						})
						if !direct {
							workers[w] = true
						}
					}
				}
			})
		}
		var ws []*ssa.Function
		for w := range workers {
			ws = append(ws, w)
		}
		sort.Slice(ws, func(i, j int) bool { return fnKey(ws[i]) < fnKey(ws[j]) })
		for _, w := range ws {
			if incAtSpawn(w) || incAtEnqueue {
				cons := fnKey(w) + "#counter:" + cv.Name()
				if hit, tr := findPath(w, entry, decVia, anyReturn, queueEmptyCut); hit != nil {
					c.bad("Q5", cons, hit.Pos(), fmt.Sprintf("%s is incremented when an item is queued (or where its worker is started), but the worker started for that item can return without decrementing it (for instance when it gives its item back after a cancelled slot wait): the count never returns to zero, the idle test stays false, load-end never fires again and nothing fetched afterwards is ever joined", cv.Name()), c.trailStr(tr)...)
				} else {
					c.ok("Q5", cons, w.Pos(), cv.Name()+" is decremented on every path of the worker")
				}
			}
		}
	}
}

// ---------------------------------------------------------------------------
// T5

func (c *Ctx) ruleT5() {
	n := 0
	for _, f := range c.RepoFns {
		if c.isTestFile(f.Pos()) || f.Parent() != nil {
			continue
		}
		var writes []ssa.CallInstruction
		eachCall(f, func(call ssa.CallInstruction) {
			if methodName(call) == "Write" && call.Common().IsInvoke() && (strings.HasSuffix(typeStr(call.Common().Value.Type()), "go-ipfs-log/iface.IO") || strings.HasSuffix(typeStr(call.Common().Value.Type()), "go-ipfs-log.IO")) {
				writes = append(writes, call)
			}
		})
		for _, w := range writes {
			if w.Value() == nil {
				continue
			}
			var ent ssa.Value
			for _, a := range w.Common().Args {
				if it := c.lookupIface(ifaceEntry); it != nil && types.Implements(strip(a).Type(), it) {
					ent = strip(a)
				}
			}
			if ent == nil {
				continue
			}
			if !c.isControlFn(f) {
				n++
			}
			cons := fnKey(f) + "→Write#address-compare"
			dW := derived([]ssa.Value{w.Value()}, flowOpts{throughCalls: true})
			var hashCalls []ssa.Value
			eachCall(f, func(call ssa.CallInstruction) {
				if methodName(call) == "GetHash" && call.Common().IsInvoke() && nf(call.Common().Value) == nf(ent) && call.Value() != nil {
					hashCalls = append(hashCalls, call.Value())
				}
			})
			dH := derived(hashCalls, flowOpts{throughCalls: true})
			// projection chains
			weak := func(v ssa.Value) string {
				for i := 0; i < 8; i++ {
					switch y := v.(type) {
					case *ssa.ChangeType:
						v = y.X
						continue
					case *ssa.Convert:
						v = y.X
						continue
					case *ssa.MakeInterface:
						v = y.X
						continue
					}
					call, ok := v.(*ssa.Call)
					if !ok {
						return ""
					}
					name := methodName(call)
					switch name {
					case "Hash", "Prefix", "Type", "Version", "Loggable":
						return name
					}
					r := recvOf(call)
					if r == nil {
						if len(call.Call.Args) > 0 {
							r = call.Call.Args[0]
						} else {
							return ""
						}
					}
					v = r
				}
				return ""
			}
			found := false
			var badProj string
			var pos token.Pos
			check := func(a, b ssa.Value, p token.Pos) {
				if (dW[a] && dH[b]) || (dW[b] && dH[a]) {
					found = true
					pos = p
					for _, x := range []ssa.Value{a, b} {
						if s := weak(x); s != "" {
							badProj = s
						}
					}
				}
			}
			eachInstr(f, func(in ssa.Instruction) {
				switch x := in.(type) {
				case *ssa.BinOp:
					if x.Op == token.EQL || x.Op == token.NEQ {
						check(x.X, x.Y, x.Pos())
					}
				case *ssa.Call:
					full := calleeFull(x)
					if full == "bytes.Equal" || full == "bytes.Compare" {
						check(x.Call.Args[0], x.Call.Args[1], x.Pos())
					} else if methodName(x) == "Equals" && len(x.Call.Args) >= 1 {
						r := recvOf(x)
						a := argsOf(x)
						if r != nil && len(a) == 1 {
							check(r, a[0], x.Pos())
						}
					}
				}
			})
			switch {
			case !found:
				c.bad("T5", cons, w.Pos(), "a received head is re-encoded but the address obtained is never compared with the address the head claims")
			case badProj != "":
				c.bad("T5", cons, pos, fmt.Sprintf("the claimed address of a received head is compared with the recomputed one only through %s(), a projection of the address: a head whose claimed address differs from the real one in the remaining parts (for a CID: version/codec with the same digest) passes, and the entry is then fetched and merged under an address its content does not hash to", badProj))
			default:
				c.ok("T5", cons, pos, "the claimed address is compared as a whole with the address recomputed from the content")
			}
		}
	}
	c.floor("T5", "re-encoding checks of received heads", n, 1)
}

// ---------------------------------------------------------------------------
// I7

func (c *Ctx) ruleI7() {
	idx := map[*types.TypeName]bool{}
	for _, n := range c.indexImpls() {
		idx[n.Obj()] = true
	}
	n := 0
	viol := 0
	for _, f := range c.fnsInPkg("stores/eventlogstore") {
		if c.isTestFile(f.Pos()) {
			continue
		}
		if rn := recvNamed(f); rn != nil && idx[rn.Obj()] {
			continue
		}
		n++
		eachCall(f, func(call ssa.CallInstruction) {
			for m, why := range logOrderSensitive {
				if c.isLogCall(call, m) {
					viol++
					c.bad("I7", fnKey(f)+"→log."+m, call.Pos(), fmt.Sprintf("the event-log store reads the log through %s (%s) instead of selecting a window of the index listing: with concurrent writers the result is not the contiguous window of the total order the bounds describe", m, why))
				}
			}
		})
	}
	c.floor("I7", "event-log store functions", n, 5)
	if viol == 0 {
		c.ok("I7", "eventlogstore#listing-only", token.NoPos, fmt.Sprintf("the event-log store reads entries only through its index listing (%d functions examined)", n))
	}
}

// S1 — a request is not short-circuited by something recorded when an earlier request for
// the same thing merely STARTED. In a function that hands work to the replicator, a branch
// whose condition reads state the same function also writes (a map / sync.Map field of the
// receiver) and one of whose outcomes skips the hand-over is reported: if the earlier request
// was cancelled or failed, every later one is silently dropped.
func (c *Ctx) ruleS1() {
	n := 0
	for _, f := range c.RepoFns {
		if c.isTestFile(f.Pos()) || f.Parent() != nil || f.Signature.Recv() == nil {
			continue
		}
		var loads []ssa.Instruction
		for _, g := range withClosures(f) {
			eachCall(g, func(call ssa.CallInstruction) {
				if methodName(call) == "Load" && recvOf(call) != nil && strings.Contains(typeStr(recvOf(call).Type()), "eplicator") && g == f {
					loads = append(loads, call)
				}
			})
		}
		if len(loads) == 0 || f.Pkg.Pkg.Path() == repoMod+"/stores/replicator" {
			continue
		}
		if !c.isControlFn(f) {
			n++
		}
		cons := fnKey(f) + "→Load#no-started-memo"
		// state written here, or in a same-receiver helper called from here
		written := map[*types.Var]bool{}
		writesOf := func(g *ssa.Function) {
			eachInstr(g, func(in ssa.Instruction) {
				switch x := in.(type) {
				case *ssa.MapUpdate:
					if u, ok := x.Map.(*ssa.UnOp); ok {
						if fa, ok := u.X.(*ssa.FieldAddr); ok && isRecv(g, fa.X) {
							written[fieldVarOf(fa)] = true
						}
					}
				case ssa.CallInstruction:
					full := calleeFull(x)
					if full == "(*sync.Map).Store" || full == "(*sync.Map).LoadOrStore" || full == "(*sync.Map).Swap" {
						if fa, ok := x.Common().Args[0].(*ssa.FieldAddr); ok && isRecv(g, fa.X) {
							written[fieldVarOf(fa)] = true
						}
					}
				}
			})
		}
		var helpers []*ssa.Function
		writesOf(f)
		eachCall(f, func(call ssa.CallInstruction) {
			if _, isGo := call.(*ssa.Go); isGo {
				return
			}
			h := call.Common().StaticCallee()
			if h == nil || h.Blocks == nil || h.Pkg != f.Pkg || h.Signature.Recv() == nil || len(call.Common().Args) == 0 || !isRecv(f, call.Common().Args[0]) {
				return
			}
			helpers = append(helpers, h)
			writesOf(h)
		})
		stateRead := func(g *ssa.Function) []ssa.Value {
			var out []ssa.Value
			eachInstr(g, func(in ssa.Instruction) {
				switch x := in.(type) {
				case *ssa.Lookup:
					if u, ok := x.X.(*ssa.UnOp); ok {
						if fa, ok := u.X.(*ssa.FieldAddr); ok && isRecv(g, fa.X) && written[fieldVarOf(fa)] {
							out = append(out, x)
						}
					}
				case *ssa.Call:
					full := calleeFull(x)
					if full == "(*sync.Map).Load" || full == "(*sync.Map).LoadOrStore" {
						if fa, ok := x.Call.Args[0].(*ssa.FieldAddr); ok && isRecv(g, fa.X) && written[fieldVarOf(fa)] {
							out = append(out, x)
						}
					}
				}
			})
			return out
		}
		seeds := stateRead(f)
		// a helper whose result is such a lookup
		for _, h := range helpers {
			hs := stateRead(h)
			if len(hs) == 0 {
				continue
			}
			dh := derived(hs, flowOpts{})
			returnsState := false
			eachInstr(h, func(in ssa.Instruction) {
				if r, ok := in.(*ssa.Return); ok {
					for _, v := range r.Results {
						for _, rv := range resolveSpill(v) {
							if dh[rv] || dh[v] {
								returnsState = true
							}
						}
					}
				}
			})
			if !returnsState {
				continue
			}
			eachCall(f, func(call ssa.CallInstruction) {
				if call.Common().StaticCallee() == h && call.Value() != nil {
					seeds = append(seeds, call.Value())
				}
			})
		}
		if len(seeds) == 0 {
			c.ok("S1", cons, loads[0].Pos(), "nothing recorded by an earlier call decides whether heads are handed to the replicator")
			continue
		}
		ds := derived(seeds, flowOpts{})
		isLoad := func(in ssa.Instruction) bool {
			for _, l := range loads {
				if in == l {
					return true
				}
			}
			// or feeding the list that is handed over
			if call, ok := in.(*ssa.Call); ok {
				if b, ok := call.Call.Value.(*ssa.Builtin); ok && b.Name() == "append" {
					return true
				}
			}
			return false
		}
		viol := false
		for _, b := range f.Blocks {
			if len(b.Instrs) == 0 {
				continue
			}
			iff, ok := b.Instrs[len(b.Instrs)-1].(*ssa.If)
			if !ok || !ds[iff.Cond] {
				continue
			}
			hdr := loopHeader(b)
			can := func(sc *ssa.BasicBlock) bool {
				if sc == hdr {
					return false
				}
				stop := func(in ssa.Instruction) bool { return hdr != nil && in.Block() == hdr && instrIndex(in) == 0 }
				hit, _ := findPath(f, atBlock(sc), stop, isLoad, nil)
				return hit != nil
			}
			if can(b.Succs[0]) != can(b.Succs[1]) {
				viol = true
				c.bad("S1", cons, bestPos(iff), "a head is skipped because an earlier call recorded it — at the time that call STARTED, not when its load completed: if that request was cancelled, timed out or failed part-way, every later request for the same head is silently dropped and its entries never become visible")
				break
			}
		}
		if !viol {
			c.ok("S1", cons, loads[0].Pos(), "state recorded by earlier calls never makes a head skip the hand-over to the replicator")
		}
	}
	c.floor("S1", "functions handing heads to the replicator", n, 1)
}
