package main

import (
	"fmt"
	"go/token"
	"go/types"
	"sort"
	"strings"

	"golang.org/x/tools/go/ssa"
)

// rulesTransport: X1 (self filter), X2 (symmetric channel id), X3 (frame format agreement),
// W1 (announce/exchange wiring).
func rulesTransport(c *Ctx) {
	c.ruleX1()
	c.ruleX2()
	c.ruleX3()
	c.ruleW1()
}

func isSubNext(call ssa.CallInstruction) bool {
	if methodName(call) != "Next" {
		return false
	}
	r := recvOf(call)
	if r == nil {
		return false
	}
	t := typeStr(r.Type())
	return strings.HasSuffix(t, "coreiface.PubSubSubscription") || strings.HasSuffix(t, "go-libp2p-pubsub.Subscription")
}

// delivery: handing the message on (send on a channel or emit on an emitter).
func isDelivery(in ssa.Instruction) bool {
	switch x := in.(type) {
	case *ssa.Send:
		return true
	case ssa.CallInstruction:
		return methodName(x) == "Emit"
	}
	return false
}

func (c *Ctx) ruleX1() {
	n := 0
	for _, f := range c.RepoFns {
		if c.isTestFile(f.Pos()) || !strings.HasPrefix(f.Pkg.Pkg.Path(), repoMod+"/pubsub") {
			continue
		}
		eachCall(f, func(call ssa.CallInstruction) {
			if !isSubNext(call) || call.Value() == nil {
				return
			}
			n++
			cons := fnKey(f) + "→Next#self-filter"
			d := derived([]ssa.Value{call.Value()}, flowOpts{throughCalls: true})
			// comparisons of the sender with something else
			var cmps []*ssa.If
			neEdge := map[*ssa.If]int{}
			eachInstr(f, func(in ssa.Instruction) {
				bo, ok := in.(*ssa.BinOp)
				if !ok || (bo.Op != token.EQL && bo.Op != token.NEQ) {
					return
				}
				sender := false
				for _, o := range []ssa.Value{bo.X, bo.Y} {
					s := nf(o)
					if d[o] && (strings.Contains(s, "From") || strings.Contains(s, "GetFrom")) {
						sender = true
					}
				}
				if !sender {
					return
				}
				// the other side must be the local id (a field of the receiver / owner)
				for _, r := range *bo.Referrers() {
					if iff, ok := r.(*ssa.If); ok {
						cmps = append(cmps, iff)
						if bo.Op == token.EQL {
							neEdge[iff] = 1
						} else {
							neEdge[iff] = 0
						}
					}
				}
			})
			if len(cmps) == 0 {
				c.bad("X1", cons, call.Pos(), "messages read from the subscription are passed on without comparing their sender with the local peer id: a peer receives (and syncs) its own announcements")
				return
			}
			cut := func(b *ssa.BasicBlock, si int) bool {
				for _, iff := range cmps {
					if iff.Block() == b {
						return si == neEdge[iff]
					}
				}
				return false
			}
			via := func(in ssa.Instruction) bool { return in == ssa.Instruction(call) }
			if hit, tr := findPath(f, after(call), via, isDelivery, cut); hit != nil {
				c.bad("X1", cons, hit.Pos(), "a message can be delivered on a path that does not pass the sender ≠ self comparison", c.trailStr(tr)...)
			} else {
				c.ok("X1", cons, call.Pos(), "every delivery is dominated by the sender ≠ self outcome of the comparison with the local peer id")
			}
		})
	}
	c.floor("X1", "subscription read loops", n, 3)
}

func (c *Ctx) ruleX2() {
	n := 0
	for _, f := range c.fnsInPkg("pubsub/oneonone") {
		if c.isTestFile(f.Pos()) || f.Parent() != nil {
			continue
		}
		eachCall(f, func(call ssa.CallInstruction) {
			if calleeFull(call) != "strings.Join" {
				return
			}
			n++
			cons := fnKey(f) + "→channel-id"
			sl := call.Common().Args[0]
			elems := variadicElems(sl)
			if len(elems) == 0 {
				// a named slice variable: find its literal
				if u, ok := sl.(*ssa.UnOp); ok {
					if s := uniqueStore(u.X); s != nil {
						elems = variadicElems(s)
						sl = s
					}
				}
			}
			hasSelf, hasPeer := false, false
			for _, e := range elems {
				s := nf(e)
				if strings.Contains(s, "selfID") || (strings.Contains(s, "param:c.") && !strings.Contains(s, "param:p")) {
					hasSelf = true
				}
				if strings.Contains(s, "param:p") {
					hasPeer = true
				}
			}
			if len(elems) != 2 || !hasSelf || !hasPeer {
				c.bad("X2", cons, call.Pos(), fmt.Sprintf("the pairwise channel name is not built from exactly the local and the remote peer id (%d elements)", len(elems)))
				return
			}
			// a sort call on the same slice dominates the join
			dsl := map[string]bool{nf(sl): true}
			if sv, ok := sl.(*ssa.Slice); ok {
				dsl[nf(sv.X)] = true
			}
			isSort := func(in ssa.Instruction) bool {
				cl, ok := in.(ssa.CallInstruction)
				if !ok {
					return false
				}
				switch calleeFull(cl) {
				case "sort.Slice", "sort.SliceStable", "sort.Strings", "slices.Sort", "sort.Sort":
				default:
					return false
				}
				a := cl.Common().Args[0]
				s := nf(a)
				if dsl[s] {
					return true
				}
				if mi, ok := a.(*ssa.MakeInterface); ok {
					if dsl[nf(mi.X)] {
						return true
					}
					if u, ok := mi.X.(*ssa.UnOp); ok {
						if st := uniqueStore(u.X); st != nil && (st == sl || dsl[nf(st)]) {
							return true
						}
					}
				}
				if u, ok := a.(*ssa.UnOp); ok {
					if st := uniqueStore(u.X); st != nil && (st == sl || dsl[nf(st)]) {
						return true
					}
				}
				return false
			}
			target := func(in ssa.Instruction) bool { return in == ssa.Instruction(call) }
			if hit, _ := findPath(f, entry, isSort, target, nil); hit != nil {
				c.bad("X2", cons, call.Pos(), "the two peer ids are joined without being sorted first: the two ends derive different channel names and never meet")
			} else {
				c.ok("X2", cons, call.Pos(), "channel name = join of the sorted pair {local id, remote id}")
			}
		})
	}
	// the other way to order a pair: compare and swap, then concatenate
	for _, f := range c.fnsInPkg("pubsub/oneonone") {
		if c.isTestFile(f.Pos()) || f.Parent() != nil || n > 0 {
			continue
		}
		if f.Signature.Results().Len() != 1 || typeStr(f.Signature.Results().At(0).Type()) != "string" {
			continue
		}
		var phis []*ssa.Phi
		eachInstr(f, func(in ssa.Instruction) {
			if ph, ok := in.(*ssa.Phi); ok && typeStr(ph.Type()) == "string" && len(ph.Edges) == 2 {
				phis = append(phis, ph)
			}
		})
		for i := 0; i < len(phis); i++ {
			for j := i + 1; j < len(phis); j++ {
				a, b := phis[i], phis[j]
				if a.Block() != b.Block() || a.Edges[0] != b.Edges[1] || a.Edges[1] != b.Edges[0] || a.Edges[0] == a.Edges[1] {
					continue
				}
				x, y := a.Edges[0], a.Edges[1]
				sx, sy := nf(x), nf(y)
				self := strings.Contains(sx, "selfID") || strings.Contains(sy, "selfID")
				peer := strings.Contains(sx, "param:p") || strings.Contains(sy, "param:p")
				if !self || !peer {
					continue
				}
				// the selection is decided by a comparison of the two strings
				decided := false
				dxy := derived([]ssa.Value{x, y}, flowOpts{throughCalls: true})
				for _, pr := range a.Block().Preds {
					for _, q := range append([]*ssa.BasicBlock{pr}, pr.Preds...) {
						if len(q.Instrs) == 0 {
							continue
						}
						if iff, ok := q.Instrs[len(q.Instrs)-1].(*ssa.If); ok && dxy[iff.Cond] {
							decided = true
						}
					}
				}
				// both ordered values reach the returned name
				dab := derived([]ssa.Value{a}, flowOpts{throughCalls: true})
				dbb := derived([]ssa.Value{b}, flowOpts{throughCalls: true})
				both := false
				eachInstr(f, func(in ssa.Instruction) {
					if r, ok := in.(*ssa.Return); ok && len(r.Results) == 1 {
						for _, v := range resolveSpill(r.Results[0]) {
							if dab[v] && dbb[v] {
								both = true
							}
						}
					}
				})
				if !both {
					continue
				}
				n++
				cons := fnKey(f) + "→channel-id"
				if decided {
					c.ok("X2", cons, a.Pos(), "channel name = the local and the remote id put in order by a comparison, then concatenated")
				} else {
					c.bad("X2", cons, a.Pos(), "the two peer ids are swapped on a condition that does not compare them: the two ends can derive different channel names")
				}
			}
		}
	}
	c.floor("X2", "pairwise channel name constructions", n, 1)
}

var binPairs = map[string]string{
	"PutUvarint": "ReadUvarint|Uvarint", "PutVarint": "ReadVarint|Varint", "AppendUvarint": "ReadUvarint|Uvarint",
	"PutUint16": "Uint16", "PutUint32": "Uint32", "PutUint64": "Uint64",
	"AppendUint16": "Uint16", "AppendUint32": "Uint32", "AppendUint64": "Uint64", "AppendVarint": "ReadVarint|Varint",
}

func (c *Ctx) ruleX3() {
	type side struct {
		ops   map[string]token.Pos
		order map[string]bool
	}
	pk := map[string]*[2]side{} // package → [writer, reader]
	get := func(p string) *[2]side {
		if pk[p] == nil {
			pk[p] = &[2]side{{map[string]token.Pos{}, map[string]bool{}}, {map[string]token.Pos{}, map[string]bool{}}}
		}
		return pk[p]
	}
	for _, f := range c.RepoFns {
		if c.isTestFile(f.Pos()) || c.isControlFn(f) {
			continue
		}
		pp := strings.TrimPrefix(f.Pkg.Pkg.Path(), repoMod+"/")
		eachCall(f, func(call ssa.CallInstruction) {
			full := calleeFull(call)
			if !strings.HasPrefix(full, "encoding/binary.") && !strings.HasPrefix(full, "(encoding/binary.") {
				return
			}
			m := methodName(call)
			s := get(pp)
			idx := 1
			if strings.HasPrefix(m, "Put") || strings.HasPrefix(m, "Append") {
				idx = 0
			}
			s[idx].ops[m] = call.Pos()
			if r := recvOf(call); r != nil {
				s[idx].order[nf(r)] = true
			} else if call.Common().IsInvoke() {
				s[idx].order[nf(call.Common().Value)] = true
			}
		})
	}
	var names []string
	for p := range pk {
		names = append(names, p)
	}
	sort.Strings(names)
	n := 0
	for _, p := range names {
		s := pk[p]
		for w, pos := range s[0].ops {
			n++
			want := strings.Split(binPairs[w], "|")
			found := false
			for r := range s[1].ops {
				for _, x := range want {
					if r == x {
						found = true
					}
				}
			}
			cons := p + "#frame:" + w
			if found {
				c.ok("X3", cons, pos, fmt.Sprintf("writer uses %s and the reader of the same package uses the matching decoder", w))
			} else {
				var rs []string
				for r := range s[1].ops {
					rs = append(rs, r)
				}
				sort.Strings(rs)
				c.bad("X3", cons, pos, fmt.Sprintf("writer encodes the length with %s but the reader decodes with %v: every frame is misparsed", w, rs))
			}
		}
		if len(s[0].order) > 0 && len(s[1].order) > 0 {
			same := true
			for o := range s[0].order {
				if !s[1].order[o] {
					same = false
				}
			}
			for o := range s[1].order {
				if !s[0].order[o] {
					same = false
				}
			}
			cons := p + "#byte-order"
			if same {
				c.ok("X3", cons, token.NoPos, "writer and reader use the same byte order object")
			} else {
				c.bad("X3", cons, token.NoPos, fmt.Sprintf("writer and reader use different byte orders (%v vs %v)", keysB(s[0].order), keysB(s[1].order)))
			}
		}
	}
	c.floor("X3", "binary encode sites", n, 2)
	// the payload event is attributed to the stream's remote peer
	m := 0
	for _, f := range c.fnsInPkg("pubsub/directchannel") {
		if c.isTestFile(f.Pos()) {
			continue
		}
		eachCall(f, func(call ssa.CallInstruction) {
			if calleeFull(call) != repoMod+"/pubsub.NewEventPayload" {
				return
			}
			m++
			cons := fnKey(f) + "→payload#peer"
			peer := nf(call.Common().Args[1])
			if strings.Contains(peer, "RemotePeer()") && strings.HasPrefix(peer, "param:") {
				c.ok("X3", cons, call.Pos(), "the payload is attributed to the stream's remote peer")
			} else {
				c.bad("X3", cons, call.Pos(), "the payload read from a stream is not attributed to that stream's remote peer ("+peer+")")
			}
			// and the payload is the buffer that was fully read
			data := call.Common().Args[0]
			full := false
			eachCall(f, func(rc ssa.CallInstruction) {
				if calleeFull(rc) == "io.ReadFull" && len(rc.Common().Args) == 2 && rc.Common().Args[1] == data {
					full = true
				}
			})
			// the frame may be read by a helper that hands the buffer back: every buffer it
			// returns (other than nil) is one it filled with io.ReadFull
			if !full {
				src := data
				if ex, ok := src.(*ssa.Extract); ok {
					src = ex.Tuple
				}
				if hc, ok := src.(*ssa.Call); ok {
					if h := hc.Call.StaticCallee(); h != nil && h.Blocks != nil && h.Pkg == f.Pkg {
						okAll, any := true, false
						eachInstr(h, func(in ssa.Instruction) {
							r, isRet := in.(*ssa.Return)
							if !isRet || len(r.Results) == 0 {
								return
							}
							for _, rv := range resolveSpill(r.Results[0]) {
								if isNilConst(rv) {
									continue
								}
								any = true
								filled := false
								eachCall(h, func(rc ssa.CallInstruction) {
									if calleeFull(rc) == "io.ReadFull" && len(rc.Common().Args) == 2 && rc.Common().Args[1] == rv {
										filled = true
									}
								})
								if !filled {
									okAll = false
								}
							}
						})
						full = any && okAll
					}
				}
			}
			if full {
				c.ok("X3", fnKey(f)+"→payload#full-read", call.Pos(), "the delivered buffer is the one filled by io.ReadFull")
			} else {
				c.bad("X3", fnKey(f)+"→payload#full-read", call.Pos(), "the delivered buffer is not filled by a full read: short reads deliver truncated payloads padded with zeros")
			}
		})
	}
	c.floor("X3", "stream payload emissions", m, 1)
}

func keysB(m map[string]bool) []string {
	var out []string
	for k := range m {
		out = append(out, k)
	}
	sort.Strings(out)
	return out
}

// ---------------------------------------------------------------------------
// W1

func (c *Ctx) ruleW1() {
	isDCSend := func(call ssa.CallInstruction) bool {
		return methodName(call) == "Send" && call.Common().IsInvoke() && strings.HasSuffix(typeStr(call.Common().Value.Type()), "iface.DirectChannel")
	}
	st := c.storeType()
	if st == nil {
		c.floor("W1", "store type", 0, 1)
		return
	}
	// (a) the peer-join branch reaches the head exchange
	nJoin := 0
	for _, f := range c.methodsOf(st) {
		eachInstr(f, func(in ssa.Instruction) {
			ta, ok := in.(*ssa.TypeAssert)
			if !ok || !strings.HasSuffix(typeStr(ta.AssertedType), "iface.EventPubSubJoin") {
				return
			}
			nJoin++
			cons := fnKey(f) + "→peer-join→exchange"
			// find the block taken when the assertion holds
			reach := false
			var region *ssa.BasicBlock
			if ta.CommaOk {
				for _, r := range *ta.Referrers() {
					if ex, ok := r.(*ssa.Extract); ok && ex.Index == 1 {
						for _, u := range *ex.Referrers() {
							if iff, ok := u.(*ssa.If); ok {
								region = iff.Block().Succs[0]
							}
						}
					}
				}
			}
			if region == nil {
				region = ta.Block()
			}
			for _, b := range f.Blocks {
				if !dominates(region, b) {
					continue
				}
				for _, x := range b.Instrs {
					call, ok := x.(ssa.CallInstruction)
					if !ok {
						continue
					}
					for _, g := range c.repoCalleesCheap(call) {
						if c.reachesCall(g, isDCSend, 0, map[*ssa.Function]bool{}) {
							reach = true
						}
					}
				}
			}
			if reach {
				c.ok("W1", cons, ta.Pos(), "a peer joining the topic triggers the head exchange")
			} else {
				c.bad("W1", cons, ta.Pos(), "the branch handling a peer joining the topic never reaches the head exchange: a peer that connects after the writes stopped is never told about them")
			}
		})
	}
	c.floor("W1", "peer-join handlers", nJoin, 1)
	// (b) the exchange puts the cached heads into the message and sends on the success path
	nEx := 0
	for _, f := range c.methodsOf(st) {
		if f.Parent() != nil {
			continue
		}
		var sends []ssa.CallInstruction
		eachCall(f, func(call ssa.CallInstruction) {
			if isDCSend(call) {
				sends = append(sends, call)
			}
		})
		if len(sends) == 0 {
			continue
		}
		nEx++
		fk := fnKey(f)
		// heads read from the cache flow into the payload
		var gets []ssa.Value
		var getKeys []string
		eachCall(f, func(call ssa.CallInstruction) {
			if k, ok := c.cacheGetKey(call); ok && call.Value() != nil {
				gets = append(gets, call.Value())
				getKeys = append(getKeys, k)
				return
			}
			// the cache reads may sit in a helper that returns the decoded heads
			h := call.Common().StaticCallee()
			if h == nil || h.Blocks == nil || h.Pkg != f.Pkg || call.Value() == nil {
				return
			}
			eachCall(h, func(ic ssa.CallInstruction) {
				k, ok := c.cacheGetKey(ic)
				if !ok || ic.Value() == nil {
					return
				}
				dh := derived([]ssa.Value{ic.Value()}, flowOpts{throughCalls: true})
				returned := false
				eachInstr(h, func(in ssa.Instruction) {
					if r, ok := in.(*ssa.Return); ok {
						for _, v := range r.Results {
							if dh[v] {
								returned = true
							}
							for _, y := range resolveSpill(v) {
								if dh[y] {
									returned = true
								}
							}
						}
					}
				})
				if returned {
					gets = append(gets, call.Value())
					getKeys = append(getKeys, k)
				}
			})
		})
		for i, g := range gets {
			d := derived([]ssa.Value{g}, flowOpts{throughCalls: true})
			flows := false
			for _, s := range sends {
				for _, a := range argsOf(s) {
					if d[a] {
						flows = true
					}
				}
			}
			cons := fk + "→Get(" + getKeys[i] + ")→Send"
			if flows && c.isLocalHeadKey(getKeys[i]) {
				// the head of the node's own writes must be in the message on EVERY path, not just
				// on some: no phi on the way may select between a value carrying it and one that does not
				if phi := selectionWithout(d); phi != nil {
					c.bad("W1", cons+"#always", bestPos(phi), "on some path the message sent to a joining peer leaves out the heads cached under "+getKeys[i]+" (the value sent is selected between one built from them and one that is not): writes made after the last merged batch are never re-announced once their own announcement was lost")
				} else {
					c.ok("W1", cons+"#always", bestPos(g.(ssa.Instruction)), "no selection on the way to the message can leave the locally written head out")
				}
			}
			if flows {
				c.ok("W1", cons, bestPos(g.(ssa.Instruction)), "heads read from this key are part of the message sent to the joining peer")
			} else {
				c.bad("W1", cons, bestPos(g.(ssa.Instruction)), "heads read from the cache never reach the message sent to the joining peer")
			}
		}
		send := func(in ssa.Instruction) bool {
			call, ok := in.(ssa.CallInstruction)
			return ok && isDCSend(call)
		}
		if hit, tr := findPath(f, entry, send, func(in ssa.Instruction) bool {
			r, ok := in.(*ssa.Return)
			return ok && isNilErrReturn(r)
		}, nil); hit != nil {
			c.bad("W1", fk+"→Send#success-path", hit.Pos(), "the head exchange can report success without having sent anything", c.trailStr(tr)...)
		} else {
			c.ok("W1", fk+"→Send#success-path", sends[0].Pos(), "every successful return of the exchange passes the Send")
		}
		// the message carries the store's own address
		okAddr := false
		for _, av := range c.messageFieldValues(f, "Address") {
			v := nf(av)
			if strings.HasPrefix(v, "param:b") || strings.HasPrefix(v, "param:"+f.Params[0].Name()) {
				okAddr = true
			}
		}
		if okAddr {
			c.ok("W1", fk+"→message#address", f.Pos(), "the exchanged message names the store's own address")
		} else {
			c.bad("W1", fk+"→message#address", f.Pos(), "the exchanged message does not carry the store's own address: the receiver cannot route it")
		}
	}
	c.floor("W1", "head-exchange functions", nEx, 1)
	// (c) Sync hands the heads to the replicator on its success path
	syncFn := c.methodOf(st, "Sync")
	if syncFn != nil && syncFn.Blocks != nil {
		isLoadCall := func(call ssa.CallInstruction) bool {
			if methodName(call) != "Load" {
				return false
			}
			r := recvOf(call)
			return r != nil && strings.Contains(typeStr(r.Type()), "eplicator")
		}
		isLoad := func(in ssa.Instruction) bool {
			call, ok := in.(ssa.CallInstruction)
			if !ok {
				return false
			}
			if isLoadCall(call) {
				return true
			}
			// the hand-over may be wrapped in a function literal that is called or started here
			if mc, ok := call.Common().Value.(*ssa.MakeClosure); ok {
				if fn, ok := mc.Fn.(*ssa.Function); ok {
					return c.mustDo(newKind("replicator-load", isLoadCall), fn, 1)
				}
			}
			return false
		}
		// the only success exits allowed to skip Load are those guarded by "no heads"
		cut := func(b *ssa.BasicBlock, si int) bool {
			iff, ok := b.Instrs[len(b.Instrs)-1].(*ssa.If)
			if !ok {
				return false
			}
			bo, ok := iff.Cond.(*ssa.BinOp)
			if !ok {
				return false
			}
			if call, ok := bo.X.(*ssa.Call); ok {
				if bi, ok := call.Call.Value.(*ssa.Builtin); ok && bi.Name() == "len" {
					if z, ok := constInt(bo.Y); ok && z == 0 && bo.Op == token.EQL {
						return si == 0
					}
				}
			}
			return false
		}
		cons := fnKey(syncFn) + "→replicator.Load"
		if hit, tr := findPath(syncFn, entry, isLoad, func(in ssa.Instruction) bool {
			r, ok := in.(*ssa.Return)
			return ok && isNilErrReturn(r)
		}, cut); hit != nil {
			c.bad("W1", cons, hit.Pos(), "Sync can return success for a non-empty list of heads without handing them to the replicator: announced entries are never fetched", c.trailStr(tr)...)
		} else {
			c.ok("W1", cons, syncFn.Pos(), "every successful Sync of a non-empty list hands the heads to the replicator")
		}
	}
	// (d) the write listener publishes the store's own address on its topic
	nPub := 0
	for _, f := range c.methodsOf(st) {
		var pubs []ssa.CallInstruction
		eachCall(f, func(call ssa.CallInstruction) {
			if methodName(call) == "Publish" && call.Common().IsInvoke() && strings.HasSuffix(typeStr(call.Common().Value.Type()), "iface.PubSubTopic") {
				pubs = append(pubs, call)
			}
		})
		if len(pubs) == 0 {
			continue
		}
		nPub++
		fk := fnKey(f)
		okAddr := false
		headsFromEvent := len(c.messageFieldValues(f, "Heads")) > 0
		for _, av := range c.messageFieldValues(f, "Address") {
			if strings.HasPrefix(nf(av), "param:"+f.Params[0].Name()) {
				okAddr = true
			}
		}
		if okAddr && headsFromEvent {
			c.ok("W1", fk+"→Publish#message", pubs[0].Pos(), "the announcement carries the store's own address and the event's heads")
		} else {
			c.bad("W1", fk+"→Publish#message", pubs[0].Pos(), "the announcement published after a write does not carry the store's own address and heads")
		}
	}
	c.floor("W1", "announcement publishers", nPub, 1)
	_ = types.Typ
}

// messageFieldValues: the values stored into the given field of a heads message built by f,
// or by a same-package function f calls with them (a parameter of that function stands for the
// argument f passes).
func (c *Ctx) messageFieldValues(f *ssa.Function, field string) []ssa.Value {
	var out []ssa.Value
	scan := func(g *ssa.Function, mapParam func(ssa.Value) ssa.Value) {
		eachInstr(g, func(in ssa.Instruction) {
			st, ok := in.(*ssa.Store)
			if !ok {
				return
			}
			fa, ok := st.Addr.(*ssa.FieldAddr)
			if !ok || !strings.Contains(typeStr(fa.X.Type()), "MessageExchangeHeads") || fieldName(fa.X.Type(), fa.Field) != field {
				return
			}
			out = append(out, mapParam(st.Val))
		})
	}
	scan(f, func(v ssa.Value) ssa.Value { return v })
	eachCall(f, func(call ssa.CallInstruction) {
		h := call.Common().StaticCallee()
		if h == nil || h.Blocks == nil || h.Pkg != f.Pkg || h == f {
			return
		}
		scan(h, func(v ssa.Value) ssa.Value {
			for i, p := range h.Params {
				if v == ssa.Value(p) && i < len(call.Common().Args) {
					return call.Common().Args[i]
				}
			}
			return v
		})
	})
	return out
}

// isLocalHeadKey: the key is persisted by a function that appends to the log.
func (c *Ctx) isLocalHeadKey(key string) bool {
	for _, f := range c.RepoFns {
		if c.isTestFile(f.Pos()) || c.isControlFn(f) {
			continue
		}
		hasApp, hasPut := false, false
		eachCall(f, func(call ssa.CallInstruction) {
			if c.isLogCall(call, "Append") {
				hasApp = true
			}
			if hasKey(c.cachePutKeys(call), key) {
				hasPut = true
			}
		})
		if hasApp && hasPut {
			return true
		}
	}
	return false
}

// selectionWithout: within a derived set, a phi that merges a derived value with an
// alternative that is not derived, other than the accumulator idiom (the phi of a loop
// header whose non-derived edges are its initial value from outside the loop, or itself).
func selectionWithout(d map[ssa.Value]bool) *ssa.Phi {
	for v := range d {
		phi, ok := v.(*ssa.Phi)
		if !ok {
			continue
		}
		// only phis of container/pointer-ish values matter (slices, byte slices, pointers)
		switch phi.Type().Underlying().(type) {
		case *types.Slice, *types.Pointer, *types.Map:
		default:
			continue
		}
		hdr := loopHeader(phi.Block())
		isHeaderPhi := hdr != nil && hdr == phi.Block()
		for i, e := range phi.Edges {
			if d[e] || e == ssa.Value(phi) {
				continue
			}
			if isNilConst(e) {
				// nil alternative: nothing sent instead — still a path without the value
			}
			pred := phi.Block().Preds[i]
			if isHeaderPhi && !sameLoop(hdr, pred) {
				continue // initial value of an accumulator
			}
			if ph2, ok := e.(*ssa.Phi); ok && d[ph2] {
				continue
			}
			return phi
		}
	}
	return nil
}
