package main

import (
	"fmt"
	"go/token"
	"go/types"
	"sort"
	"strings"

	"golang.org/x/tools/go/ssa"
)

// rulesLife: G1 (goroutines have an owner-tied exit), G3 (close reaches everything it owns),
// G4 (no self-deadlock), G5 (idempotence guard), G6 (condition-variable discipline),
// D1 (drop removes only this database's directory).
func rulesLife(c *Ctx) {
	c.ruleG1()
	c.ruleG3()
	c.ruleG4()
	c.ruleG5()
	c.ruleG6()
}

// ---------------------------------------------------------------------------
// G1

type goSite struct {
	g    *ssa.Go
	body *ssa.Function
	fn   *ssa.Function
}

func (c *Ctx) goSites() []goSite {
	var out []goSite
	for _, f := range c.RepoFns {
		if c.isTestFile(f.Pos()) {
			continue
		}
		eachInstr(f, func(in ssa.Instruction) {
			g, ok := in.(*ssa.Go)
			if !ok {
				return
			}
			var body *ssa.Function
			switch v := g.Call.Value.(type) {
			case *ssa.MakeClosure:
				body, _ = v.Fn.(*ssa.Function)
			case *ssa.Function:
				body = v
			}
			if body == nil {
				if cs := c.repoCallees(g); len(cs) == 1 {
					body = cs[0]
				}
			}
			out = append(out, goSite{g, body, f})
		})
	}
	return out
}

// loopExitKinds: for every edge leaving the loop (or return inside it) the kinds of the
// conditions that decide it. Edges into a block that only panics ("blocking select matched
// no case") are not exits.
func (c *Ctx) loopExitKinds(hdr *ssa.BasicBlock) []string {
	f := hdr.Parent()
	kinds := map[string]bool{}
	inL := func(b *ssa.BasicBlock) bool { return sameLoop(hdr, b) }
	if r := rangedOperand(hdr); r != "" {
		kinds["bounded-range"] = true
	}
	panics := func(b *ssa.BasicBlock) bool {
		if len(b.Instrs) == 0 {
			return false
		}
		_, ok := b.Instrs[len(b.Instrs)-1].(*ssa.Panic)
		return ok
	}
	addCond := func(cond ssa.Value, pol bool) {
		for {
			u, ok := cond.(*ssa.UnOp)
			if !ok || u.Op != token.NOT {
				break
			}
			cond, pol = u.X, !pol
		}
		// select arm: index == k
		if bo, ok := cond.(*ssa.BinOp); ok && bo.Op == token.EQL {
			if ex, ok := bo.X.(*ssa.Extract); ok && ex.Index == 0 {
				if sel, ok := ex.Tuple.(*ssa.Select); ok {
					if k, ok := constInt(bo.Y); ok && pol && int(k) < len(sel.States) {
						st := sel.States[k]
						if st.Dir == types.RecvOnly && isDoneChan(st.Chan) {
							kinds["ctx-done"] = true
						} else if st.Dir == types.RecvOnly {
							kinds["select-recv"] = true
						} else {
							kinds["select-send"] = true
						}
					}
					return
				}
			}
		}
		for _, k := range c.condKinds(cond, 0) {
			kinds[k] = true
		}
	}
	for _, b := range f.Blocks {
		if len(b.Instrs) == 0 || !dominates(hdr, b) {
			continue
		}
		type exit struct{ edge int }
		var exits []exit
		// returns anywhere in the region the header dominates (a select arm that returns is
		// not part of the natural loop, it cannot reach the header again)
		if blockReturns(b) != nil {
			exits = append(exits, exit{-1})
		}
		if inL(b) {
			for i, s := range b.Succs {
				if !inL(s) && !panics(s) {
					exits = append(exits, exit{i})
				}
			}
		}
		if len(exits) == 0 {
			continue
		}
		for _, e := range exits {
			if iff, ok := b.Instrs[len(b.Instrs)-1].(*ssa.If); ok && e.edge >= 0 {
				addCond(iff.Cond, e.edge == 0)
			}
			// conditions whose outcome led into b
			for _, d := range f.Blocks {
				if !dominates(hdr, d) || len(d.Instrs) == 0 || d == b {
					continue
				}
				iff, ok := d.Instrs[len(d.Instrs)-1].(*ssa.If)
				if !ok {
					continue
				}
				if branchCovers(d.Succs[0], b) && !branchCovers(d.Succs[1], b) {
					addCond(iff.Cond, true)
				} else if branchCovers(d.Succs[1], b) && !branchCovers(d.Succs[0], b) {
					addCond(iff.Cond, false)
				}
			}
		}
	}
	var out []string
	for k := range kinds {
		out = append(out, k)
	}
	sort.Strings(out)
	return out
}

// condKinds classifies what a branch condition depends on.
func (c *Ctx) condKinds(v ssa.Value, depth int) []string {
	if depth > 6 {
		return nil
	}
	var out []string
	switch x := v.(type) {
	case *ssa.BinOp:
		out = append(out, c.condKinds(x.X, depth+1)...)
		out = append(out, c.condKinds(x.Y, depth+1)...)
	case *ssa.UnOp:
		if x.Op == token.ARROW {
			if isDoneChan(x.X) {
				out = append(out, "ctx-done")
			} else {
				out = append(out, "chan-recv")
			}
		} else {
			out = append(out, c.condKinds(x.X, depth+1)...)
		}
	case *ssa.Extract:
		switch t := x.Tuple.(type) {
		case *ssa.Select:
			// a value (or its ok flag) received in a select arm: closing the channel decides
			if x.Index >= 1 {
				out = append(out, "chan-recv")
			}
		case *ssa.UnOp:
			if t.Op == token.ARROW && t.CommaOk {
				out = append(out, "chan-close")
			}
		case *ssa.Next:
			out = append(out, "bounded-range")
			if rg, ok := t.Iter.(*ssa.Range); ok {
				if _, isChan := rg.X.Type().Underlying().(*types.Chan); isChan {
					out = append(out, "chan-close")
				}
			}
		case *ssa.Call:
			out = append(out, c.callKinds(t)...)
		case *ssa.TypeAssert:
			out = append(out, c.condKinds(t.X, depth+1)...)
		}
	case *ssa.Call:
		out = append(out, c.callKinds(x)...)
	case *ssa.Phi:
		for _, e := range x.Edges {
			out = append(out, c.condKinds(e, depth+1)...)
		}
	}
	return out
}

func (c *Ctx) callKinds(call *ssa.Call) []string {
	name := methodName(call)
	if name == "Err" && strings.HasSuffix(typeStr(call.Call.Signature().Recv().Type()), "context.Context") {
		return []string{"ctx-done"}
	}
	// a call that takes a context and returns an error: leaves when the context is cancelled
	for _, a := range call.Call.Args {
		if typeStr(a.Type()) == "context.Context" {
			return []string{"ctx-call-error"}
		}
	}
	if b, ok := call.Call.Value.(*ssa.Builtin); ok && b.Name() == "len" {
		return []string{"data"}
	}
	return []string{"data"}
}

func (c *Ctx) ruleG1() {
	sites := c.goSites()
	nGo := 0
	for _, s := range sites {
		if !c.isControlFn(s.fn) {
			nGo++
		}
	}
	c.floor("G1", "go statements in non-test code", nGo, 20)
	ord := map[*ssa.Function]int{}
	for _, s := range sites {
		k := ord[s.fn]
		ord[s.fn]++
		cons := fmt.Sprintf("%s→go#%d", fnKey(s.fn), k)
		if s.body == nil || s.body.Blocks == nil {
			c.ok("G1", cons, s.g.Pos(), "goroutine runs a dependency/interface function (not analysed: no loops of this repo)")
			continue
		}
		// (a) loops
		var problems []string
		var ppos token.Pos
		var kindsAll []string
		seenHdr := map[*ssa.BasicBlock]bool{}
		for _, b := range s.body.Blocks {
			h := loopHeader(b)
			if h == nil || seenHdr[h] {
				continue
			}
			seenHdr[h] = true
			ks := c.loopExitKinds(h)
			kindsAll = append(kindsAll, ks...)
			owner := false
			for _, k := range ks {
				switch k {
				case "ctx-done", "chan-close", "ctx-call-error", "bounded-range", "chan-recv":
					owner = true
				}
			}
			if !owner {
				problems = append(problems, fmt.Sprintf("the loop at %s has no exit tied to its owner (no ctx.Done, channel close or context-taking call decides any of its exits; exits depend on: %v)", c.pos(bestPos(h.Instrs[0])), ks))
				ppos = bestPos(h.Instrs[0])
			}
		}
		if len(problems) > 0 {
			c.bad("G1", cons, ppos, "goroutine can outlive its owner: "+strings.Join(problems, "; "))
		} else {
			sort.Strings(kindsAll)
			c.ok("G1", cons, s.g.Pos(), fmt.Sprintf("every loop of the goroutine has an owner-tied exit %v", uniq(kindsAll)))
		}
	}
	// (b) unconditional sends from goroutine code on channels whose receiver can walk away
	c.ruleG1b(sites)
}

func uniq(xs []string) []string {
	var out []string
	for i, x := range xs {
		if i == 0 || xs[i-1] != x {
			out = append(out, x)
		}
	}
	return out
}

// chanUses follows a channel created in f into closures and static callees (2 levels) and
// collects unconditional sends and the receive sites.
type chanUse struct {
	sends      []ssa.Instruction // plain sends (not in a select)
	sendInLoop bool
	recvSelect []*ssa.Select // receives inside a select with other arms
	recvPlain  int
}

func (c *Ctx) followChan(mk *ssa.MakeChan) chanUse {
	var u chanUse
	seen := map[ssa.Value]bool{}
	var follow func(v ssa.Value, depth int)
	follow = func(v ssa.Value, depth int) {
		if depth > 3 {
			return
		}
		d := derived([]ssa.Value{v}, flowOpts{intoClosures: true})
		for x := range d {
			if seen[x] {
				continue
			}
			seen[x] = true
			refs := x.Referrers()
			if refs == nil {
				continue
			}
			for _, r := range *refs {
				switch y := r.(type) {
				case *ssa.Send:
					if y.Chan == x {
						u.sends = append(u.sends, y)
						if inLoop(y.Block()) {
							u.sendInLoop = true
						}
					}
				case *ssa.UnOp:
					if y.Op == token.ARROW && y.X == x {
						u.recvPlain++
					}
				case *ssa.Range:
					u.recvPlain++
				case *ssa.Select:
					for _, s := range y.States {
						if s.Chan == x && s.Dir == types.RecvOnly && len(y.States) > 1 {
							u.recvSelect = append(u.recvSelect, y)
						}
					}
				case ssa.CallInstruction:
					if g := y.Common().StaticCallee(); g != nil && g.Blocks != nil && g.Pkg != nil && inRepo(g.Pkg.Pkg) {
						for i, a := range y.Common().Args {
							if a == x && i < len(g.Params) {
								follow(g.Params[i], depth+1)
							}
						}
					}
				}
			}
		}
	}
	follow(mk, 0)
	return u
}

func (c *Ctx) ruleG1b(sites []goSite) {
	n := 0
	for _, f := range c.RepoFns {
		if c.isTestFile(f.Pos()) || f.Parent() != nil {
			continue
		}
		k := 0
		eachInstr(f, func(in ssa.Instruction) {
			mk, ok := in.(*ssa.MakeChan)
			if !ok {
				return
			}
			u := c.followChan(mk)
			if len(u.sends) == 0 || len(u.recvSelect) == 0 {
				return
			}
			// is any plain send executed by a goroutine started in f?
			inGo := false
			for _, s := range u.sends {
				for g := s.Parent(); g != nil; g = g.Parent() {
					if sp, _ := c.goSpawnOf(g); sp != nil {
						inGo = true
					}
				}
				// or in a function called from a goroutine closure of f
				for _, cl := range withClosures(f) {
					if sp, _ := c.goSpawnOf(cl); sp != nil {
						eachCall(cl, func(call ssa.CallInstruction) {
							if call.Common().StaticCallee() == s.Parent() {
								inGo = true
							}
						})
					}
				}
			}
			if !inGo {
				return
			}
			n++
			cons := fmt.Sprintf("%s→chan#%d", fnKey(f), k)
			k++
			capv, _ := constInt(mk.Size)
			if capv >= 1 && !u.sendInLoop && int(capv) >= len(u.sends) {
				c.ok("G1", cons, mk.Pos(), "the channel is buffered for every send the helper goroutine can make: it never blocks after the receiver has left")
				return
			}
			c.bad("G1", cons, u.sends[0].Pos(), fmt.Sprintf("a helper goroutine sends unconditionally on a channel (capacity %d) whose only receiver sits in a select with other arms (cancellation) and then returns: when the receiver leaves first the goroutine blocks on the send forever (leak per cancelled call)", capv))
		})
	}
	c.Counts["G1:channels with abandoning receiver"] = n
}

// ---------------------------------------------------------------------------
// G3

// reachesCall: starting from f, following static repo calls and closures (depth-limited),
// is a call satisfying pred reachable?
func (c *Ctx) reachesCall(f *ssa.Function, pred func(ssa.CallInstruction) bool, depth int, seen map[*ssa.Function]bool) bool {
	if f == nil || f.Blocks == nil || seen[f] || depth > 5 {
		return false
	}
	seen[f] = true
	found := false
	for _, g := range withClosures(f) {
		eachCall(g, func(call ssa.CallInstruction) {
			if found {
				return
			}
			if pred(call) {
				found = true
				return
			}
			for _, cal := range c.repoCalleesCheap(call) {
				if c.reachesCall(cal, pred, depth+1, seen) {
					found = true
				}
			}
		})
	}
	return found
}

// repoCalleesCheap: static callee, or for interface calls the repo implementations by CHA.
func (c *Ctx) repoCalleesCheap(call ssa.CallInstruction) []*ssa.Function {
	if f := call.Common().StaticCallee(); f != nil {
		if f.Blocks != nil && f.Pkg != nil && inRepo(f.Pkg.Pkg) {
			return []*ssa.Function{f}
		}
		return nil
	}
	if !call.Common().IsInvoke() {
		return nil
	}
	return c.repoCallees(call)
}

func (c *Ctx) ruleG3() {
	st := c.storeType()
	if st == nil {
		c.floor("G3", "store type", 0, 1)
		return
	}
	closeFn := c.methodOf(st, "Close")
	if closeFn == nil {
		c.floor("G3", "store Close", 0, 1)
		return
	}
	// emitters created by the store type, by field
	created := map[*types.Var]token.Pos{}
	for _, f := range c.methodsOf(st) {
		eachCall(f, func(call ssa.CallInstruction) {
			if !c.isMethodOn(call, "Emitter", ifaceBus) || call.Value() == nil {
				return
			}
			d := derived([]ssa.Value{call.Value()}, flowOpts{})
			for v := range d {
				if refs := v.Referrers(); refs != nil {
					for _, r := range *refs {
						if s, ok := r.(*ssa.Store); ok && s.Val == v {
							if fa, ok := s.Addr.(*ssa.FieldAddr); ok {
								if fv := fieldVarOf(fa); fv != nil && strings.HasSuffix(typeStr(fv.Type()), "event.Emitter") {
									created[fv] = call.Pos()
								}
							}
						}
					}
				}
			}
		})
	}
	// fields whose value reaches an Emitter.Close() in Close
	closed := map[*types.Var]bool{}
	// Close itself, its function literals, and the same-package functions it calls statically
	// (two levels): the closing loop may sit in a helper
	var closeScope []*ssa.Function
	seenCS := map[*ssa.Function]bool{}
	var addScope func(f *ssa.Function, depth int)
	addScope = func(f *ssa.Function, depth int) {
		if f == nil || f.Blocks == nil || seenCS[f] || depth > 2 {
			return
		}
		seenCS[f] = true
		for _, g := range withClosures(f) {
			closeScope = append(closeScope, g)
			eachCall(g, func(call ssa.CallInstruction) {
				if _, isGo := call.(*ssa.Go); isGo {
					return
				}
				if h := call.Common().StaticCallee(); h != nil && h.Pkg == f.Pkg && h.Parent() == nil {
					addScope(h, depth+1)
				}
			})
		}
	}
	addScope(closeFn, 0)
	for _, g := range closeScope {
		var closeRecv []ssa.Value
		eachCall(g, func(call ssa.CallInstruction) {
			if c.isMethodOn(call, "Close", ifaceEmitter) {
				closeRecv = append(closeRecv, recvOf(call))
			}
		})
		eachInstr(g, func(in ssa.Instruction) {
			u, ok := in.(*ssa.UnOp)
			if !ok || u.Op != token.MUL {
				return
			}
			fa, ok := u.X.(*ssa.FieldAddr)
			if !ok {
				return
			}
			fv := fieldVarOf(fa)
			if fv == nil || !strings.HasSuffix(typeStr(fv.Type()), "event.Emitter") {
				return
			}
			d := derived([]ssa.Value{u}, flowOpts{})
			for _, r := range closeRecv {
				if d[r] {
					closed[fv] = true
				}
			}
		})
	}
	var names []string
	byName := map[string]*types.Var{}
	for fv := range created {
		names = append(names, fv.Name())
		byName[fv.Name()] = fv
	}
	sort.Strings(names)
	for _, nme := range names {
		fv := byName[nme]
		cons := relType(st) + ".Close→emitter:" + nme
		if closed[fv] {
			c.ok("G3", cons, created[fv], "emitter is closed by Close")
		} else {
			c.bad("G3", cons, created[fv], "the store creates this emitter but Close never closes it: the bus keeps the emitter's node (and its subscribers' references) alive after the store is closed")
		}
	}
	c.floor("G3", "store emitters", len(created), 6)

	// Close reaches: cancel, replicator stop, cache close, legacy emitter teardown
	type need struct {
		key, what string
		pred      func(ssa.CallInstruction) bool
	}
	needs := []need{
		{"cancel", "the cancellation of the store's context", func(call ssa.CallInstruction) bool {
			cc := call.Common()
			return !cc.IsInvoke() && cc.StaticCallee() == nil && strings.HasSuffix(typeStr(cc.Value.Type()), "context.CancelFunc")
		}},
		{"replicator-stop", "Replicator.Stop", func(call ssa.CallInstruction) bool {
			return methodName(call) == "Stop" && recvOf(call) != nil && strings.Contains(typeStr(recvOf(call).Type()), "eplicator")
		}},
		{"cache-close", "Close of the cache datastore", func(call ssa.CallInstruction) bool {
			return methodName(call) == "Close" && recvOf(call) != nil && strings.HasSuffix(typeStr(recvOf(call).Type()), "go-datastore.Datastore")
		}},
		{"legacy-subscribers", "the teardown of the legacy emitter's subscriber goroutines (UnsubscribeAll)", func(call ssa.CallInstruction) bool {
			g := call.Common().StaticCallee()
			return g != nil && g.Name() == "UnsubscribeAll"
		}},
	}
	for _, nd := range needs {
		cons := relType(st) + ".Close→" + nd.key
		if c.reachesCall(closeFn, nd.pred, 0, map[*ssa.Function]bool{}) {
			c.ok("G3", cons, closeFn.Pos(), "Close reaches "+nd.what)
		} else {
			c.bad("G3", cons, closeFn.Pos(), "Close never reaches "+nd.what+": what it guards keeps running (or stays open) after the store is closed")
		}
	}

	// every bus subscription has a reachable Close of that subscription
	subs := c.subscriptions()
	ord := map[*ssa.Function]int{}
	for _, s := range subs {
		k := ord[s.fn]
		ord[s.fn]++
		cons := fmt.Sprintf("%s→Subscribe#%d→Close", fnKey(s.fn), k)
		closedSub := c.reachesCloseOf([]ssa.Value{s.call.Value()}, topLevel(s.fn), 0, map[*ssa.Function]bool{})
		if closedSub {
			c.ok("G3", cons, s.call.Pos(), "the subscription is closed by the goroutine that consumes it")
		} else {
			c.bad("G3", cons, s.call.Pos(), "this bus subscription is never closed: after its consumer goroutine exits the bus keeps delivering into the subscription's buffer and emitters of those events block once it is full")
		}
	}

	// replicator Stop reaches its root cancel and closes its emitters; instance Close reaches its parts
	if rp := c.repoPkg("stores/replicator"); rp != nil {
		for _, n := range c.implementers(repoMod + "/stores/replicator.Replicator") {
			stop := c.methodOf(n, "Stop")
			if stop == nil {
				continue
			}
			cons := relType(n) + ".Stop→cancel"
			if c.reachesCall(stop, needs[0].pred, 0, map[*ssa.Function]bool{}) {
				c.ok("G3", cons, stop.Pos(), "Stop cancels the replicator's root context")
			} else {
				c.bad("G3", cons, stop.Pos(), "Stop never cancels the replicator's root context: in-flight fetches continue after the store is closed")
			}
			cons = relType(n) + ".Stop→emitters"
			if c.reachesCall(stop, func(call ssa.CallInstruction) bool { return c.isMethodOn(call, "Close", ifaceEmitter) }, 0, map[*ssa.Function]bool{}) {
				c.ok("G3", cons, stop.Pos(), "Stop closes the replicator's emitters")
			} else {
				c.bad("G3", cons, stop.Pos(), "Stop never closes the replicator's emitters")
			}
		}
	}
	for _, n := range c.implementers(repoMod + "/iface.BaseOrbitDB") {
		cl := c.methodOf(n, "Close")
		if cl == nil || cl.Blocks == nil {
			continue
		}
		parts := []need{
			{"stores", "Close of every open store", func(call ssa.CallInstruction) bool {
				return methodName(call) == "Close" && c.isMethodOn(call, "Close", ifaceStore)
			}},
			{"direct-channel", "Close of the direct channel", func(call ssa.CallInstruction) bool {
				return methodName(call) == "Close" && recvOf(call) != nil && strings.HasSuffix(typeStr(recvOf(call).Type()), "iface.DirectChannel")
			}},
			{"cache", "Close of the cache manager", func(call ssa.CallInstruction) bool {
				return methodName(call) == "Close" && recvOf(call) != nil && strings.HasSuffix(typeStr(recvOf(call).Type()), "cache.Interface")
			}},
			{"cancel", "the cancellation of the instance context", needs[0].pred},
		}
		for _, p := range parts {
			cons := relType(n) + ".Close→" + p.key
			if c.reachesCall(cl, p.pred, 0, map[*ssa.Function]bool{}) {
				c.ok("G3", cons, cl.Pos(), "instance Close reaches "+p.what)
			} else {
				c.bad("G3", cons, cl.Pos(), "instance Close never reaches "+p.what)
			}
		}
	}
}

// reachesCloseOf: a Close() is called on the value (a subscription), following it inside the
// function and its closures, into repo callees it is passed to (including goroutines started
// with it) and out to the callers it is returned to.
func (c *Ctx) reachesCloseOf(seeds []ssa.Value, f *ssa.Function, depth int, seen map[*ssa.Function]bool) bool {
	if f == nil || depth > 4 {
		return false
	}
	d := derived(seeds, flowOpts{intoClosures: true})
	found := false
	type next struct {
		seeds []ssa.Value
		fn    *ssa.Function
	}
	var nexts []next
	for _, g := range withClosures(f) {
		eachCall(g, func(call ssa.CallInstruction) {
			if found {
				return
			}
			if methodName(call) == "Close" && recvOf(call) != nil && d[recvOf(call)] {
				found = true
				return
			}
			if h := call.Common().StaticCallee(); h != nil && h.Blocks != nil && h.Pkg != nil && inRepo(h.Pkg.Pkg) && topLevel(h) != f {
				var ps []ssa.Value
				for i, a := range call.Common().Args {
					if d[a] && i < len(h.Params) {
						ps = append(ps, h.Params[i])
					}
				}
				if len(ps) > 0 {
					nexts = append(nexts, next{ps, h})
				}
			}
		})
		eachInstr(g, func(in ssa.Instruction) {
			r, ok := in.(*ssa.Return)
			if !ok || g != f {
				return
			}
			ret := false
			for _, v := range r.Results {
				for _, rv := range resolveSpill(v) {
					if d[rv] || d[v] {
						ret = true
					}
				}
			}
			if !ret {
				return
			}
			// callers of f
			for _, caller := range c.RepoFns {
				if c.isTestFile(caller.Pos()) {
					continue
				}
				eachCall(caller, func(call ssa.CallInstruction) {
					if call.Common().StaticCallee() == f && call.Value() != nil {
						nexts = append(nexts, next{[]ssa.Value{call.Value()}, topLevel(caller)})
					}
				})
			}
		})
	}
	if found {
		return true
	}
	// kept in a struct field and closed by whoever holds the struct: a Close on a load of the
	// same field anywhere in the package
	fields := map[*types.Var]bool{}
	for _, g := range withClosures(f) {
		eachInstr(g, func(in ssa.Instruction) {
			if st, ok := in.(*ssa.Store); ok && d[st.Val] {
				if fa, ok := st.Addr.(*ssa.FieldAddr); ok {
					if fv := fieldVarOf(fa); fv != nil {
						fields[fv] = true
					}
				}
			}
		})
	}
	if len(fields) > 0 {
		for _, g := range c.RepoFns {
			if g.Pkg != f.Pkg || c.isTestFile(g.Pos()) {
				continue
			}
			eachCall(g, func(call ssa.CallInstruction) {
				if methodName(call) != "Close" || recvOf(call) == nil {
					return
				}
				if u, ok := recvOf(call).(*ssa.UnOp); ok && u.Op == token.MUL {
					if fa, ok := u.X.(*ssa.FieldAddr); ok && fields[fieldVarOf(fa)] {
						found = true
					}
				}
			})
		}
		if found {
			return true
		}
	}
	for _, n := range nexts {
		key := n.fn
		if seen[key] && depth > 0 {
			continue
		}
		seen[key] = true
		if c.reachesCloseOf(n.seeds, n.fn, depth+1, seen) {
			return true
		}
	}
	return false
}

// ---------------------------------------------------------------------------
// G4

func staticRepoCallee(call ssa.CallInstruction) []*ssa.Function {
	if f := call.Common().StaticCallee(); f != nil && f.Blocks != nil && f.Pkg != nil && inRepo(f.Pkg.Pkg) {
		return []*ssa.Function{f}
	}
	return nil
}

func (c *Ctx) acquires(f *ssa.Function, depth int, seen map[*ssa.Function]bool) map[string]string {
	out := map[string]string{}
	if f == nil || f.Blocks == nil || seen[f] || depth > 4 {
		return out
	}
	seen[f] = true
	eachInstr(f, func(in ssa.Instruction) {
		if _, isGo := in.(*ssa.Go); isGo {
			return
		}
		if op := lockOpOf(in); op != nil {
			switch op.kind {
			case "Lock":
				out[op.class] = "W"
			case "RLock":
				if out[op.class] == "" {
					out[op.class] = "R"
				}
			}
			return
		}
		if call, ok := in.(ssa.CallInstruction); ok {
			for _, g := range staticRepoCallee(call) {
				for k, m := range c.acquires(g, depth+1, seen) {
					if out[k] == "" || m == "W" {
						out[k] = m
					}
				}
			}
		}
	})
	return out
}

func (c *Ctx) ruleG4() {
	nHeld := 0
	for _, f := range c.RepoFns {
		if c.isTestFile(f.Pos()) {
			continue
		}
		ls := locksets(f)
		k := 0
		eachInstr(f, func(in ssa.Instruction) {
			call, ok := in.(ssa.CallInstruction)
			if !ok || lockOpOf(in) != nil {
				return
			}
			if _, isGo := in.(*ssa.Go); isGo {
				return
			}
			if _, isDefer := in.(*ssa.Defer); isDefer {
				return
			}
			held := ls[in]
			if len(held) == 0 {
				return
			}
			// only statically resolved callees: an interface call resolved by class hierarchy
			// (or by VTA, which is path-insensitive) may name a repo type where a dependency
			// type is the real receiver (wrappedCache.Close → wrapped leveldb Close)
			callees := staticRepoCallee(call)
			if len(callees) == 0 {
				return
			}
			nHeld++
			for _, g := range callees {
				acq := c.acquires(g, 0, map[*ssa.Function]bool{})
				for cls, mode := range held {
					am, ok := acq[cls]
					if !ok {
						continue
					}
					if mode == "R" && am == "R" {
						continue // RLock under RLock: deadlocks only with an interleaved writer (listed, not reported)
					}
					cons := fmt.Sprintf("%s→%s#relock:%s", fnKey(f), g.Name(), cls)
					k++
					c.bad("G4", cons, call.Pos(), fmt.Sprintf("%s is called while %s is held (%s) and (transitively) acquires the same lock class again: Go mutexes are not re-entrant, so when both refer to the same object the call never returns", fnKey(g), cls, map[string]string{"W": "exclusively", "R": "shared"}[mode]))
				}
			}
		})
	}
	c.Counts["G4:call sites under a lock"] = nHeld
	c.floor("G4", "call sites executed with a lock held", nHeld, 5)
	hasBad := false
	for _, o := range c.Obls {
		if o.Rule == "G4" && o.Status != Discharged {
			hasBad = true
		}
	}
	if !hasBad {
		c.ok("G4", "no-relock", token.NoPos, fmt.Sprintf("no call made with a lock held reaches an acquisition of the same lock class (%d call sites under a lock examined)", nHeld))
	}
}

// ---------------------------------------------------------------------------
// G5

func (c *Ctx) ruleG5() {
	st := c.storeType()
	if st == nil {
		return
	}
	closeFn := c.methodOf(st, "Close")
	dropFn := c.methodOf(st, "Drop")
	if closeFn != nil && closeFn.Blocks != nil {
		cons := relType(st) + ".Close#idempotence-guard"
		b0 := closeFn.Blocks[0]
		okGuard := false
		var firstEffect ssa.Instruction
		if iff, ok := b0.Instrs[len(b0.Instrs)-1].(*ssa.If); ok {
			if call, ok := iff.Cond.(*ssa.Call); ok {
				if g := call.Call.StaticCallee(); g != nil && g.Blocks != nil {
					readsDone := false
					eachInstr(g, func(in ssa.Instruction) {
						if cl, ok := in.(*ssa.Call); ok && methodName(cl) == "Done" {
							readsDone = true
						}
					})
					if readsDone && blockReturns(b0.Succs[0]) != nil {
						okGuard = true
					}
				}
			}
		}
		for _, in := range b0.Instrs {
			if call, ok := in.(ssa.CallInstruction); ok {
				if _, isDefer := in.(*ssa.Defer); isDefer {
					continue
				}
				if iff, ok := b0.Instrs[len(b0.Instrs)-1].(*ssa.If); ok && iff.Cond == call.Value() {
					continue
				}
				if c.isEffect(in) && firstEffect == nil {
					firstEffect = in
				}
			}
		}
		switch {
		case !okGuard:
			c.bad("G5", cons, closeFn.Pos(), "Close does not begin with the closed test that returns immediately: a second Close repeats the teardown (double close of emitters/cache)")
		case firstEffect != nil:
			c.bad("G5", cons, firstEffect.Pos(), "Close performs an effect before testing whether the store is already closed")
		default:
			c.ok("G5", cons, closeFn.Pos(), "Close starts with the closed test and returns before any effect when already closed")
		}
	}
	if dropFn != nil && dropFn.Blocks != nil {
		cons := relType(st) + ".Drop#close-first"
		var first ssa.CallInstruction
		eachCall(dropFn, func(call ssa.CallInstruction) {
			if first == nil {
				if _, isDefer := call.(*ssa.Defer); !isDefer {
					first = call
				}
			}
		})
		if first != nil && first.Common().StaticCallee() == closeFn {
			c.ok("G5", cons, dropFn.Pos(), "Drop closes the store before destroying anything")
		} else {
			c.bad("G5", cons, dropFn.Pos(), "Drop does not start by closing the store: background activity continues on a database whose storage is being removed")
		}
		// D1: what Drop destroys is derived from this database's own address
		c.ruleDropScope(dropFn)
	}
}

// ruleDropScope: the destroy callback handed to the store is built from the store's address
// and the instance directory, and the cache manager's Destroy derives the removed path from
// exactly those two.
func (c *Ctx) ruleDropScope(dropFn *ssa.Function) {
	n := 0
	for _, f := range c.RepoFns {
		if c.isTestFile(f.Pos()) {
			continue
		}
		eachCall(f, func(call ssa.CallInstruction) {
			if calleeFull(call) != "os.RemoveAll" {
				return
			}
			n++
			cons := fnKey(f) + "→RemoveAll#path"
			arg := call.Common().Args[0]
			// the path derives from a repo function of (directory, address) parameters — computed
			// here, or handed in by every caller of a helper that only removes
			okPath := c.pathFromAddress(arg, f, 0)
			if okPath {
				c.ok("G5", cons, call.Pos(), "the removed directory is computed from the database address and directory handed to Destroy")
			} else {
				c.bad("G5", cons, call.Pos(), "the directory removed on Drop is not derived from the dropped database's own address: sibling databases' data can be removed")
			}
		})
	}
	c.floor("G5", "directory removals", n, 1)
}

// pathFromAddress: v is the result of a same-package function applied to parameters one of
// which is the database address — or a parameter of f that every static caller fills that way.
func (c *Ctx) pathFromAddress(v ssa.Value, f *ssa.Function, depth int) bool {
	if depth > 2 {
		return false
	}
	switch x := v.(type) {
	case *ssa.Call:
		g := x.Call.StaticCallee()
		if g == nil || g.Pkg != f.Pkg {
			return false
		}
		allParams, usesAddr := true, false
		for _, a := range x.Call.Args {
			if _, isP := a.(*ssa.Parameter); !isP {
				allParams = false
			}
			if strings.HasSuffix(typeStr(a.Type()), "address.Address") {
				usesAddr = true
			}
		}
		return allParams && usesAddr
	case *ssa.Parameter:
		idx := -1
		for i, p := range f.Params {
			if p == x {
				idx = i
			}
		}
		if idx < 0 {
			return false
		}
		sites, okAll := 0, true
		for _, g := range c.RepoFns {
			if c.isTestFile(g.Pos()) {
				continue
			}
			eachCall(g, func(cs ssa.CallInstruction) {
				if cs.Common().StaticCallee() != f || idx >= len(cs.Common().Args) {
					return
				}
				sites++
				if !c.pathFromAddress(cs.Common().Args[idx], g, depth+1) {
					okAll = false
				}
			})
		}
		return sites > 0 && okAll
	}
	return false
}

// ---------------------------------------------------------------------------
// G6

func (c *Ctx) ruleG6() {
	n := 0
	for _, f := range c.RepoFns {
		if c.isTestFile(f.Pos()) {
			continue
		}
		var ls map[ssa.Instruction]lockset
		k := 0
		eachCall(f, func(call ssa.CallInstruction) {
			full := calleeFull(call)
			if full != "(*sync.Cond).Signal" && full != "(*sync.Cond).Broadcast" {
				return
			}
			if ls == nil {
				ls = locksets(f)
			}
			n++
			cons := fmt.Sprintf("%s→cond.%s#%d", fnKey(f), methodName(call), k)
			k++
			held := ls[call]
			if _, ok := held["sync.Cond.L"]; ok {
				c.ok("G6", cons, call.Pos(), "the condition variable is signalled with its lock held")
				return
			}
			c.bad("G6", cons, call.Pos(), "the condition variable is signalled without holding its lock while the waiter's loop condition (ctx.Err()) changes asynchronously: if the waiter has just evaluated the condition and not yet called Wait, the wake-up is lost, the goroutine never exits and the subscriber's channel is never closed")
		})
	}
	// the floor only stands while something waits on a condition variable: a repo that no
	// longer uses sync.Cond at all has nothing for this rule to decide (E6 covers the
	// channel form of the same hand-off)
	nWait := 0
	for _, f := range c.RepoFns {
		if c.isTestFile(f.Pos()) || c.isControlFn(f) {
			continue
		}
		eachCall(f, func(call ssa.CallInstruction) {
			if calleeFull(call) == "(*sync.Cond).Wait" {
				nWait++
			}
		})
	}
	c.Counts["G6:condition-variable waits"] = nWait
	if nWait > 0 {
		c.floor("G6", "condition-variable signals", n, 2)
	} else {
		c.Counts["G6:condition-variable signals"] = n
	}
}
