package main

import (
	"encoding/json"
	"fmt"
	"os"
	"os/exec"
	"path/filepath"
	"sort"
	"strings"
)

// Thorough tier only: sensitivity replay. Every seeded change under <verif>/seeded that is
// recorded as detected by this property is applied to a scratch copy of the analysed tree
// (outside /repo and /verif, removed immediately) and analysed with the same rules; the
// property's check must report a violation there. A change that no longer applies to the
// tree is skipped and reported as such. Nothing is executed: the scratch copy is only parsed.

type seedMeta struct {
	Property   string   `json:"property"`
	DetectedBy []string `json:"detected_by_properties"`
	Expected   string   `json:"expected"` // "caught" (default) or "missed"
	Needs      string   `json:"needs_to_manifest"`
}

type seedResult struct {
	Seed    string   `json:"seed"`
	Outcome string   `json:"outcome"` // caught | missed-as-recorded | skipped | SENSITIVITY-LOST | now-caught
	Rules   []string `json:"violated,omitempty"`
}

func copyTree(src, dst string) error {
	return filepath.Walk(src, func(p string, info os.FileInfo, err error) error {
		if err != nil {
			return err
		}
		rel, _ := filepath.Rel(src, p)
		if rel == ".git" || strings.HasPrefix(rel, ".git"+string(os.PathSeparator)) {
			if info.IsDir() {
				return filepath.SkipDir
			}
			return nil
		}
		t := filepath.Join(dst, rel)
		if info.IsDir() {
			return os.MkdirAll(t, 0o755)
		}
		if !info.Mode().IsRegular() {
			return nil
		}
		b, err := os.ReadFile(p)
		if err != nil {
			return err
		}
		return os.WriteFile(t, b, 0o644)
	})
}

func seededReplay(spec *propSpec, repo, verif string) (results []seedResult, lost int) {
	root := filepath.Join(verif, "seeded")
	ents, err := os.ReadDir(root)
	if err != nil {
		return nil, 0
	}
	var names []string
	for _, e := range ents {
		if e.IsDir() {
			names = append(names, e.Name())
		}
	}
	sort.Strings(names)
	for _, n := range names {
		mb, err := os.ReadFile(filepath.Join(root, n, "meta.json"))
		if err != nil {
			continue
		}
		var m seedMeta
		if json.Unmarshal(mb, &m) != nil {
			continue
		}
		relevant := false
		for _, p := range m.DetectedBy {
			if p == spec.ID {
				relevant = true
			}
		}
		if len(m.DetectedBy) == 0 && m.Property == spec.ID {
			relevant = true
		}
		if !relevant {
			continue
		}
		patch := filepath.Join(root, n, "patch.diff")
		tmp, err := os.MkdirTemp("", "odbseed-")
		if err != nil {
			continue
		}
		func() {
			defer os.RemoveAll(tmp)
			if err := copyTree(repo, tmp); err != nil {
				results = append(results, seedResult{Seed: n, Outcome: "skipped (copy failed: " + err.Error() + ")"})
				return
			}
			cmd := exec.Command("git", "apply", patch)
			cmd.Dir = tmp
			if out, err := cmd.CombinedOutput(); err != nil {
				results = append(results, seedResult{Seed: n, Outcome: "skipped (patch does not apply to this tree: " + strings.TrimSpace(firstLine(string(out))) + ")"})
				return
			}
			c, err := analyse(spec, "quick", tmp, "")
			if err != nil {
				results = append(results, seedResult{Seed: n, Outcome: "skipped (seeded tree not analysable: " + firstLine(err.Error()) + ")"})
				return
			}
			var v []string
			for _, o := range c.Obls {
				if o.Control == "" && o.Status != Discharged {
					v = append(v, o.Rule+" "+o.Construct)
				}
			}
			switch {
			case len(v) > 0 && m.Expected == "missed":
				results = append(results, seedResult{Seed: n, Outcome: "now-caught", Rules: v})
			case len(v) > 0:
				results = append(results, seedResult{Seed: n, Outcome: "caught", Rules: v})
			case m.Expected == "missed":
				results = append(results, seedResult{Seed: n, Outcome: "missed-as-recorded"})
			default:
				lost++
				results = append(results, seedResult{Seed: n, Outcome: "SENSITIVITY-LOST"})
			}
		}()
	}
	return results, lost
}

func firstLine(s string) string {
	if i := strings.IndexByte(s, '\n'); i >= 0 {
		return s[:i]
	}
	return s
}

func fmtSeedResults(rs []seedResult) string {
	var b strings.Builder
	for _, r := range rs {
		fmt.Fprintf(&b, "seeded %s: %s", r.Seed, r.Outcome)
		if len(r.Rules) > 0 {
			fmt.Fprintf(&b, " [%s]", r.Rules[0])
		}
		b.WriteString("\n")
	}
	return b.String()
}
