package main

import (
	"go/token"
	"go/types"
	"sort"
	"strings"

	"golang.org/x/tools/go/ssa"
)

const (
	ifaceLog      = logMod + "/iface.IPFSLog"
	ifaceEntry    = logMod + "/iface.IPFSLogEntry"
	ifaceDSWrite  = "github.com/ipfs/go-datastore.Write"
	ifaceDSRead   = "github.com/ipfs/go-datastore.Read"
	ifaceEmitter  = "github.com/libp2p/go-libp2p/core/event.Emitter"
	ifaceBus      = "github.com/libp2p/go-libp2p/core/event.Bus"
	ifaceSub      = "github.com/libp2p/go-libp2p/core/event.Subscription"
	ifaceIndex    = repoMod + "/iface.StoreIndex"
	ifaceLogAC    = logMod + "/accesscontroller.Interface"
	ifaceIDP      = logMod + "/identityprovider.Interface"
	ifaceStore    = repoMod + "/iface.Store"
	ifaceReplInfo = repoMod + "/stores/replicator.ReplicationInfo"
)

// ---------------------------------------------------------------------------
// site kinds, closed under repo-local wrappers

type siteKind struct {
	name        string
	direct      func(call ssa.CallInstruction) bool
	directInstr func(in ssa.Instruction) bool   // optional: sites that are not calls (stores, sends, receives)
	memo        map[*ssa.Function]int           // 0 unknown, 1 in progress, 2 yes, 3 no
	cut         func(*ssa.BasicBlock, int) bool // optional: edges on which the obligation does not apply
}

func newKind(name string, direct func(ssa.CallInstruction) bool) *siteKind {
	return &siteKind{name: name, direct: direct, memo: map[*ssa.Function]int{}}
}

// isSite: the instruction is a synchronous call that is a K-site, directly or because the
// (static, repo-local) callee passes a K-site on every path to a non-failing exit.
func (c *Ctx) isSite(k *siteKind, in ssa.Instruction) bool { return c.isSiteD(k, in, 0) }

func (c *Ctx) isSiteD(k *siteKind, in ssa.Instruction, depth int) bool {
	if k.directInstr != nil {
		if _, isGo := in.(*ssa.Go); !isGo && k.directInstr(in) {
			return true
		}
	}
	call, ok := in.(ssa.CallInstruction)
	if !ok {
		return false
	}
	if _, isGo := in.(*ssa.Go); isGo {
		return false
	}
	if k.direct(call) {
		return true
	}
	if depth >= 4 {
		return false
	}
	f := call.Common().StaticCallee()
	if f == nil || f.Blocks == nil || f.Pkg == nil || !inRepo(f.Pkg.Pkg) {
		return false
	}
	if c.mustDo(k, f, depth+1) {
		return true
	}
	// "run this under the lock" helpers: a function literal handed to a repo function that
	// calls its parameter on every path counts as called here
	for i, a := range call.Common().Args {
		mc, ok := a.(*ssa.MakeClosure)
		if !ok || i >= len(f.Params) {
			continue
		}
		g, ok := mc.Fn.(*ssa.Function)
		if !ok || !c.mustCallParam(f, f.Params[i]) {
			continue
		}
		if c.mustDo(k, g, depth+1) {
			return true
		}
	}
	return false
}

// mustCallParam: every non-failing path through f calls the function it received as p.
func (c *Ctx) mustCallParam(f *ssa.Function, p *ssa.Parameter) bool {
	isCall := func(in ssa.Instruction) bool {
		call, ok := in.(ssa.CallInstruction)
		if !ok {
			return false
		}
		if _, isGo := in.(*ssa.Go); isGo {
			return false
		}
		return call.Common().Value == ssa.Value(p)
	}
	any := false
	eachInstr(f, func(in ssa.Instruction) {
		if isCall(in) {
			any = true
		}
	})
	if !any {
		return false
	}
	target := func(in ssa.Instruction) bool {
		r, ok := in.(*ssa.Return)
		return ok && !isFailureReturn(r)
	}
	hit, _ := findPath(f, entry, isCall, target, nil)
	return hit == nil
}

func (c *Ctx) mustDo(k *siteKind, f *ssa.Function, depth int) bool {
	switch k.memo[f] {
	case 1, 3:
		return false
	case 2:
		return true
	}
	k.memo[f] = 1
	via := func(in ssa.Instruction) bool { return c.isSiteD(k, in, depth) }
	target := func(in ssa.Instruction) bool {
		r, ok := in.(*ssa.Return)
		return ok && !isFailureReturn(r)
	}
	hit, _ := findPath(f, entry, via, target, k.cut)
	if hit == nil {
		// every non-failing exit passes a site; make sure there is at least one site at all
		any := false
		eachInstr(f, func(in ssa.Instruction) {
			if c.isSiteD(k, in, depth) {
				any = true
			}
		})
		if any {
			k.memo[f] = 2
			return true
		}
	}
	k.memo[f] = 3
	return false
}

// ---------------------------------------------------------------------------
// recognisers for dependency API calls

func (c *Ctx) isLogCall(call ssa.CallInstruction, method string) bool {
	return c.isMethodOn(call, method, ifaceLog)
}

// dsKeyOf extracts the constant (last path element of the) key of a datastore call:
// datastore.NewKey("x") or datastore.NewKey(path.Join(..., "x")).
func dsKeyOf(v ssa.Value) (string, bool) {
	call, ok := v.(*ssa.Call)
	if !ok {
		return "", false
	}
	if calleeFull(call) != "github.com/ipfs/go-datastore.NewKey" || len(call.Call.Args) != 1 {
		return "", false
	}
	a := call.Call.Args[0]
	if s, ok := constString(a); ok {
		return s, true
	}
	if j, ok := a.(*ssa.Call); ok && (calleeFull(j) == "path.Join" || calleeFull(j) == "path/filepath.Join") {
		// variadic: last element of the slice literal
		if last := lastVariadicElem(j.Call.Args[len(j.Call.Args)-1]); last != nil {
			if s, ok := constString(last); ok {
				return s, true
			}
		}
	}
	return "", false
}

// lastVariadicElem returns the value stored at the highest constant index of a slice literal.
func lastVariadicElem(v ssa.Value) ssa.Value {
	sl, ok := v.(*ssa.Slice)
	if !ok {
		return nil
	}
	alloc, ok := sl.X.(*ssa.Alloc)
	if !ok {
		return nil
	}
	var best ssa.Value
	bestIdx := int64(-1)
	for _, r := range *alloc.Referrers() {
		ia, ok := r.(*ssa.IndexAddr)
		if !ok {
			continue
		}
		idx, ok := constInt(ia.Index)
		if !ok {
			continue
		}
		for _, rr := range *ia.Referrers() {
			if st, ok := rr.(*ssa.Store); ok && st.Addr == ia && idx > bestIdx {
				best, bestIdx = st.Val, idx
			}
		}
	}
	return best
}

// variadicElems returns all values stored into a slice literal.
func variadicElems(v ssa.Value) []ssa.Value {
	sl, ok := v.(*ssa.Slice)
	if !ok {
		return nil
	}
	alloc, ok := sl.X.(*ssa.Alloc)
	if !ok {
		return nil
	}
	var out []ssa.Value
	for _, r := range *alloc.Referrers() {
		if ia, ok := r.(*ssa.IndexAddr); ok {
			for _, rr := range *ia.Referrers() {
				if st, ok := rr.(*ssa.Store); ok && st.Addr == ia {
					out = append(out, st.Val)
				}
			}
		}
	}
	return out
}

// dsKeysOf: the constant keys a datastore key expression may stand for: the constant at the
// site, or — when the key is built from a string parameter of the enclosing function (a
// helper shared by several keys) — the constants handed in at its static call sites.
func (c *Ctx) dsKeysOf(v ssa.Value) []string {
	if k, ok := dsKeyOf(v); ok {
		return []string{k}
	}
	// a package-level key variable initialised once (var localHeadsKey = datastore.NewKey("…"))
	if ld, ok := v.(*ssa.UnOp); ok && ld.Op == token.MUL {
		if g, ok := ld.X.(*ssa.Global); ok && g.Pkg != nil {
			var ks []string
			writers := 0
			seenFn := map[*ssa.Function]bool{}
			for _, fn := range append(append([]*ssa.Function{}, c.RepoFns...), g.Pkg.Func("init")) {
				if fn == nil || seenFn[fn] {
					continue
				}
				seenFn[fn] = true
				eachInstr(fn, func(in ssa.Instruction) {
					st, ok := in.(*ssa.Store)
					if !ok || st.Addr != ssa.Value(g) {
						return
					}
					writers++
					if k, ok := dsKeyOf(st.Val); ok {
						ks = append(ks, k)
					}
				})
			}
			if writers == 1 && len(ks) == 1 {
				return ks
			}
			return nil
		}
	}
	// a key handed in as a parameter: what the static callers hand in
	if p, ok := v.(*ssa.Parameter); ok && strings.HasSuffix(typeStr(p.Type()), "go-datastore.Key") {
		f := p.Parent()
		idx := -1
		for i, q := range f.Params {
			if q == p {
				idx = i
			}
		}
		if idx < 0 || c.dsKeyDepth > 2 {
			return nil
		}
		c.dsKeyDepth++
		defer func() { c.dsKeyDepth-- }()
		seen := map[string]bool{}
		var out []string
		unknown, sites := false, 0
		for _, g := range c.RepoFns {
			if c.isTestFile(g.Pos()) {
				continue
			}
			eachCall(g, func(cs ssa.CallInstruction) {
				if cs.Common().StaticCallee() != f || idx >= len(cs.Common().Args) {
					return
				}
				sites++
				ks := c.dsKeysOf(cs.Common().Args[idx])
				if len(ks) == 0 {
					unknown = true
				}
				for _, k := range ks {
					if !seen[k] {
						seen[k] = true
						out = append(out, k)
					}
				}
			})
		}
		if unknown || sites == 0 {
			return nil
		}
		sort.Strings(out)
		return out
	}
	call, ok := v.(*ssa.Call)
	if !ok {
		return nil
	}
	// the key may be built by a repo function shared by the writer and the reader
	if h := call.Call.StaticCallee(); h != nil && h.Blocks != nil && h.Pkg != nil && inRepo(h.Pkg.Pkg) {
		seen := map[string]bool{}
		var out []string
		okAll := true
		eachInstr(h, func(in ssa.Instruction) {
			r, isRet := in.(*ssa.Return)
			if !isRet || len(r.Results) == 0 {
				return
			}
			for _, rv := range resolveSpill(r.Results[0]) {
				ks := c.dsKeysOf(rv)
				if len(ks) == 0 {
					okAll = false
				}
				for _, k := range ks {
					if !seen[k] {
						seen[k] = true
						out = append(out, k)
					}
				}
			}
		})
		if okAll && len(out) > 0 {
			sort.Strings(out)
			return out
		}
		return nil
	}
	if calleeFull(call) != "github.com/ipfs/go-datastore.NewKey" || len(call.Call.Args) != 1 {
		return nil
	}
	a := call.Call.Args[0]
	if j, ok := a.(*ssa.Call); ok && (calleeFull(j) == "path.Join" || calleeFull(j) == "path/filepath.Join") {
		if last := lastVariadicElem(j.Call.Args[len(j.Call.Args)-1]); last != nil {
			a = last
		}
	}
	p, ok := a.(*ssa.Parameter)
	if !ok {
		return nil
	}
	f := p.Parent()
	idx := -1
	for i, q := range f.Params {
		if q == p {
			idx = i
		}
	}
	if idx < 0 {
		return nil
	}
	seen := map[string]bool{}
	var out []string
	unknown := false
	for _, g := range c.RepoFns {
		if c.isTestFile(g.Pos()) {
			continue
		}
		eachCall(g, func(cs ssa.CallInstruction) {
			if cs.Common().StaticCallee() != f || idx >= len(cs.Common().Args) {
				return
			}
			if s, ok := constString(cs.Common().Args[idx]); ok {
				if !seen[s] {
					seen[s] = true
					out = append(out, s)
				}
			} else {
				unknown = true
			}
		})
	}
	if unknown {
		return nil
	}
	sort.Strings(out)
	return out
}

// cachePutKeys / cacheGetKeys: datastore writes/reads with resolvable constant keys.
func (c *Ctx) cachePutKeys(call ssa.CallInstruction) []string {
	if !c.isMethodOn(call, "Put", ifaceDSWrite) {
		return nil
	}
	a := argsOf(call)
	if len(a) < 2 {
		return nil
	}
	return c.dsKeysOf(a[1])
}

func (c *Ctx) cacheGetKeys(call ssa.CallInstruction) []string {
	if !c.isMethodOn(call, "Get", ifaceDSRead) {
		return nil
	}
	a := argsOf(call)
	if len(a) < 2 {
		return nil
	}
	return c.dsKeysOf(a[1])
}

// cachePutKey / cacheGetKey: the key of the site; a site shared by several keys (helper with
// a key parameter) is named by all of them joined with "|".
func (c *Ctx) cachePutKey(call ssa.CallInstruction) (string, bool) {
	ks := c.cachePutKeys(call)
	if len(ks) == 0 {
		return "", false
	}
	return strings.Join(ks, "|"), true
}

func (c *Ctx) cacheGetKey(call ssa.CallInstruction) (string, bool) {
	ks := c.cacheGetKeys(call)
	if len(ks) == 0 {
		return "", false
	}
	return strings.Join(ks, "|"), true
}

func hasKey(ks []string, k string) bool {
	for _, x := range ks {
		if x == k {
			return true
		}
	}
	return false
}

// emitEventType returns the dynamic type of the value handed to event.Emitter.Emit.
func (c *Ctx) emitEventType(call ssa.CallInstruction) (types.Type, bool) {
	if !c.isMethodOn(call, "Emit", ifaceEmitter) {
		return nil, false
	}
	a := argsOf(call)
	if len(a) != 1 {
		return nil, false
	}
	if mi, ok := a[0].(*ssa.MakeInterface); ok {
		return mi.X.Type(), true
	}
	return a[0].Type(), true
}

func namedName(t types.Type) string {
	if p, ok := t.(*types.Pointer); ok {
		t = p.Elem()
	}
	if n, ok := t.(*types.Named); ok {
		if n.Obj().Pkg() != nil {
			return strings.TrimPrefix(n.Obj().Pkg().Path(), repoMod+"/") + "." + n.Obj().Name()
		}
		return n.Obj().Name()
	}
	return typeStr(t)
}

func (c *Ctx) isEmitOf(call ssa.CallInstruction, typeName string) bool {
	t, ok := c.emitEventType(call)
	return ok && namedName(t) == typeName
}

// ---------------------------------------------------------------------------
// structural roles

// storeType: the named struct of stores/basestore holding an oplog and an index.
func (c *Ctx) storeType() *types.Named {
	p := c.repoPkg("stores/basestore")
	if p == nil {
		return nil
	}
	logI, idxI := c.lookupIface(ifaceLog), c.lookupIface(ifaceIndex)
	sc := p.Types.Scope()
	for _, n := range sc.Names() {
		tn, ok := sc.Lookup(n).(*types.TypeName)
		if !ok {
			continue
		}
		st, ok := tn.Type().Underlying().(*types.Struct)
		if !ok {
			continue
		}
		hasLog, hasIdx := false, false
		for i := 0; i < st.NumFields(); i++ {
			ft := st.Field(i).Type()
			if it, ok := ft.Underlying().(*types.Interface); ok {
				if logI != nil && types.Identical(it, logI) {
					hasLog = true
				}
				if idxI != nil && types.Identical(it, idxI) {
					hasIdx = true
				}
			}
		}
		if hasLog && hasIdx {
			return tn.Type().(*types.Named)
		}
	}
	return nil
}

func (c *Ctx) repoPkg(rel string) *pkgT {
	want := repoMod
	if rel != "" {
		want += "/" + rel
	}
	for _, p := range c.All {
		if p.PkgPath == want && p.Types != nil && !strings.Contains(p.ID, "[") && !strings.HasSuffix(p.ID, ".test") {
			return p
		}
	}
	for _, p := range c.All {
		if p.PkgPath == want && p.Types != nil && !strings.HasSuffix(p.ID, ".test") {
			return p
		}
	}
	return nil
}

// fnsInPkg returns repo functions (with closures) declared in the package with the given
// path relative to the module root.
func (c *Ctx) fnsInPkg(rel string) []*ssa.Function {
	want := repoMod
	if rel != "" {
		want += "/" + rel
	}
	var out []*ssa.Function
	for _, f := range c.RepoFns {
		if f.Pkg != nil && f.Pkg.Pkg.Path() == want {
			out = append(out, f)
		}
	}
	return out
}

// topLevel returns the outermost enclosing function.
func topLevel(f *ssa.Function) *ssa.Function {
	for f.Parent() != nil {
		f = f.Parent()
	}
	return f
}

// recvNamed returns the named receiver type of a method (through pointers), or nil.
func recvNamed(f *ssa.Function) *types.Named {
	f = topLevel(f)
	if f.Signature.Recv() == nil {
		return nil
	}
	t := f.Signature.Recv().Type()
	if p, ok := t.(*types.Pointer); ok {
		t = p.Elem()
	}
	n, _ := t.(*types.Named)
	return n
}

// implementers returns the named types declared in non-test repo packages that implement the interface.
func (c *Ctx) implementers(iface string) []*types.Named {
	it := c.lookupIface(iface)
	if it == nil {
		return nil
	}
	var out []*types.Named
	seen := map[string]bool{}
	for _, p := range c.All {
		if p.Types == nil || !inRepo(p.Types) || isTestPkgPath(p.PkgPath) || strings.Contains(p.ID, "[") || strings.HasSuffix(p.ID, ".test") {
			continue
		}
		sc := p.Types.Scope()
		for _, n := range sc.Names() {
			tn, ok := sc.Lookup(n).(*types.TypeName)
			if !ok || tn.IsAlias() {
				continue
			}
			nt, ok := tn.Type().(*types.Named)
			if !ok {
				continue
			}
			if _, isI := nt.Underlying().(*types.Interface); isI {
				continue
			}
			if types.Implements(nt, it) || types.Implements(types.NewPointer(nt), it) {
				k := p.PkgPath + "." + n
				if !seen[k] {
					seen[k] = true
					out = append(out, nt)
				}
			}
		}
	}
	return out
}

// methodOf returns the SSA function of method `name` of named type n (pointer receiver set).
func (c *Ctx) methodOf(n *types.Named, name string) *ssa.Function {
	for _, t := range []types.Type{types.NewPointer(n), n} {
		ms := c.Prog.MethodSets.MethodSet(t)
		for i := 0; i < ms.Len(); i++ {
			if ms.At(i).Obj().Name() == name {
				f := c.Prog.MethodValue(ms.At(i))
				if f != nil && f.Synthetic != "" {
					// promoted through embedding: find the declared method
					if fn, ok := ms.At(i).Obj().(*types.Func); ok {
						if d := c.Prog.FuncValue(fn); d != nil {
							return d
						}
					}
				}
				return f
			}
		}
	}
	return nil
}
