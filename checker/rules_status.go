package main

import (
	"fmt"
	"go/token"
	"go/types"
	"sort"
	"strings"

	"golang.org/x/tools/go/ssa"
)

// R2 decides monotonicity of the replication status helpers by exhaustive execution over
// order types: the helpers only compare integers and copy one of them (plus one "+1"), so
// their behaviour is a function of the weak ordering of the symbols involved. Every weak
// ordering is enumerated and the function's SSA is executed abstractly on it (branches are
// decided by the ordering, values are symbols). No solver, nothing concrete is run.

type ordering map[string]int // symbol -> level (dense levels 0..k-1)

func (o ordering) String() string {
	byLvl := map[int][]string{}
	max := 0
	for s, l := range o {
		byLvl[l] = append(byLvl[l], s)
		if l > max {
			max = l
		}
	}
	var parts []string
	for l := 0; l <= max; l++ {
		sort.Strings(byLvl[l])
		parts = append(parts, strings.Join(byLvl[l], " = "))
	}
	return strings.Join(parts, " < ")
}

// weakOrderings enumerates all weak orderings (ordered set partitions) of the symbols.
func weakOrderings(syms []string) []ordering {
	var out []ordering
	n := len(syms)
	lv := make([]int, n)
	var rec func(i, used int)
	rec = func(i, used int) {
		if i == n {
			// dense?
			seen := map[int]bool{}
			mx := -1
			for _, l := range lv {
				seen[l] = true
				if l > mx {
					mx = l
				}
			}
			if len(seen) != mx+1 {
				return
			}
			o := ordering{}
			for j, s := range syms {
				o[s] = lv[j]
			}
			out = append(out, o)
			return
		}
		for l := 0; l < n; l++ {
			lv[i] = l
			rec(i+1, used)
		}
	}
	rec(0, 0)
	return out
}

type absState struct {
	max, progress string
	setMax        []string
	setProgress   []string
}

type absExec struct {
	c     *Ctx
	ord   ordering
	st    *absState
	fail  string
	steps int
	free  map[ssa.Value]string // captured integer variables of the function literal being executed
}

func (e *absExec) cmp(op token.Token, a, b string) (bool, bool) {
	la, ok1 := e.ord[a]
	lb, ok2 := e.ord[b]
	if !ok1 || !ok2 {
		return false, false
	}
	switch op {
	case token.LSS:
		return la < lb, true
	case token.LEQ:
		return la <= lb, true
	case token.GTR:
		return la > lb, true
	case token.GEQ:
		return la >= lb, true
	case token.EQL:
		return la == lb, true
	case token.NEQ:
		return la != lb, true
	}
	return false, false
}

// run executes f with integer parameter bound to argSym.
func (e *absExec) run(f *ssa.Function, argSym string, depth int) {
	e.exec(f, argSym, depth, nil)
}

// replImpl describes the repo's implementation of the status object: its type, the fields
// holding the maximum and the progress, and the methods that write them.
type replImpl struct {
	named        *types.Named
	maxF, progF  *types.Var
	mutators     map[string]bool
	maxWriters   map[string]bool
	progWriters  map[string]bool
	methodsByKey map[string]*ssa.Function
}

// writesMax / writesProgress: the call is a method of the status object that (in the repo's
// implementation) assigns the maximum / the progress.
func (c *Ctx) writesMax(call ssa.CallInstruction) bool {
	name := methodName(call)
	if name == "" || name == "Reset" || !c.isMethodOn(call, name, ifaceReplInfo) {
		return false
	}
	return name == "SetMax" || c.replInfoImpl().maxWriters[name]
}

func (c *Ctx) writesProgress(call ssa.CallInstruction) bool {
	name := methodName(call)
	if name == "" || name == "Reset" || !c.isMethodOn(call, name, ifaceReplInfo) {
		return false
	}
	return name == "SetProgress" || c.replInfoImpl().progWriters[name]
}

func (c *Ctx) replInfoImpl() *replImpl {
	if c.replMemo != nil {
		return c.replMemo
	}
	ri := &replImpl{mutators: map[string]bool{}, maxWriters: map[string]bool{}, progWriters: map[string]bool{}, methodsByKey: map[string]*ssa.Function{}}
	c.replMemo = ri
	for _, n := range c.implementers(ifaceReplInfo) {
		if n.Obj().Pkg() == nil || !inRepo(n.Obj().Pkg()) || strings.Contains(n.Obj().Name(), "verifCtl") {
			continue
		}
		ri.named = n
		break
	}
	if ri.named == nil {
		return ri
	}
	fieldReturned := func(name string) *types.Var {
		g := c.methodOf(ri.named, name)
		if g == nil || g.Blocks == nil {
			return nil
		}
		var fv *types.Var
		eachInstr(g, func(in ssa.Instruction) {
			r, ok := in.(*ssa.Return)
			if !ok || len(r.Results) != 1 {
				return
			}
			for _, v := range resolveSpill(r.Results[0]) {
				if u, ok := v.(*ssa.UnOp); ok && u.Op == token.MUL {
					if fa, ok := u.X.(*ssa.FieldAddr); ok {
						fv = fieldVarOf(fa)
					}
				}
			}
		})
		return fv
	}
	ri.maxF, ri.progF = fieldReturned("GetMax"), fieldReturned("GetProgress")
	for _, g := range c.methodsOf(ri.named) {
		if g.Parent() != nil {
			continue
		}
		ri.methodsByKey[g.Name()] = g
		eachInstr(g, func(in ssa.Instruction) {
			if st, ok := in.(*ssa.Store); ok {
				if fa, ok := st.Addr.(*ssa.FieldAddr); ok {
					if fv := fieldVarOf(fa); fv != nil && (fv == ri.maxF || fv == ri.progF) {
						ri.mutators[g.Name()] = true
						if fv == ri.maxF {
							ri.maxWriters[g.Name()] = true
						} else {
							ri.progWriters[g.Name()] = true
						}
					}
				}
			}
		})
	}
	return ri
}

// isStatusMutation: a call of a method of the status interface whose implementation writes the
// maximum or the progress (Reset excluded: R1 treats it apart).
func (c *Ctx) isStatusMutation(call ssa.CallInstruction) bool {
	name := methodName(call)
	if name == "" || name == "Reset" {
		return false
	}
	if !c.isMethodOn(call, name, ifaceReplInfo) {
		return false
	}
	if name == "SetMax" || name == "SetProgress" {
		return true
	}
	return c.replInfoImpl().mutators[name]
}

// exec executes f abstractly. Integer parameters are bound to argSym; when impl is set, f is a
// method of the status implementation and loads/stores of its two fields are the abstract
// maximum and progress. It returns the symbol of f's integer result, if it has one.
func (e *absExec) exec(f *ssa.Function, argSym string, depth int, impl *replImpl) (string, bool) {
	if depth > 4 || e.fail != "" {
		if e.fail == "" {
			e.fail = "call depth"
		}
		return "", false
	}
	val := map[ssa.Value]string{}
	boolv := map[ssa.Value]bool{}
	for _, p := range f.Params {
		if isIntType(p.Type()) {
			val[p] = argSym
		}
	}
	statusField := func(a ssa.Value) string {
		if impl == nil {
			return ""
		}
		fa, ok := a.(*ssa.FieldAddr)
		if !ok {
			return ""
		}
		switch fieldVarOf(fa) {
		case impl.maxF:
			return "max"
		case impl.progF:
			return "progress"
		}
		return ""
	}
	var symOf func(v ssa.Value) (string, bool)
	symOf = func(v ssa.Value) (string, bool) {
		if s, ok := val[v]; ok {
			return s, true
		}
		return "", false
	}
	blk := f.Blocks[0]
	var prev *ssa.BasicBlock
	for {
		e.steps++
		if e.steps > 2000 {
			e.fail = "step limit (loop?)"
			return "", false
		}
		var next *ssa.BasicBlock
		for _, in := range blk.Instrs {
			switch x := in.(type) {
			case *ssa.Phi:
				for i, p := range blk.Preds {
					if p == prev {
						if s, ok := symOf(x.Edges[i]); ok {
							val[x] = s
						} else if isIntType(x.Type()) {
							e.fail = "phi edge of unknown value at " + e.c.pos(x.Pos())
							return "", false
						}
					}
				}
			case *ssa.BinOp:
				switch x.Op {
				case token.LSS, token.LEQ, token.GTR, token.GEQ, token.EQL, token.NEQ:
					a, ok1 := symOf(x.X)
					b, ok2 := symOf(x.Y)
					if !ok1 || !ok2 {
						if isIntType(x.X.Type()) {
							e.fail = "comparison of a value the order-type domain does not model at " + e.c.pos(x.Pos())
							return "", false
						}
						continue
					}
					r, ok := e.cmp(x.Op, a, b)
					if !ok {
						e.fail = "comparison outside the enumerated symbols (" + a + " vs " + b + ")"
						return "", false
					}
					boolv[x] = r
				case token.ADD:
					a, ok := symOf(x.X)
					k, isK := constInt(x.Y)
					if ok && isK && k == 1 && a == "p" {
						val[x] = "p+1"
					} else if isIntType(x.Type()) {
						e.fail = "arithmetic other than progress+1 at " + e.c.pos(x.Pos())
						return "", false
					}
				default:
					if isIntType(x.Type()) {
						e.fail = "arithmetic the order-type domain does not model at " + e.c.pos(x.Pos())
						return "", false
					}
				}
			case *ssa.Call:
				name := methodName(x)
				if bi, isB := x.Call.Value.(*ssa.Builtin); isB && (bi.Name() == "min" || bi.Name() == "max") && isIntType(x.Type()) {
					// the built-in min/max over modelled values: the extremum under the ordering at hand
					cur, okAll := "", true
					for i, a := range x.Call.Args {
						sa, ok := symOf(a)
						if !ok {
							okAll = false
							break
						}
						if i == 0 {
							cur = sa
							continue
						}
						op := token.GTR
						if bi.Name() == "min" {
							op = token.LSS
						}
						better, ok := e.cmp(op, sa, cur)
						if !ok {
							okAll = false
							break
						}
						if better {
							cur = sa
						}
					}
					if !okAll {
						e.fail = "min/max of a value the order-type domain does not model at " + e.c.pos(x.Pos())
						return "", false
					}
					val[x] = cur
					continue
				}
				switch {
				case name == "Len" && e.c.isLogCall(x, "Len"):
					val[x] = "logLen"
				case e.c.isLenCacheRead(x):
					// a remembered copy of the log's length (R6 answers for its freshness)
					val[x] = "logLen"
				case name == "GetMax" && e.c.isMethodOn(x, "GetMax", ifaceReplInfo):
					val[x] = e.st.max
				case name == "GetProgress" && e.c.isMethodOn(x, "GetProgress", ifaceReplInfo):
					val[x] = e.st.progress
				case name == "SetMax" && e.c.isMethodOn(x, "SetMax", ifaceReplInfo):
					s, ok := symOf(argsOf(x)[0])
					if !ok {
						e.fail = "SetMax of an unmodelled value at " + e.c.pos(x.Pos())
						return "", false
					}
					e.st.max = s
					e.st.setMax = append(e.st.setMax, s)
				case name == "SetProgress" && e.c.isMethodOn(x, "SetProgress", ifaceReplInfo):
					s, ok := symOf(argsOf(x)[0])
					if !ok {
						e.fail = "SetProgress of an unmodelled value at " + e.c.pos(x.Pos())
						return "", false
					}
					e.st.progress = s
					e.st.setProgress = append(e.st.setProgress, s)
				default:
					// another method of the status object: execute its implementation
					if name != "" && name != "Reset" && e.c.isMethodOn(x, name, ifaceReplInfo) {
						ri := e.c.replInfoImpl()
						g := ri.methodsByKey[name]
						if g == nil || g.Blocks == nil || ri.maxF == nil || ri.progF == nil {
							e.fail = "status method " + name + " has no implementation this rule can read, at " + e.c.pos(x.Pos())
							return "", false
						}
						arg := ""
						for _, a := range argsOf(x) {
							if isIntType(a.Type()) {
								s, ok := symOf(a)
								if !ok {
									e.fail = "status method called with an unmodelled argument at " + e.c.pos(x.Pos())
									return "", false
								}
								arg = s
							}
						}
						if r, ok := e.exec(g, arg, depth+1, ri); ok {
							val[x] = r
						}
						if e.fail != "" {
							return "", false
						}
						continue
					}
					// a function literal handed to a "run this under the lock" helper runs here
					if g := x.Call.StaticCallee(); g != nil && g.Blocks != nil && g.Pkg == f.Pkg {
						ran := false
						for i, a := range x.Call.Args {
							mc, ok := a.(*ssa.MakeClosure)
							if !ok || i >= len(g.Params) || !e.c.mustCallParam(g, g.Params[i]) {
								continue
							}
							lit, ok := mc.Fn.(*ssa.Function)
							if !ok {
								continue
							}
							saved := e.free
							env := map[ssa.Value]string{}
							for j, fv := range lit.FreeVars {
								if j >= len(mc.Bindings) {
									continue
								}
								b := mc.Bindings[j]
								if al, ok := b.(*ssa.Alloc); ok {
									if sv := uniqueStore(al); sv != nil {
										if s0, ok := symOf(sv); ok {
											env[fv] = s0
										}
									}
								} else if s0, ok := symOf(b); ok {
									env[fv] = s0
								}
							}
							e.free = env
							e.exec(lit, "", depth+1, impl)
							e.free = saved
							ran = true
							if e.fail != "" {
								return "", false
							}
						}
						if ran {
							continue
						}
					}
					if g := x.Call.StaticCallee(); g != nil && g.Blocks != nil && g.Pkg == f.Pkg && (touchesStatus(e.c, g, 0) || (isIntType(x.Type()) && pureIntHelper(e.c, g))) {
						arg := ""
						for i, p := range g.Params {
							if isIntType(p.Type()) && i < len(x.Call.Args) {
								if s, ok := symOf(x.Call.Args[i]); ok {
									arg = s
								} else {
									e.fail = "helper called with an unmodelled argument at " + e.c.pos(x.Pos())
									return "", false
								}
							}
						}
						if r, ok := e.exec(g, arg, depth+1, nil); ok {
							val[x] = r
						}
						if e.fail != "" {
							return "", false
						}
					}
					// other calls (accessors returning objects, tracing) do not produce integers we use
				}
			case *ssa.If:
				b, ok := boolv[x.Cond]
				if !ok {
					e.fail = "branch on a condition the order-type domain does not model at " + e.c.pos(bestPos(x))
					return "", false
				}
				if b {
					next = blk.Succs[0]
				} else {
					next = blk.Succs[1]
				}
			case *ssa.Jump:
				next = blk.Succs[0]
			case *ssa.Convert:
				if s0, ok := symOf(x.X); ok && isIntType(x.Type()) {
					val[x] = s0
				}
			case *ssa.UnOp:
				if x.Op == token.MUL && e.c.isLenCacheRead(x) {
					val[x] = "logLen"
				}
				// a load of a captured integer variable
				if x.Op == token.MUL {
					if fv, ok := x.X.(*ssa.FreeVar); ok {
						if sv, ok := e.free[fv]; ok {
							val[x] = sv
						}
					}
					// a parameter spilled into a cell because a function literal captures it
					if a, ok := x.X.(*ssa.Alloc); ok {
						if sv := uniqueStore(a); sv != nil {
							if s0, ok := symOf(sv); ok {
								val[x] = s0
							}
						}
					}
				}
				// a load of one of the status object's two fields
				if x.Op == token.MUL {
					switch statusField(x.X) {
					case "max":
						val[x] = e.st.max
					case "progress":
						val[x] = e.st.progress
					}
				}
			case *ssa.Store:
				switch statusField(x.Addr) {
				case "max":
					sv, ok := symOf(x.Val)
					if !ok {
						e.fail = "the maximum is assigned an unmodelled value at " + e.c.pos(x.Pos())
						return "", false
					}
					e.st.max = sv
					e.st.setMax = append(e.st.setMax, sv)
				case "progress":
					sv, ok := symOf(x.Val)
					if !ok {
						e.fail = "the progress is assigned an unmodelled value at " + e.c.pos(x.Pos())
						return "", false
					}
					e.st.progress = sv
					e.st.setProgress = append(e.st.setProgress, sv)
				}
			case *ssa.Return:
				for _, rv := range x.Results {
					if isIntType(rv.Type()) {
						for _, y := range resolveSpill(rv) {
							if sy, ok := symOf(y); ok {
								return sy, true
							}
						}
						if sy, ok := symOf(rv); ok {
							return sy, true
						}
					}
				}
				return "", false
			case *ssa.Panic:
				e.fail = "panic reached"
				return "", false
			}
		}
		if next == nil {
			return "", false
		}
		prev, blk = blk, next
	}
}

// touchesStatus: f (or a same-package callee, 2 levels) calls SetMax/SetProgress.
func touchesStatus(c *Ctx, f *ssa.Function, depth int) bool {
	if f == nil || f.Blocks == nil || depth > 2 {
		return false
	}
	found := false
	eachCall(f, func(call ssa.CallInstruction) {
		if c.isStatusMutation(call) {
			found = true
			return
		}
		if g := call.Common().StaticCallee(); g != nil && g.Pkg == f.Pkg && g != f {
			if touchesStatus(c, g, depth+1) {
				found = true
			}
		}
	})
	return found
}

func directStatusWriter(c *Ctx, f *ssa.Function) bool {
	found := false
	eachCall(f, func(call ssa.CallInstruction) {
		if c.isStatusMutation(call) {
			found = true
		}
	})
	return found
}

// pureIntHelper: a same-package function returning an int that only compares and copies
// (reads the log length, no status write): executed to obtain the symbol it returns.
func pureIntHelper(c *Ctx, g *ssa.Function) bool {
	if g.Signature.Results().Len() != 1 || !isIntType(g.Signature.Results().At(0).Type()) {
		return false
	}
	n := 0
	eachInstr(g, func(ssa.Instruction) { n++ })
	return n < 60
}

func isIntType(t types.Type) bool {
	b, ok := t.Underlying().(*types.Basic)
	return ok && b.Info()&types.IsInteger != 0
}

func onlyIntParams(f *ssa.Function) bool {
	for i, p := range f.Params {
		if i == 0 && f.Signature.Recv() != nil {
			continue
		}
		if !isIntType(p.Type()) {
			return false
		}
	}
	return true
}

// monotoneMutators executes the status implementation's own composite methods (everything
// that writes the two fields except the raw setters and Reset) on every order type: a method
// under which neither figure can decrease may be called from anywhere.
func (c *Ctx) monotoneMutators() map[string]bool {
	out := map[string]bool{}
	ri := c.replInfoImpl()
	if ri.named == nil || ri.maxF == nil || ri.progF == nil {
		return out
	}
	var names []string
	for m := range ri.mutators {
		if m != "SetMax" && m != "SetProgress" && m != "Reset" {
			names = append(names, m)
		}
	}
	sort.Strings(names)
	for _, m := range names {
		g := ri.methodsByKey[m]
		if g == nil || g.Blocks == nil {
			continue
		}
		syms := []string{"logLen", "oldMax", "p", "p+1", "arg"}
		okAll := true
		why := ""
		n := 0
		for _, o := range weakOrderings(syms) {
			if o["p+1"] != o["p"]+1 || o["p"] > o["oldMax"] {
				continue
			}
			n++
			st := &absState{max: "oldMax", progress: "p"}
			ex := &absExec{c: c, ord: o, st: st}
			ex.exec(g, "arg", 0, ri)
			if ex.fail != "" {
				okAll, why = false, ex.fail
				break
			}
			for _, sv := range st.setMax {
				if o[sv] < o["oldMax"] {
					okAll, why = false, fmt.Sprintf("with %s the maximum is set to %s", o.String(), sv)
				}
			}
			for _, sv := range st.setProgress {
				if o[sv] < o["p"] {
					okAll, why = false, fmt.Sprintf("with %s the progress is set to %s", o.String(), sv)
				}
			}
			if o[st.progress] > o[st.max] {
				okAll, why = false, fmt.Sprintf("with %s progress (%s) ends above maximum (%s)", o.String(), st.progress, st.max)
			}
			if !okAll {
				break
			}
		}
		cons := relType(ri.named) + "." + m + "#monotone"
		if okAll {
			out[m] = true
			c.ok("R2", cons, g.Pos(), fmt.Sprintf("on all %d order types neither figure decreases and progress <= maximum is kept: the method may be called from anywhere", n))
		} else {
			c.bad("R2", cons, g.Pos(), "a method of the status object that writes the maximum or the progress is not monotone (or not compare-and-copy): "+why)
		}
	}
	return out
}

func rulesStatus(c *Ctx) {
	// roots: functions that write the status directly, and compositions of two or more of them
	var direct, composite []*ssa.Function
	for _, f := range c.RepoFns {
		if c.isTestFile(f.Pos()) || f.Parent() != nil {
			continue
		}
		if directStatusWriter(c, f) && onlyIntParams(f) {
			direct = append(direct, f)
		}
	}
	isDirect := map[*ssa.Function]bool{}
	for _, f := range direct {
		isDirect[f] = true
	}
	for _, f := range c.RepoFns {
		if c.isTestFile(f.Pos()) || f.Parent() != nil || isDirect[f] {
			continue
		}
		n := map[*ssa.Function]bool{}
		for _, fc := range withClosures(f) {
			eachCall(fc, func(call ssa.CallInstruction) {
				if g := call.Common().StaticCallee(); g != nil && isDirect[g] {
					n[g] = true
				}
			})
		}
		// a composition is itself a recalculation helper only when, like them, it takes nothing
		// but integers: an operation that happens to call two helpers (a load, a merge) is a
		// caller, and R3/R4 look at callers
		if len(n) >= 2 && onlyIntParams(f) {
			composite = append(composite, f)
		}
	}
	helper := map[*ssa.Function]bool{}
	for _, f := range append(append([]*ssa.Function{}, direct...), composite...) {
		helper[f] = true
	}

	monotone := c.monotoneMutators()
	nMut := 0
	for m := range c.replInfoImpl().mutators {
		if m != "SetMax" && m != "SetProgress" && m != "Reset" {
			nMut++
		}
	}
	c.floor("R2", "status recalculation helpers", len(direct)+len(composite)+nMut, 1)

	// R1: who may write the status
	nW := 0
	for _, f := range c.RepoFns {
		if c.isTestFile(f.Pos()) {
			continue
		}
		eachCall(f, func(call ssa.CallInstruction) {
			ms := []string{"Reset"}
			if c.isStatusMutation(call) {
				ms = append(ms, methodName(call))
			}
			for _, m := range ms {
				if !c.isMethodOn(call, m, ifaceReplInfo) {
					continue
				}
				if f.Pkg.Pkg.Path() == repoMod+"/stores/replicator" {
					continue // the implementation itself
				}
				nW++
				cons := fnKey(f) + "→" + m
				switch {
				case m == "Reset":
					if topLevel(f).Name() == "Close" {
						c.ok("R1", cons, call.Pos(), "the status is reset only when the store closes")
					} else {
						c.bad("R1", cons, call.Pos(), "the replication status is reset while the store is open: progress and maximum drop to zero")
					}
				case helper[topLevel(f)]:
					c.ok("R1", cons, call.Pos(), "status written by a recalculation helper (checked by R2)")
				case monotone[m]:
					c.ok("R1", cons, call.Pos(), "status written through a method of the status object under which neither figure can decrease (checked by R2)")
				default:
					c.bad("R1", cons, call.Pos(), "the replication status is written outside the recalculation helpers: nothing guarantees the new value is not below the current one")
				}
			}
		})
	}
	c.floor("R1", "status write sites", nW, 3)

	// R2
	for _, f := range append(append([]*ssa.Function{}, direct...), composite...) {
		fk := fnKey(f)
		hasArg := false
		for _, p := range f.Params {
			if isIntType(p.Type()) {
				hasArg = true
			}
		}
		syms := []string{"logLen", "oldMax", "p", "p+1"}
		if hasArg {
			syms = append(syms, "arg")
		}
		ords := weakOrderings(syms)
		nRun := 0
		var cexMax, cexProg, cexInv, cexFloor, undec string
		for _, o := range ords {
			if o["p+1"] != o["p"]+1 {
				continue // p+1 is the successor of p
			}
			if o["p"] > o["oldMax"] {
				continue // invariant: progress <= maximum
			}
			nRun++
			st := &absState{max: "oldMax", progress: "p"}
			ex := &absExec{c: c, ord: o, st: st}
			ex.run(f, "arg", 0)
			if ex.fail != "" {
				undec = ex.fail
				break
			}
			for _, s := range st.setMax {
				if o[s] < o["oldMax"] && cexMax == "" {
					cexMax = fmt.Sprintf("with %s the maximum is set to %s, below its previous value", o.String(), s)
				}
			}
			for _, s := range st.setProgress {
				if o[s] < o["p"] && cexProg == "" {
					cexProg = fmt.Sprintf("with %s the progress is set to %s, below its previous value", o.String(), s)
				}
			}
			// at rest progress must equal the maximum, which is at least the number of entries held:
			// a recalculation that leaves progress below the log length can be the last one
			if len(st.setProgress) > 0 && o[st.progress] < o["logLen"] && cexFloor == "" {
				cexFloor = fmt.Sprintf("with %s the progress is left at %s, below the number of entries the log holds", o.String(), st.progress)
			}
			if len(st.setProgress) > 0 && len(st.setMax) > 0 {
				if o[st.progress] > o[st.max] && cexInv == "" {
					cexInv = fmt.Sprintf("with %s progress (%s) ends above maximum (%s)", o.String(), st.progress, st.max)
				}
			}
		}
		c.Counts["R2:"+f.Name()+" order types executed"] = nRun
		switch {
		case undec != "":
			c.undecided("R2", fk+"#monotone", f.Pos(), "the helper is no longer compare-and-copy: "+undec)
		case cexMax != "":
			c.bad("R2", fk+"#monotone-max", f.Pos(), "the replication maximum can decrease: "+cexMax)
		case cexProg != "":
			c.bad("R2", fk+"#monotone-progress", f.Pos(), "the replication progress can decrease: "+cexProg)
		case cexInv != "":
			c.bad("R2", fk+"#progress<=max", f.Pos(), "the invariant progress <= maximum is not re-established: "+cexInv)
		case cexFloor != "":
			c.bad("R2", fk+"#progress>=entries", f.Pos(), "progress can be left below the number of entries held, so it does not reach the maximum at rest (entries with equal clocks are counted once): "+cexFloor)
		default:
			c.ok("R2", fk+"#monotone", f.Pos(), fmt.Sprintf("on all %d order types of %v (progress+1 the successor of progress, progress <= maximum on entry) neither value decreases, progress <= maximum is re-established and progress ends at or above the log length", nRun, syms))
		}
	}
}
