package main

import (
	"fmt"
	"go/token"
	"go/types"
	"sort"
	"strings"

	"golang.org/x/tools/go/ssa"
)

// R2 decides monotonicity of the replication status helpers by exhaustive execution over
// order types: the helpers only compare integers and copy one of them (plus one "+1"), so
// their behaviour is a function of the weak ordering of the symbols involved. Every weak
// ordering is enumerated and the function's SSA is executed abstractly on it (branches are
// decided by the ordering, values are symbols). No solver, nothing concrete is run.

type ordering map[string]int // symbol -> level (dense levels 0..k-1)

func (o ordering) String() string {
	byLvl := map[int][]string{}
	max := 0
	for s, l := range o {
		byLvl[l] = append(byLvl[l], s)
		if l > max {
			max = l
		}
	}
	var parts []string
	for l := 0; l <= max; l++ {
		sort.Strings(byLvl[l])
		parts = append(parts, strings.Join(byLvl[l], " = "))
	}
	return strings.Join(parts, " < ")
}

// weakOrderings enumerates all weak orderings (ordered set partitions) of the symbols.
func weakOrderings(syms []string) []ordering {
	var out []ordering
	n := len(syms)
	lv := make([]int, n)
	var rec func(i, used int)
	rec = func(i, used int) {
		if i == n {
			// dense?
			seen := map[int]bool{}
			mx := -1
			for _, l := range lv {
				seen[l] = true
				if l > mx {
					mx = l
				}
			}
			if len(seen) != mx+1 {
				return
			}
			o := ordering{}
			for j, s := range syms {
				o[s] = lv[j]
			}
			out = append(out, o)
			return
		}
		for l := 0; l < n; l++ {
			lv[i] = l
			rec(i+1, used)
		}
	}
	rec(0, 0)
	return out
}

type absState struct {
	max, progress string
	setMax        []string
	setProgress   []string
}

type absExec struct {
	c     *Ctx
	ord   ordering
	st    *absState
	fail  string
	steps int
}

func (e *absExec) cmp(op token.Token, a, b string) (bool, bool) {
	la, ok1 := e.ord[a]
	lb, ok2 := e.ord[b]
	if !ok1 || !ok2 {
		return false, false
	}
	switch op {
	case token.LSS:
		return la < lb, true
	case token.LEQ:
		return la <= lb, true
	case token.GTR:
		return la > lb, true
	case token.GEQ:
		return la >= lb, true
	case token.EQL:
		return la == lb, true
	case token.NEQ:
		return la != lb, true
	}
	return false, false
}

// run executes f with integer parameter bound to argSym.
func (e *absExec) run(f *ssa.Function, argSym string, depth int) {
	if depth > 3 || e.fail != "" {
		if e.fail == "" {
			e.fail = "call depth"
		}
		return
	}
	val := map[ssa.Value]string{}
	boolv := map[ssa.Value]bool{}
	for _, p := range f.Params {
		if isIntType(p.Type()) {
			val[p] = argSym
		}
	}
	var symOf func(v ssa.Value) (string, bool)
	symOf = func(v ssa.Value) (string, bool) {
		if s, ok := val[v]; ok {
			return s, true
		}
		return "", false
	}
	blk := f.Blocks[0]
	var prev *ssa.BasicBlock
	for {
		e.steps++
		if e.steps > 2000 {
			e.fail = "step limit (loop?)"
			return
		}
		var next *ssa.BasicBlock
		for _, in := range blk.Instrs {
			switch x := in.(type) {
			case *ssa.Phi:
				for i, p := range blk.Preds {
					if p == prev {
						if s, ok := symOf(x.Edges[i]); ok {
							val[x] = s
						} else if isIntType(x.Type()) {
							e.fail = "phi edge of unknown value at " + e.c.pos(x.Pos())
							return
						}
					}
				}
			case *ssa.BinOp:
				switch x.Op {
				case token.LSS, token.LEQ, token.GTR, token.GEQ, token.EQL, token.NEQ:
					a, ok1 := symOf(x.X)
					b, ok2 := symOf(x.Y)
					if !ok1 || !ok2 {
						if isIntType(x.X.Type()) {
							e.fail = "comparison of a value the order-type domain does not model at " + e.c.pos(x.Pos())
							return
						}
						continue
					}
					r, ok := e.cmp(x.Op, a, b)
					if !ok {
						e.fail = "comparison outside the enumerated symbols (" + a + " vs " + b + ")"
						return
					}
					boolv[x] = r
				case token.ADD:
					a, ok := symOf(x.X)
					k, isK := constInt(x.Y)
					if ok && isK && k == 1 && a == "p" {
						val[x] = "p+1"
					} else if isIntType(x.Type()) {
						e.fail = "arithmetic other than progress+1 at " + e.c.pos(x.Pos())
						return
					}
				default:
					if isIntType(x.Type()) {
						e.fail = "arithmetic the order-type domain does not model at " + e.c.pos(x.Pos())
						return
					}
				}
			case *ssa.Call:
				name := methodName(x)
				switch {
				case name == "Len" && e.c.isLogCall(x, "Len"):
					val[x] = "logLen"
				case name == "GetMax" && e.c.isMethodOn(x, "GetMax", ifaceReplInfo):
					val[x] = e.st.max
				case name == "GetProgress" && e.c.isMethodOn(x, "GetProgress", ifaceReplInfo):
					val[x] = e.st.progress
				case name == "SetMax" && e.c.isMethodOn(x, "SetMax", ifaceReplInfo):
					s, ok := symOf(argsOf(x)[0])
					if !ok {
						e.fail = "SetMax of an unmodelled value at " + e.c.pos(x.Pos())
						return
					}
					e.st.max = s
					e.st.setMax = append(e.st.setMax, s)
				case name == "SetProgress" && e.c.isMethodOn(x, "SetProgress", ifaceReplInfo):
					s, ok := symOf(argsOf(x)[0])
					if !ok {
						e.fail = "SetProgress of an unmodelled value at " + e.c.pos(x.Pos())
						return
					}
					e.st.progress = s
					e.st.setProgress = append(e.st.setProgress, s)
				default:
					if g := x.Call.StaticCallee(); g != nil && g.Blocks != nil && g.Pkg == f.Pkg && touchesStatus(e.c, g, 0) {
						arg := ""
						for i, p := range g.Params {
							if isIntType(p.Type()) && i < len(x.Call.Args) {
								if s, ok := symOf(x.Call.Args[i]); ok {
									arg = s
								} else {
									e.fail = "helper called with an unmodelled argument at " + e.c.pos(x.Pos())
									return
								}
							}
						}
						e.run(g, arg, depth+1)
						if e.fail != "" {
							return
						}
					}
					// other calls (accessors returning objects, tracing) do not produce integers we use
					if isIntType(x.Type()) {
						// an integer of unknown origin: only a problem if it is used, detected at use
					}
				}
			case *ssa.If:
				b, ok := boolv[x.Cond]
				if !ok {
					e.fail = "branch on a condition the order-type domain does not model at " + e.c.pos(bestPos(x))
					return
				}
				if b {
					next = blk.Succs[0]
				} else {
					next = blk.Succs[1]
				}
			case *ssa.Jump:
				next = blk.Succs[0]
			case *ssa.Return:
				return
			case *ssa.Panic:
				e.fail = "panic reached"
				return
			}
		}
		if next == nil {
			return
		}
		prev, blk = blk, next
	}
}

// touchesStatus: f (or a same-package callee, 2 levels) calls SetMax/SetProgress.
func touchesStatus(c *Ctx, f *ssa.Function, depth int) bool {
	if f == nil || f.Blocks == nil || depth > 2 {
		return false
	}
	found := false
	eachCall(f, func(call ssa.CallInstruction) {
		if c.isMethodOn(call, "SetMax", ifaceReplInfo) || c.isMethodOn(call, "SetProgress", ifaceReplInfo) {
			found = true
			return
		}
		if g := call.Common().StaticCallee(); g != nil && g.Pkg == f.Pkg && g != f {
			if touchesStatus(c, g, depth+1) {
				found = true
			}
		}
	})
	return found
}

func directStatusWriter(c *Ctx, f *ssa.Function) bool {
	found := false
	eachCall(f, func(call ssa.CallInstruction) {
		if c.isMethodOn(call, "SetMax", ifaceReplInfo) || c.isMethodOn(call, "SetProgress", ifaceReplInfo) {
			found = true
		}
	})
	return found
}

func isIntType(t types.Type) bool {
	b, ok := t.Underlying().(*types.Basic)
	return ok && b.Info()&types.IsInteger != 0
}

func rulesStatus(c *Ctx) {
	// roots: functions that write the status directly, and compositions of two or more of them
	var direct, composite []*ssa.Function
	for _, f := range c.RepoFns {
		if c.isTestFile(f.Pos()) || f.Parent() != nil {
			continue
		}
		if directStatusWriter(c, f) {
			direct = append(direct, f)
		}
	}
	isDirect := map[*ssa.Function]bool{}
	for _, f := range direct {
		isDirect[f] = true
	}
	for _, f := range c.RepoFns {
		if c.isTestFile(f.Pos()) || f.Parent() != nil || isDirect[f] {
			continue
		}
		n := map[*ssa.Function]bool{}
		eachCall(f, func(call ssa.CallInstruction) {
			if g := call.Common().StaticCallee(); g != nil && isDirect[g] {
				n[g] = true
			}
		})
		if len(n) >= 2 {
			composite = append(composite, f)
		}
	}
	helper := map[*ssa.Function]bool{}
	for _, f := range append(append([]*ssa.Function{}, direct...), composite...) {
		helper[f] = true
	}
	c.floor("R2", "status recalculation helpers", len(direct)+len(composite), 3)

	// R1: who may write the status
	nW := 0
	for _, f := range c.RepoFns {
		if c.isTestFile(f.Pos()) {
			continue
		}
		eachCall(f, func(call ssa.CallInstruction) {
			for _, m := range []string{"SetMax", "SetProgress", "Reset"} {
				if !c.isMethodOn(call, m, ifaceReplInfo) {
					continue
				}
				if f.Pkg.Pkg.Path() == repoMod+"/stores/replicator" {
					continue // the implementation itself
				}
				nW++
				cons := fnKey(f) + "→" + m
				switch {
				case m == "Reset":
					if topLevel(f).Name() == "Close" {
						c.ok("R1", cons, call.Pos(), "the status is reset only when the store closes")
					} else {
						c.bad("R1", cons, call.Pos(), "the replication status is reset while the store is open: progress and maximum drop to zero")
					}
				case helper[topLevel(f)]:
					c.ok("R1", cons, call.Pos(), "status written by a recalculation helper (checked by R2)")
				default:
					c.bad("R1", cons, call.Pos(), "the replication status is written outside the recalculation helpers: nothing guarantees the new value is not below the current one")
				}
			}
		})
	}
	c.floor("R1", "status write sites", nW, 3)

	// R2
	for _, f := range append(append([]*ssa.Function{}, direct...), composite...) {
		fk := fnKey(f)
		hasArg := false
		for _, p := range f.Params {
			if isIntType(p.Type()) {
				hasArg = true
			}
		}
		syms := []string{"logLen", "oldMax", "p", "p+1"}
		if hasArg {
			syms = append(syms, "arg")
		}
		ords := weakOrderings(syms)
		nRun := 0
		var cexMax, cexProg, cexInv, cexFloor, undec string
		for _, o := range ords {
			if o["p+1"] != o["p"]+1 {
				continue // p+1 is the successor of p
			}
			if o["p"] > o["oldMax"] {
				continue // invariant: progress <= maximum
			}
			nRun++
			st := &absState{max: "oldMax", progress: "p"}
			ex := &absExec{c: c, ord: o, st: st}
			ex.run(f, "arg", 0)
			if ex.fail != "" {
				undec = ex.fail
				break
			}
			for _, s := range st.setMax {
				if o[s] < o["oldMax"] && cexMax == "" {
					cexMax = fmt.Sprintf("with %s the maximum is set to %s, below its previous value", o.String(), s)
				}
			}
			for _, s := range st.setProgress {
				if o[s] < o["p"] && cexProg == "" {
					cexProg = fmt.Sprintf("with %s the progress is set to %s, below its previous value", o.String(), s)
				}
				// at rest progress must equal the maximum, which is at least the number of entries held:
				// a recalculation that leaves progress below the log length can be the last one
				if o[s] < o["logLen"] && cexFloor == "" {
					cexFloor = fmt.Sprintf("with %s the progress is set to %s, below the number of entries the log holds", o.String(), s)
				}
			}
			if len(st.setProgress) > 0 && len(st.setMax) > 0 {
				if o[st.progress] > o[st.max] && cexInv == "" {
					cexInv = fmt.Sprintf("with %s progress (%s) ends above maximum (%s)", o.String(), st.progress, st.max)
				}
			}
		}
		c.Counts["R2:"+f.Name()+" order types executed"] = nRun
		switch {
		case undec != "":
			c.undecided("R2", fk+"#monotone", f.Pos(), "the helper is no longer compare-and-copy: "+undec)
		case cexMax != "":
			c.bad("R2", fk+"#monotone-max", f.Pos(), "the replication maximum can decrease: "+cexMax)
		case cexProg != "":
			c.bad("R2", fk+"#monotone-progress", f.Pos(), "the replication progress can decrease: "+cexProg)
		case cexInv != "":
			c.bad("R2", fk+"#progress<=max", f.Pos(), "the invariant progress <= maximum is not re-established: "+cexInv)
		case cexFloor != "":
			c.bad("R2", fk+"#progress>=entries", f.Pos(), "progress can be left below the number of entries held, so it does not reach the maximum at rest (entries with equal clocks are counted once): "+cexFloor)
		default:
			c.ok("R2", fk+"#monotone", f.Pos(), fmt.Sprintf("on all %d order types of %v (progress+1 the successor of progress, progress <= maximum on entry) neither value decreases, progress <= maximum is re-established and progress ends at or above the log length", nRun, syms))
		}
	}
}
