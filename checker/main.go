// odbcheck decides structural necessary conditions of the go-orbit-db properties C01..C20
// from the source of the repository as it is when the command runs. Nothing is executed.
package main

import (
	"encoding/json"
	"flag"
	"fmt"
	"os"
	"path/filepath"
	"runtime"
	"runtime/debug"
	"sort"
	"strconv"
	"strings"
	"time"
)

func main() {
	prop := flag.String("property", "", "property id (C01..C20)")
	tier := flag.String("tier", "quick", "quick|thorough")
	repo := flag.String("repo", "/repo", "tree to analyse")
	verif := flag.String("verif", "/verif", "verification directory (evidence, known findings)")
	explain := flag.String("explain", "", "replay file: re-evaluate that obligation on the current tree")
	noEvidence := flag.Bool("no-evidence", false, "do not write evidence (used for scratch trees)")
	list := flag.Bool("list", false, "print every obligation")
	rules := flag.String("rules", "", "debug: run these rules (comma separated) instead of a property's")
	flag.Parse()
	if os.Getenv("GOMAXPROCS") == "" {
		runtime.GOMAXPROCS(8) // measured: the loader is faster with fewer procs on this VM
	}
	if *rules != "" {
		propSpecs["DBG"] = &propSpec{ID: "DBG", Rules: rr(strings.Split(*rules, ",")...)}
		*prop = "DBG"
	}
	if t := os.Getenv("VERIF_TIER"); t != "" && !isFlagSet("tier") {
		*tier = t
	}
	if *tier != "quick" && *tier != "thorough" {
		fmt.Fprintln(os.Stderr, "bad tier")
		os.Exit(2)
	}
	if *explain != "" {
		os.Exit(doExplain(*explain, *repo, *verif, *tier))
	}
	if *prop == "" {
		fmt.Fprintln(os.Stderr, "usage: odbcheck -property Cxx [-tier quick|thorough] [-repo dir]")
		os.Exit(2)
	}
	if *prop == "ALL" {
		// self-test mode: one load and one run of every rule, then every property's verdict
		// (never writes evidence; the registered commands run one property each)
		os.Exit(runAll(*tier, *repo, *verif, *list))
	}
	os.Exit(runProperty(*prop, *tier, *repo, *verif, !*noEvidence, *list, nil))
}

var preloaded *Ctx
var preloadedObls []*Obligation

func runAll(tier, repo, verif string, list bool) int {
	overlay := controlOverlay(repo)
	c, err := load(repo, tier, "", overlay)
	if err != nil && len(overlay) > 0 && strings.Contains(err.Error(), "verif_ctl") {
		c, err = load(repo, tier, "", nil)
		if err == nil {
			c.note("controls skipped: overlay did not type-check against this tree")
		}
	} else if err == nil {
		c.WithCtl = len(overlay) > 0
	}
	if err != nil {
		fmt.Printf("analysis failed (analysis-error): %v\nVIOLATION property=ALL replay=- kind=analysis-error\n", err)
		return 1
	}
	var rerr error
	func() {
		defer func() {
			if r := recover(); r != nil {
				rerr = fmt.Errorf("analyser panic: %v\n%s", r, debug.Stack())
			}
		}()
		ran := map[string]bool{}
		var ids []string
		for id := range ruleGroups {
			ids = append(ids, id)
		}
		sort.Strings(ids)
		for _, id := range ids {
			g := ruleGroups[id]
			name := fmt.Sprintf("%p", g)
			if ran[name] {
				continue
			}
			ran[name] = true
			g(c)
		}
	}()
	if rerr != nil {
		fmt.Printf("analysis failed (analysis-error): %v\nVIOLATION property=ALL replay=- kind=analysis-error\n", rerr)
		return 1
	}
	preloaded, preloadedObls = c, c.Obls
	var props []string
	for id := range propSpecs {
		if id != "DBG" {
			props = append(props, id)
		}
	}
	sort.Strings(props)
	rc := 0
	for _, id := range props {
		if r := runProperty(id, tier, repo, verif, false, list, nil); r != 0 {
			rc = 1
		}
	}
	return rc
}

func isFlagSet(name string) bool {
	set := false
	flag.Visit(func(f *flag.Flag) {
		if f.Name == name {
			set = true
		}
	})
	return set
}

type replayFile struct {
	Property   string      `json:"property"`
	Rule       string      `json:"rule"`
	Construct  string      `json:"construct"`
	Obligation *Obligation `json:"obligation"`
	Cmd        string      `json:"cmd"`
}

// analyse loads the tree and runs the rules of one property.
func analyse(spec *propSpec, tier, repo, goarch string) (c *Ctx, err error) {
	defer func() {
		if r := recover(); r != nil {
			err = fmt.Errorf("analyser panic: %v\n%s", r, debug.Stack())
		}
	}()
	if preloaded != nil && goarch == "" {
		cc := *preloaded
		cc.Obls = nil
		for _, o := range preloadedObls {
			oc := *o
			cc.Obls = append(cc.Obls, &oc)
		}
		c = &cc
		return filterObls(c, spec), nil
	}
	overlay := controlOverlay(repo)
	c, err = load(repo, tier, goarch, overlay)
	if err != nil && len(overlay) > 0 && strings.Contains(err.Error(), "verif_ctl") {
		// the controls no longer type-check against this tree: analyse without them, say so
		c, err = load(repo, tier, goarch, nil)
		if err == nil {
			c.note("controls skipped: overlay did not type-check against this tree")
		}
	} else if err == nil {
		c.WithCtl = len(overlay) > 0
	}
	if err != nil {
		return nil, err
	}
	ran := map[string]bool{}
	for _, r := range spec.Rules {
		g := ruleGroups[r.Rule]
		if g == nil {
			return nil, fmt.Errorf("rule %s has no implementation", r.Rule)
		}
		name := fmt.Sprintf("%p", g)
		if ran[name] {
			continue
		}
		ran[name] = true
		g(c)
	}
	return filterObls(c, spec), nil
}

// filterObls keeps only the obligations of the rules this property uses (and its filters).
func filterObls(c *Ctx, spec *propSpec) *Ctx {
	var keep []*Obligation
	for _, o := range c.Obls {
		for _, r := range spec.Rules {
			if o.Rule == r.Rule && (r.Filter == nil || r.Filter(o)) {
				o.Property = spec.ID
				keep = append(keep, o)
				break
			}
		}
	}
	// one obligation per key (test variants of a package repeat its functions): keep the worst
	byKey := map[string]*Obligation{}
	var uniq []*Obligation
	for _, o := range keep {
		if p, ok := byKey[o.Key()]; ok {
			if p.Status == Discharged && o.Status != Discharged {
				*p = *o
			}
			continue
		}
		byKey[o.Key()] = o
		uniq = append(uniq, o)
	}
	c.Obls = uniq
	sortObls(c, c.Obls)
	return c
}

func runProperty(id, tier, repo, verif string, writeEvidence, list bool, only *replayFile) int {
	t0 := time.Now()
	spec := propSpecs[id]
	if spec == nil {
		fmt.Fprintf(os.Stderr, "unknown property %s\n", id)
		return 2
	}
	seed, _ := strconv.Atoi(os.Getenv("VERIF_SEED"))
	evPath := filepath.Join(verif, "evidence", id+".json")
	fail := func(kind string, err error) int {
		rp := filepath.Join(verif, "evidence", "replay", id+"-analysis-failed.json")
		if writeEvidence {
			_ = writeJSON(rp, map[string]string{"property": id, "kind": kind, "error": err.Error()})
		}
		fmt.Printf("analysis failed (%s): %v\n", kind, err)
		fmt.Printf("VIOLATION property=%s replay=%s kind=%s\n", id, rp, kind)
		if writeEvidence {
			ev := Evidence{PropertyID: id, Tier: tier, Seed: seed, Level: "other", WallS: time.Since(t0).Seconds(), Violations: 1,
				Coverage: map[string]interface{}{"explanation": "analysis did not complete: " + err.Error(), "obligations": 0, "discharged": 0}}
			_ = writeJSON(evPath, ev)
		}
		return 1
	}
	c, err := analyse(spec, tier, repo, "")
	if err != nil {
		return fail("analysis-error", err)
	}
	passes := []string{"linux/amd64"}
	if tier == "thorough" {
		// second pass: 32-bit target (integer-width-sensitive rules, build-tagged files)
		c2, err := analyse(spec, tier, repo, "386")
		if err != nil {
			return fail("analysis-error-386", err)
		}
		have := map[string]*Obligation{}
		for _, o := range c.Obls {
			have[o.Key()] = o
		}
		for _, o := range c2.Obls {
			if p, ok := have[o.Key()]; !ok {
				o.Detail = "[GOARCH=386] " + o.Detail
				c.Obls = append(c.Obls, o)
			} else if p.Status == Discharged && o.Status != Discharged {
				p.Status, p.Detail = o.Status, "[GOARCH=386] "+o.Detail
			}
		}
		passes = append(passes, "linux/386")
		c2 = nil
	}

	known, err := loadKnown(filepath.Join(verif, "known_findings.json"))
	if err != nil {
		return fail("known-findings-unreadable", err)
	}
	isKnown := func(o *Obligation) *KnownFinding {
		for i := range known {
			k := &known[i]
			if k.Status == "known" && k.Property == id && k.Rule == o.Rule && k.Construct == o.Construct {
				return k
			}
		}
		return nil
	}

	var real, ctl []*Obligation
	for _, o := range c.Obls {
		if o.Control != "" {
			ctl = append(ctl, o)
		} else {
			real = append(real, o)
		}
	}
	nViol, nKnown, nDis := 0, 0, 0
	var lines []string
	nReplay := 0
	replayDir := filepath.Join(verif, "evidence", "replay")
	emitViolation := func(o *Obligation, extra string) {
		nReplay++
		rp := filepath.Join(replayDir, fmt.Sprintf("%s-%d.json", id, nReplay))
		if writeEvidence {
			_ = writeJSON(rp, replayFile{Property: id, Rule: o.Rule, Construct: o.Construct, Obligation: o,
				Cmd: fmt.Sprintf("bin/odbcheck -explain %s", rp)})
		}
		fmt.Printf("%s: %s [%s %s] %s%s\n", o.Pos, o.Status, o.Rule, o.Construct, o.Detail, extra)
		for _, p := range o.Path {
			fmt.Printf("    via %s\n", p)
		}
		lines = append(lines, fmt.Sprintf("VIOLATION property=%s replay=%s rule=%s construct=%s", id, rp, o.Rule, o.Construct))
	}
	for _, o := range real {
		if only != nil && (o.Rule != only.Rule || o.Construct != only.Construct) {
			continue
		}
		switch o.Status {
		case Discharged:
			nDis++
			if list {
				fmt.Printf("%s: discharged [%s %s] %s\n", o.Pos, o.Rule, o.Construct, o.Detail)
			}
		default:
			if k := isKnown(o); k != nil {
				o.Known = true
				nKnown++
				fmt.Printf("KNOWN-FINDING: property=%s %s [%s %s at %s]\n", id, k.What, o.Rule, o.Construct, o.Pos)
			} else {
				nViol++
				emitViolation(o, "")
			}
		}
	}
	// controls: per (control function, rule) a Bad control must have at least one reported
	// obligation, a Good control must have none
	ctlFired, ctlTotal := 0, 0
	type ck struct{ fn, rule string }
	groups := map[ck][]*Obligation{}
	var order []ck
	for _, o := range ctl {
		i := strings.Index(o.Construct, "verifCtl")
		k := ck{ctlIdent(o.Construct[i:]), o.Rule}
		if _, ok := groups[k]; !ok {
			order = append(order, k)
		}
		groups[k] = append(groups[k], o)
	}
	for _, k := range order {
		ctlTotal++
		g := groups[k]
		nBad := 0
		for _, o := range g {
			if o.Status != Discharged {
				nBad++
			}
		}
		switch {
		case g[0].Control == "bad" && nBad > 0:
			ctlFired++
		case g[0].Control == "good" && nBad == 0:
			ctlFired++
		default:
			nViol++
			for _, o := range g {
				if (g[0].Control == "good") == (o.Status != Discharged) {
					emitViolation(o, " kind=control-failed (the rule no longer distinguishes its "+o.Control+" control)")
					break
				}
			}
		}
	}
	if c.WithCtl {
		for _, need := range spec.Controls {
			found := false
			for _, o := range ctl {
				if o.Rule == need {
					found = true
				}
			}
			if !found {
				nViol++
				emitViolation(&Obligation{Rule: need, Construct: "control-missing", Status: Violated,
					Detail: "kind=control-missing: the positive control of rule " + need + " produced no obligation"}, "")
			}
		}
	}
	if list {
		for _, o := range ctl {
			fmt.Printf("%s: control(%s) %s [%s %s] %s\n", o.Pos, o.Control, o.Status, o.Rule, o.Construct, o.Detail)
		}
		for _, n := range c.Notes {
			fmt.Println("NOTE:", n)
		}
	}

	var seedRes []seedResult
	if tier == "thorough" && only == nil && repo == "/repo" || os.Getenv("ODB_SEEDED") == "1" {
		var lost int
		seedRes, lost = seededReplay(spec, repo, verif)
		fmt.Print(fmtSeedResults(seedRes))
		if lost > 0 {
			nViol++
			emitViolation(&Obligation{Rule: "seeded-replay", Construct: "sensitivity-lost", Status: Violated,
				Detail: "kind=sensitivity-lost: a seeded change recorded as detected by this property is no longer reported"}, "")
		}
	}
	if writeEvidence && only == nil {
		var samples []interface{}
		perRule := map[string]int{}
		for _, o := range real {
			perRule[o.Rule]++
			if perRule[o.Rule] <= 6 || o.Status != Discharged {
				samples = append(samples, o)
			}
		}
		ruleIDs := []string{}
		for _, r := range spec.Rules {
			ruleIDs = append(ruleIDs, r.Rule)
		}
		sort.Strings(c.Notes)
		cov := map[string]interface{}{
			"explanation":         spec.Explanation + " NOT DECIDED: " + spec.NotDecided,
			"rules":               ruleIDs,
			"obligations":         len(real),
			"discharged":          nDis,
			"known":               nKnown,
			"violated":            nViol,
			"obligations_by_rule": perRule,
			"role_instances":      c.Counts,
			"dependency_facts":    c.DepFacts,
			"controls_total":      ctlTotal,
			"controls_fired":      ctlFired,
			"packages":            len(c.Roots),
			"functions_analysed":  len(c.RepoFns),
			"test_functions":      len(c.TestFns),
			"callgraph":           c.cgKind,
			"targets":             passes,
			"samples":             samples,
			"seeded_replay":       seedRes,
			"notes":               c.Notes,
			"exhaustive":          true,
			"checker_cmd":         fmt.Sprintf("bin/odbcheck -property %s -tier %s", id, tier),
		}
		ev := Evidence{PropertyID: id, Tier: tier, Seed: seed, Level: "other", Coverage: cov,
			Assumptions: spec.Assumptions, WallS: time.Since(t0).Seconds(), Violations: nViol}
		if err := writeJSON(evPath, ev); err != nil {
			fmt.Fprintln(os.Stderr, "cannot write evidence:", err)
			return 2
		}
	}
	fmt.Printf("property=%s tier=%s obligations=%d discharged=%d known=%d violated=%d controls=%d/%d functions=%d wall=%.1fs\n",
		id, tier, len(real), nDis, nKnown, nViol, ctlFired, ctlTotal, len(c.RepoFns), time.Since(t0).Seconds())
	for _, l := range lines {
		fmt.Println(l)
	}
	if nViol > 0 {
		return 1
	}
	return 0
}

func doExplain(path, repo, verif, tier string) int {
	b, err := os.ReadFile(path)
	if err != nil {
		fmt.Fprintln(os.Stderr, err)
		return 2
	}
	var rf replayFile
	if err := json.Unmarshal(b, &rf); err != nil || rf.Property == "" {
		fmt.Fprintln(os.Stderr, "not a replay file:", path)
		return 2
	}
	fmt.Printf("re-evaluating %s %s/%s on %s\n", rf.Property, rf.Rule, rf.Construct, repo)
	if rf.Obligation != nil {
		fmt.Printf("recorded: %s at %s: %s\n", rf.Obligation.Status, rf.Obligation.Pos, rf.Obligation.Detail)
	}
	return runProperty(rf.Property, tier, repo, verif, false, true, &rf)
}
