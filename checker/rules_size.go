package main

import (
	"fmt"
	"go/token"
	"go/types"
	"math/big"
	"strings"

	"golang.org/x/tools/go/ssa"
)

func (c *Ctx) wordBits() int {
	if c.GOARCH == "386" || c.GOARCH == "arm" {
		return 32
	}
	return 64
}

// rulesSize: J1 (Join size in range), N1 (narrowing conversions guarded), N2 (allocation sizes
// from the wire bounded on both sides), N3 (indexed fill agrees with its allocation),
// N5 (fixed-size reads are full reads).
func rulesSize(c *Ctx) {
	c.ruleJ1()
	c.ruleN1N2()
	c.ruleN3()
}

// ---------------------------------------------------------------------------
// J1

// isLenOfLog: n is recv.Len(), recv.Values().Len() or recv.GetEntries().Len() of the receiving log.
func (c *Ctx) isLenOfLog(n ssa.Value, recv ssa.Value) bool {
	call, ok := n.(*ssa.Call)
	if !ok || methodName(call) != "Len" {
		if call != nil {
			if b, ok := call.Call.Value.(*ssa.Builtin); ok && b.Name() == "len" {
				// len(recv.Values().Slice()) etc.
				return strings.HasPrefix(nf(call.Call.Args[0]), nf(recv)+".")
			}
		}
		return false
	}
	r := recvOf(call)
	if r == nil {
		return false
	}
	rn, ln := nf(r), nf(recv)
	return rn == ln || rn == ln+".Values()" || rn == ln+".GetEntries()"
}

func (c *Ctx) ruleJ1() {
	// dependency fact DF1: Join slices tmp[len(tmp)-size:] without relating size to len(tmp)
	c.DepFacts["DF1"] = c.depFactJoinUnclamped()
	n := 0
	for _, j := range c.joinSites() {
		f := j.Parent()
		if c.isTestFile(f.Pos()) {
			continue
		}
		if !c.isControlFn(f) {
			n++
		}
		args := argsOf(j)
		if len(args) != 2 {
			continue
		}
		size := args[1]
		cons := fnKey(f) + "→Join#size"
		if k, ok := constInt(size); ok {
			if k == -1 {
				c.ok("J1", cons, j.Pos(), "Join size is the constant -1 (no trimming)")
			} else if k < 0 {
				c.ok("J1", cons, j.Pos(), "Join size is a negative constant (no trimming)")
			} else {
				c.bad("J1", cons, j.Pos(), fmt.Sprintf("Join size is the constant %d: the dependency slices tmp[len(tmp)-%d:] and panics on shorter logs (0 keeps nothing)", k, k))
			}
			continue
		}
		if strings.HasPrefix(c.DepFacts["DF1"], "false") {
			c.ok("J1", cons, j.Pos(), "not needed: the dependency clamps the size itself (DF1 false)")
			continue
		}
		recv := recvOf(j)
		b := j.Block()
		pos := false
		if lb := lowerBoundConst(size, b); lb != nil && lb.Sign() > 0 {
			pos = true
		}
		bounded := boundedAboveBy(size, b, func(w ssa.Value) bool { return c.isLenOfLog(w, recv) })
		if !bounded {
			bounded = c.clampedByLen(size, recv, 0)
		}
		switch {
		case pos && bounded:
			c.ok("J1", cons, j.Pos(), "on every path the size is positive and bounded by the receiving log's length")
		case !pos && !bounded:
			c.bad("J1", cons, j.Pos(), "a caller-chosen size reaches Join with no dominating test that it is positive and no bound against the receiving log: size > length panics (slice bounds out of range) and size == 0 empties the log")
		case !pos:
			c.bad("J1", cons, j.Pos(), "the Join size is bounded by the log length but may be 0 (keeps nothing) on some path: no dominating test establishes size > 0")
		default:
			c.bad("J1", cons, j.Pos(), "the Join size is positive but not bounded by the receiving log's length on every path: a size larger than the log panics inside Join (slice bounds out of range)")
		}
	}
	c.floor("J1", "merge sites (Join)", n, 3)
}

// clampedByLen: v is min(x, len) or a phi whose edges are each the log length or a value
// bounded by it on the incoming edge (the `if v > n { v = n }` idiom).
func (c *Ctx) clampedByLen(v ssa.Value, recv ssa.Value, depth int) bool {
	if depth > 3 {
		return false
	}
	switch x := v.(type) {
	case *ssa.Call:
		if c.isLenOfLog(x, recv) {
			return true
		}
		if b, ok := x.Call.Value.(*ssa.Builtin); ok && b.Name() == "min" {
			for _, a := range x.Call.Args {
				if c.isLenOfLog(a, recv) {
					return true
				}
			}
		}
	case *ssa.Phi:
		for i, e := range x.Edges {
			pred := x.Block().Preds[i]
			if c.isLenOfLog(e, recv) {
				continue
			}
			okEdge := false
			// fact on the edge: either pred's own facts or the branch pred→block
			for _, f := range append(factsAt(pred), edgeFacts(pred, x.Block())...) {
				if f.Y == nil {
					continue
				}
				a, b2, op := f.X, f.Y, f.Op
				if !sameVal(a, e) {
					if sameVal(b2, e) {
						a, b2, op = b2, a, swap(op)
					} else {
						continue
					}
				}
				if (op == token.LEQ || op == token.LSS) && c.isLenOfLog(b2, recv) {
					okEdge = true
				}
			}
			if !okEdge {
				return false
			}
		}
		return len(x.Edges) > 0
	}
	return false
}

// edgeFacts: the fact established by taking the conditional edge from -> to.
func edgeFacts(from, to *ssa.BasicBlock) []fact {
	if len(from.Instrs) == 0 {
		return nil
	}
	iff, ok := from.Instrs[len(from.Instrs)-1].(*ssa.If)
	if !ok || from.Succs[0] == from.Succs[1] {
		return nil
	}
	pol := from.Succs[0] == to
	cond := iff.Cond
	for {
		u, ok := cond.(*ssa.UnOp)
		if !ok || u.Op != token.NOT {
			break
		}
		cond, pol = u.X, !pol
	}
	if bo, ok := cond.(*ssa.BinOp); ok {
		op := bo.Op
		if !pol {
			op = negate(op)
		}
		if op != token.ILLEGAL {
			return []fact{{bo.X, bo.Y, op, iff}}
		}
	}
	return nil
}

// depFactJoinUnclamped derives DF1 from the dependency's source.
func (c *Ctx) depFactJoinUnclamped() string {
	for _, f := range ssaFuncsOfPkg(c, logMod) {
		if f.Name() != "Join" || f.Signature.Recv() == nil || len(f.Params) != 3 {
			continue
		}
		size := f.Params[2]
		found := false
		guarded := false
		eachInstr(f, func(in ssa.Instruction) {
			sl, ok := in.(*ssa.Slice)
			if !ok || sl.Low == nil {
				return
			}
			bo, ok := sl.Low.(*ssa.BinOp)
			if !ok || bo.Op != token.SUB || bo.Y != ssa.Value(size) {
				return
			}
			found = true
			// any fact relating size to a len at this point?
			for _, ft := range factsAt(sl.Block()) {
				if ft.Y == nil {
					continue
				}
				for _, pr := range [][2]ssa.Value{{ft.X, ft.Y}, {ft.Y, ft.X}} {
					if pr[0] == ssa.Value(size) {
						if call, ok := pr[1].(*ssa.Call); ok {
							if b, ok := call.Call.Value.(*ssa.Builtin); ok && b.Name() == "len" {
								guarded = true
							}
						}
					}
				}
			}
		})
		if found && !guarded {
			return "true: (*IPFSLog).Join slices values[len(values)-size:] with no comparison of size against len(values) (derived from " + c.pos(f.Pos()) + ")"
		}
		if found && guarded {
			return "false: Join compares size with the length before slicing"
		}
	}
	return "true (assumed: Join body not found in the loaded dependency)"
}

func ssaFuncsOfPkg(c *Ctx, path string) []*ssa.Function {
	var out []*ssa.Function
	for _, sp := range c.Prog.AllPackages() {
		if sp.Pkg == nil || sp.Pkg.Path() != path {
			continue
		}
		for _, m := range sp.Members {
			switch m := m.(type) {
			case *ssa.Function:
				out = append(out, m)
			case *ssa.Type:
				for _, t := range []types.Type{m.Type(), types.NewPointer(m.Type())} {
					ms := c.Prog.MethodSets.MethodSet(t)
					for i := 0; i < ms.Len(); i++ {
						if f := c.Prog.MethodValue(ms.At(i)); f != nil && f.Blocks != nil {
							out = append(out, f)
						}
					}
				}
			}
		}
	}
	return out
}

// ---------------------------------------------------------------------------
// N1 / N2

// framingFn: the function (or its closures) calls into encoding/binary.
func framingFn(f *ssa.Function) bool {
	found := false
	eachCall(f, func(call ssa.CallInstruction) {
		n := calleeFull(call)
		if strings.HasPrefix(n, "encoding/binary.") || strings.HasPrefix(n, "(encoding/binary.") {
			found = true
		}
	})
	return found
}

// nonNegSource: the value is known non-negative by construction (len/cap, unsigned source).
func nonNegSource(v ssa.Value) bool {
	switch x := v.(type) {
	case *ssa.Call:
		if b, ok := x.Call.Value.(*ssa.Builtin); ok && (b.Name() == "len" || b.Name() == "cap") {
			return true
		}
	case *ssa.Convert:
		if bt, ok := x.X.Type().Underlying().(*types.Basic); ok && bt.Info()&types.IsUnsigned != 0 {
			// unsigned -> wider signed keeps the value; handled by range containment elsewhere
			return false
		}
	}
	if bt, ok := v.Type().Underlying().(*types.Basic); ok && bt.Info()&types.IsUnsigned != 0 {
		return true
	}
	return false
}

// boundedAtCallers: every static call site of p's function hands in, for p, a value that a
// dominating test at the call site keeps within [lo, hi] (as far as needed).
func (c *Ctx) boundedAtCallers(p *ssa.Parameter, needHi bool, hi *big.Int, needLo bool, lo *big.Int) bool {
	f := p.Parent()
	idx := -1
	for i, q := range f.Params {
		if q == p {
			idx = i
		}
	}
	if idx < 0 {
		return false
	}
	sites := 0
	okAll := true
	for _, g := range c.RepoFns {
		if c.isTestFile(g.Pos()) {
			continue
		}
		eachCall(g, func(call ssa.CallInstruction) {
			if call.Common().StaticCallee() != f || idx >= len(call.Common().Args) {
				return
			}
			sites++
			a := call.Common().Args[idx]
			if needHi {
				ub := upperBoundConst(a, call.Block())
				if ub == nil || ub.Cmp(hi) > 0 {
					okAll = false
				}
			}
			if needLo && !nonNegSource(a) {
				lb := lowerBoundConst(a, call.Block())
				if lb == nil || lb.Cmp(lo) < 0 {
					okAll = false
				}
			}
		})
	}
	return sites > 0 && okAll
}

// lenBoundedAtCallers: at every static call site the length of what is handed in for p is kept
// at or below hi by a dominating test of len(arg).
func (c *Ctx) lenBoundedAtCallers(p *ssa.Parameter, hi *big.Int) bool {
	f := p.Parent()
	idx := -1
	for i, q := range f.Params {
		if q == p {
			idx = i
		}
	}
	if idx < 0 {
		return false
	}
	sites, okAll := 0, true
	for _, g := range c.RepoFns {
		if c.isTestFile(g.Pos()) {
			continue
		}
		eachCall(g, func(call ssa.CallInstruction) {
			if call.Common().StaticCallee() != f || idx >= len(call.Common().Args) {
				return
			}
			sites++
			a := call.Common().Args[idx]
			bounded := false
			eachInstr(g, func(in ssa.Instruction) {
				lc, ok := in.(*ssa.Call)
				if !ok {
					return
				}
				if bi, ok := lc.Call.Value.(*ssa.Builtin); !ok || bi.Name() != "len" || len(lc.Call.Args) != 1 || lc.Call.Args[0] != a {
					return
				}
				if ub := upperBoundConst(lc, call.Block()); ub != nil && ub.Cmp(hi) <= 0 {
					bounded = true
				}
			})
			if !bounded {
				okAll = false
			}
		})
	}
	return sites > 0 && okAll
}

func (c *Ctx) ruleN1N2() {
	nConv, nMake, nFn := 0, 0, 0
	wb := c.wordBits()
	for _, f := range c.RepoFns {
		if c.isTestFile(f.Pos()) || !framingFn(f) {
			continue
		}
		if !c.isControlFn(f) {
			nFn++
		}
		fk := fnKey(f)
		ci, mi := 0, 0
		eachInstr(f, func(in ssa.Instruction) {
			switch x := in.(type) {
			case *ssa.Convert:
				slo, shi, ok1 := intRange(x.X.Type(), wb)
				dlo, dhi, ok2 := intRange(x.Type(), wb)
				if !ok1 || !ok2 {
					return
				}
				if _, isConst := x.X.(*ssa.Const); isConst {
					return
				}
				if slo.Cmp(dlo) >= 0 && shi.Cmp(dhi) <= 0 {
					return // widening: always fits
				}
				cons := fmt.Sprintf("%s→conv#%d(%s→%s)", fk, ci, typeStr(x.X.Type()), typeStr(x.Type()))
				ci++
				if !c.isControlFn(f) {
					nConv++
				}
				needLo := slo.Cmp(dlo) < 0 && !nonNegSource(x.X)
				needHi := shi.Cmp(dhi) > 0
				var why []string
				if needHi {
					ub := upperBoundConst(x.X, x.Block())
					if ub == nil || ub.Cmp(dhi) > 0 {
						why = append(why, fmt.Sprintf("no dominating test bounds the source by %s (max of %s)", dhi.String(), typeStr(x.Type())))
					}
				}
				if needLo {
					lb := lowerBoundConst(x.X, x.Block())
					if lb == nil || lb.Cmp(dlo) < 0 {
						why = append(why, "no dominating test excludes negative values")
					}
				}
				if len(why) > 0 {
					// the value may be a parameter of a small helper whose callers do the range test
					if p, ok := x.X.(*ssa.Parameter); ok && c.boundedAtCallers(p, needHi, dhi, needLo, dlo) {
						c.ok("N1", cons, x.Pos(), "narrowing conversion of a parameter that every caller bounds by a dominating range test")
						return
					}
					// the length of a parameter: every caller bounds the length of what it hands in
					if lc, ok := x.X.(*ssa.Call); ok {
						if bi, ok := lc.Call.Value.(*ssa.Builtin); ok && bi.Name() == "len" && len(lc.Call.Args) == 1 {
							if p, ok := lc.Call.Args[0].(*ssa.Parameter); ok && c.lenBoundedAtCallers(p, dhi) {
								c.ok("N1", cons, x.Pos(), "narrowing conversion of the length of a parameter whose length every caller bounds by a dominating range test")
								return
							}
						}
					}
				}
				if len(why) == 0 {
					c.ok("N1", cons, x.Pos(), "narrowing conversion is guarded by a dominating range test")
				} else {
					c.bad("N1", cons, x.Pos(), fmt.Sprintf("narrowing conversion %s→%s in a framing/serialisation function: %s; an out-of-range value is silently truncated or changes sign", typeStr(x.X.Type()), typeStr(x.Type()), strings.Join(why, "; ")))
				}
			case *ssa.MakeSlice:
				// N2: allocation whose length derives from a decoded (wire/file) integer
				src, conv := wireLen(x.Len)
				if src == nil {
					return
				}
				cons := fmt.Sprintf("%s→make#%d", fk, mi)
				mi++
				if !c.isControlFn(f) {
					nMake++
				}
				// type-bounded sources (uint8/uint16) are bounded by construction
				_, shi, _ := intRange(src.Type(), wb)
				small := big.NewInt(1 << 20)
				if shi != nil && shi.Cmp(small) <= 0 && nonNegSource(src) {
					c.ok("N2", cons, x.Pos(), fmt.Sprintf("allocation length is bounded by its %s source type", typeStr(src.Type())))
					return
				}
				_, ihi, _ := intRange(types.Typ[types.Int], wb)
				// accepted: the unsigned source is bounded (<= K <= MaxInt) before conversion
				if ub := upperBoundConst(src, x.Block()); ub != nil && ub.Cmp(ihi) <= 0 && nonNegSource(src) {
					c.ok("N2", cons, x.Pos(), "the decoded length is bounded before it is converted and used as an allocation size")
					return
				}
				// or: the converted signed value is bounded on both sides
				if conv != nil {
					ub := upperBoundConst(conv, x.Block())
					lb := lowerBoundConst(conv, x.Block())
					if ub != nil && ub.Cmp(ihi) <= 0 && lb != nil && lb.Sign() >= 0 {
						c.ok("N2", cons, x.Pos(), "the allocation length is bounded on both sides")
						return
					}
					if ub != nil && (lb == nil || lb.Sign() < 0) {
						c.bad("N2", cons, x.Pos(), fmt.Sprintf("the length prefix is converted %s→%s and only then compared with the maximum: a prefix ≥ 2^%d becomes negative, passes the `> max` test and make panics (len out of range)", typeStr(src.Type()), typeStr(conv.Type()), wb-1))
						return
					}
				}
				c.bad("N2", cons, x.Pos(), "allocation size comes from a decoded length with no dominating upper bound: a peer can make this process allocate arbitrarily much or panic")
			}
		})
	}
	c.floor("N1", "framing/serialisation functions (encoding/binary users)", nFn, 4)
	c.Counts["N1:narrowing conversions"] = nConv
	c.Counts["N2:wire-sized allocations"] = nMake
	if nMake < 1 {
		c.floor("N2", "wire-sized allocations", nMake, 1)
	}
}

// wireLen: the MakeSlice length derives from a decoded integer: the result of
// binary.ReadUvarint/ReadVarint/Uvarint or ByteOrder.UintNN. Returns the decoded value
// and the conversion applied to it (if any).
func wireLen(l ssa.Value) (src ssa.Value, conv ssa.Value) {
	v := l
	for i := 0; i < 4; i++ {
		switch x := v.(type) {
		case *ssa.Convert:
			if conv == nil {
				conv = x
			}
			v = x.X
			continue
		case *ssa.Extract:
			if call, ok := x.Tuple.(*ssa.Call); ok && isBinaryDecode(call) {
				return x, conv
			}
			return nil, nil
		case *ssa.Call:
			if isBinaryDecode(x) {
				return x, conv
			}
			return nil, nil
		}
		break
	}
	return nil, nil
}

func isBinaryDecode(call *ssa.Call) bool {
	n := calleeFull(call)
	switch n {
	case "encoding/binary.ReadUvarint", "encoding/binary.ReadVarint", "encoding/binary.Uvarint", "encoding/binary.Varint":
		return true
	}
	if strings.HasPrefix(n, "(encoding/binary.") {
		m := methodName(call)
		return m == "Uint16" || m == "Uint32" || m == "Uint64"
	}
	return false
}

// ---------------------------------------------------------------------------
// N3

func (c *Ctx) ruleN3() {
	n := 0
	for _, f := range c.RepoFns {
		if c.isTestFile(f.Pos()) {
			continue
		}
		fk := fnKey(f)
		k := 0
		eachInstr(f, func(in ssa.Instruction) {
			st, ok := in.(*ssa.Store)
			if !ok {
				return
			}
			ia, ok := st.Addr.(*ssa.IndexAddr)
			if !ok {
				return
			}
			mk, ok := ia.X.(*ssa.MakeSlice)
			if !ok {
				return
			}
			hdr := loopHeader(st.Block())
			if hdr == nil {
				return
			}
			if co, ok := affine(ia.Index, 0); !ok || co != 1 {
				return
			}
			// allocation length must be a length of something
			lenOf := lengthOperand(mk.Len)
			if lenOf == "" {
				return
			}
			ranged := rangedOperand(hdr)
			if ranged == "" {
				return
			}
			cons := fmt.Sprintf("%s→fill#%d", fk, k)
			k++
			if !c.isControlFn(f) {
				n++
			}
			if lenOf == ranged {
				c.ok("N3", cons, st.Pos(), "the slice is allocated with the length of the collection the filling loop ranges over ("+ranged+")")
			} else {
				c.bad("N3", cons, st.Pos(), fmt.Sprintf("the slice is allocated with the length of %s but filled, one element per iteration, while ranging over %s: index out of range as soon as the two sizes differ", lenOf, ranged))
			}
		})
	}
	c.floor("N3", "make-then-fill loops", n, 4)
}

// lengthOperand: for len(X) or X.Len() returns nf(X), else "".
func lengthOperand(v ssa.Value) string {
	if cv, ok := v.(*ssa.Convert); ok {
		v = cv.X
	}
	call, ok := v.(*ssa.Call)
	if !ok {
		return ""
	}
	if b, ok := call.Call.Value.(*ssa.Builtin); ok {
		if b.Name() == "len" {
			return nf(call.Call.Args[0])
		}
		return ""
	}
	if methodName(call) == "Len" {
		if r := recvOf(call); r != nil && len(argsOf(call)) == 0 {
			return nf(r)
		}
	}
	return ""
}

// rangedOperand: the collection a range loop with this header iterates over.
func rangedOperand(hdr *ssa.BasicBlock) string {
	if len(hdr.Instrs) == 0 {
		return ""
	}
	iff, ok := hdr.Instrs[len(hdr.Instrs)-1].(*ssa.If)
	if !ok {
		return ""
	}
	switch x := iff.Cond.(type) {
	case *ssa.Extract: // map/string range: ok of next(range M)
		if nx, ok := x.Tuple.(*ssa.Next); ok {
			if rg, ok := nx.Iter.(*ssa.Range); ok {
				return nf(rg.X)
			}
		}
	case *ssa.BinOp: // slice range: i+1 < len(M)
		if x.Op == token.LSS {
			if call, ok := x.Y.(*ssa.Call); ok {
				if b, ok := call.Call.Value.(*ssa.Builtin); ok && b.Name() == "len" {
					return nf(call.Call.Args[0])
				}
			}
		}
	}
	return ""
}
