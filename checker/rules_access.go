package main

import (
	"fmt"
	"go/token"
	"go/types"
	"sort"
	"strings"

	"golang.org/x/tools/go/ssa"
)

// acImpls: every named repo type with a CanAppend method satisfying the log's access-controller interface.
func (c *Ctx) acImpls() []*types.Named {
	out := c.implementers(ifaceLogAC)
	sort.Slice(out, func(i, j int) bool { return out[i].String() < out[j].String() })
	return out
}

// identityDerived: values derived from entry.GetIdentity() results inside f.
func (c *Ctx) identityCalls(f *ssa.Function) []ssa.Value {
	return c.identityCallsD(f, 0)
}

func isIdentityPtr(t types.Type) bool {
	p, ok := t.(*types.Pointer)
	return ok && strings.HasSuffix(typeStr(p.Elem()), "identityprovider.Identity")
}

// identityCallsD: the values in f that are the identity an entry names: results of
// GetIdentity(), and identities handed back by a repo helper that obtained them that way.
func (c *Ctx) identityCallsD(f *ssa.Function, depth int) []ssa.Value {
	var out []ssa.Value
	eachCall(f, func(call ssa.CallInstruction) {
		if call.Value() == nil {
			return
		}
		if methodName(call) == "GetIdentity" {
			if isIdentityPtr(call.Value().Type()) {
				out = append(out, call.Value())
			}
			return
		}
		h := call.Common().StaticCallee()
		if h == nil || h.Blocks == nil || h.Pkg == nil || !inRepo(h.Pkg.Pkg) || depth >= 2 {
			return
		}
		res := h.Signature.Results()
		for i := 0; i < res.Len(); i++ {
			if !isIdentityPtr(res.At(i).Type()) {
				continue
			}
			inner := c.identityCallsD(h, depth+1)
			if len(inner) == 0 {
				continue
			}
			dh := derived(inner, flowOpts{})
			returned := false
			eachInstr(h, func(in ssa.Instruction) {
				if r, ok := in.(*ssa.Return); ok && i < len(r.Results) {
					if dh[r.Results[i]] {
						returned = true
					}
					for _, y := range resolveSpill(r.Results[i]) {
						if dh[y] {
							returned = true
						}
					}
				}
			})
			if !returned {
				continue
			}
			if res.Len() == 1 {
				out = append(out, call.Value())
				continue
			}
			if refs := call.Value().Referrers(); refs != nil {
				for _, r := range *refs {
					if ex, ok := r.(*ssa.Extract); ok && ex.Index == i {
						out = append(out, ex)
					}
				}
			}
		}
	})
	return out
}

// identityNonNilFromHelper: id is an identity handed back by a repo helper together with an
// error; the helper never returns a nil identity with a nil error, and b is only reached when
// that error was nil.
func (c *Ctx) identityNonNilFromHelper(id ssa.Value, b *ssa.BasicBlock) bool {
	ex, ok := id.(*ssa.Extract)
	if !ok {
		return false
	}
	call, ok := ex.Tuple.(*ssa.Call)
	if !ok {
		return false
	}
	h := call.Call.StaticCallee()
	if h == nil || h.Blocks == nil {
		return false
	}
	ev := errResult(call)
	if ev == nil {
		return false
	}
	covered := false
	for _, t := range errTests(ev) {
		if t.Ok != nil && branchCovers(t.Ok, b) {
			covered = true
		}
	}
	if !covered {
		return false
	}
	okAll := true
	eachInstr(h, func(in ssa.Instruction) {
		r, isRet := in.(*ssa.Return)
		if !isRet || isFailureReturn(r) || ex.Index >= len(r.Results) {
			return
		}
		for _, v := range resolveSpill(r.Results[ex.Index]) {
			if isNilConst(v) || !nonNilAt(v, r.Block()) {
				okAll = false
			}
		}
	})
	return okAll
}

func (c *Ctx) isVerifyIdentity(call ssa.CallInstruction) bool {
	return c.isMethodOn(call, "VerifyIdentity", ifaceIDP)
}

// rulesAccess: A1 (accept paths check membership and verify), A2 (verification not vacuous),
// A3 (author key binding), A4 (one oplog, guarded, mutated only through the log API), T1 (wire
// entries reach a log only by content address), N4 (decoded pointers are checked before use).
func rulesAccess(c *Ctx) {
	impls := c.acImpls()
	nReal := 0
	for _, n := range impls {
		f := c.methodOf(n, "CanAppend")
		if f == nil || f.Blocks == nil {
			continue
		}
		tn := relType(n)
		if !strings.Contains(tn, "verifCtl") {
			nReal++
		}
		c.ruleA1A3(c.effectiveBody(f), tn)
	}
	c.floor("A1", "access-controller implementations (CanAppend)", nReal, 3)
	c.ruleA2()
	c.ruleA4()
	c.ruleT1()
	c.ruleN4(impls)
}

func acceptReturn(in ssa.Instruction) bool {
	r, ok := in.(*ssa.Return)
	if !ok || len(r.Results) == 0 {
		return false
	}
	return !isFailureReturn(r)
}

// effectiveBody: when all f does is return what a repo helper returns from running a function
// literal f hands to it ("run this with the list, under the lock"), the literal is the body
// to judge.
func (c *Ctx) effectiveBody(f *ssa.Function) *ssa.Function {
	var lit *ssa.Function
	n := 0
	eachInstr(f, func(in ssa.Instruction) {
		r, ok := in.(*ssa.Return)
		if !ok || len(r.Results) == 0 {
			return
		}
		n++
		for _, v := range resolveSpill(r.Results[len(r.Results)-1]) {
			call, ok := v.(*ssa.Call)
			if !ok {
				continue
			}
			w := call.Call.StaticCallee()
			if w == nil || w.Blocks == nil || w.Pkg == nil || !inRepo(w.Pkg.Pkg) {
				continue
			}
			for i, a := range call.Call.Args {
				mc, ok := a.(*ssa.MakeClosure)
				if !ok || i >= len(w.Params) || !c.mustCallParam(w, w.Params[i]) {
					continue
				}
				// the helper hands back what the literal returned
				passes := false
				eachInstr(w, func(x ssa.Instruction) {
					wr, ok := x.(*ssa.Return)
					if !ok || len(wr.Results) == 0 {
						return
					}
					for _, rv := range resolveSpill(wr.Results[len(wr.Results)-1]) {
						if pc, ok := rv.(*ssa.Call); ok && pc.Call.Value == ssa.Value(w.Params[i]) {
							passes = true
						}
					}
				})
				if g, ok := mc.Fn.(*ssa.Function); ok && passes {
					lit = g
				}
			}
		}
	})
	if lit != nil && n == 1 {
		return lit
	}
	return f
}

type memberTest struct {
	iff      *ssa.If
	trueEdge int
}

// membershipTests: comparisons in f of a string derived from the identity (d) with something
// that is not a constant, or of something not derived from it with the wildcard.
func membershipTests(f *ssa.Function, d map[ssa.Value]bool) []memberTest {
	var out []memberTest
	eachInstr(f, func(in ssa.Instruction) {
		bo, ok := in.(*ssa.BinOp)
		if !ok || (bo.Op != token.EQL && bo.Op != token.NEQ) {
			return
		}
		if bt, ok := bo.X.Type().Underlying().(*types.Basic); !ok || bt.Info()&types.IsString == 0 {
			return
		}
		isMember := false
		for _, pr := range [][2]ssa.Value{{bo.X, bo.Y}, {bo.Y, bo.X}} {
			if d[pr[0]] {
				if _, isConst := pr[1].(*ssa.Const); !isConst {
					isMember = true
				}
			}
			if s, ok := constString(pr[1]); ok && s == "*" && !d[pr[0]] {
				isMember = true
			}
		}
		if !isMember {
			return
		}
		for _, r := range *bo.Referrers() {
			if iff, ok := r.(*ssa.If); ok {
				e := 0
				if bo.Op == token.NEQ {
					e = 1
				}
				out = append(out, memberTest{iff, e})
			}
		}
	})
	return out
}

func (c *Ctx) ruleA1A3(f *ssa.Function, tn string) {
	ids := c.identityCalls(f)
	dID := derived(ids, flowOpts{})
	// membership comparisons: identity-id == <list element>, or <list element> == "*"; or a
	// repo predicate given the identity's id whose every possibly-true return lies behind one
	type mcmp struct {
		iff      *ssa.If
		trueEdge int
	}
	var members []mcmp
	for _, m := range membershipTests(f, dID) {
		members = append(members, mcmp{m.iff, m.trueEdge})
	}
	eachInstr(f, func(in ssa.Instruction) {
		iff, ok := in.(*ssa.If)
		if !ok {
			return
		}
		cond := iff.Cond
		edge := 0
		for {
			u, ok := cond.(*ssa.UnOp)
			if !ok || u.Op != token.NOT {
				break
			}
			cond, edge = u.X, 1-edge
		}
		call, ok := cond.(*ssa.Call)
		if !ok {
			return
		}
		h := call.Call.StaticCallee()
		if h == nil || h.Blocks == nil || h.Pkg == nil || !inRepo(h.Pkg.Pkg) {
			return
		}
		if h.Signature.Results().Len() != 1 || typeStr(h.Signature.Results().At(0).Type()) != "bool" {
			return
		}
		var ps []ssa.Value
		for i, a := range call.Call.Args {
			if dID[a] && i < len(h.Params) {
				ps = append(ps, h.Params[i])
			}
		}
		if len(ps) == 0 {
			return
		}
		dh := derived(ps, flowOpts{})
		inner := membershipTests(h, dh)
		if len(inner) == 0 {
			return
		}
		cutH := func(b *ssa.BasicBlock, si int) bool {
			for _, m := range inner {
				if m.iff.Block() == b {
					return si == m.trueEdge
				}
			}
			return false
		}
		mayBeTrue := func(x ssa.Instruction) bool {
			r, ok := x.(*ssa.Return)
			if !ok || len(r.Results) == 0 {
				return false
			}
			for _, v := range resolveSpill(r.Results[0]) {
				k, isK := v.(*ssa.Const)
				if !isK || k.Value == nil || k.Value.ExactString() != "false" {
					return true
				}
			}
			return false
		}
		if hit, _ := findPath(h, entry, nil, mayBeTrue, cutH); hit == nil {
			members = append(members, mcmp{iff, edge})
		}
	})
	// A1(a): cut the edges on which a membership comparison holds; an accepting return
	// must then be unreachable
	cut := func(b *ssa.BasicBlock, si int) bool {
		for _, m := range members {
			if m.iff.Block() == b {
				return si == m.trueEdge
			}
		}
		return false
	}
	consA := tn + ".CanAppend#membership"
	if hit, tr := findPath(f, entry, nil, acceptReturn, cut); hit != nil {
		c.bad("A1", consA, hit.Pos(), "CanAppend can accept an entry on a path where no comparison of the entry's identity id with the write list (or the wildcard) succeeded", c.trailStr(tr)...)
	} else if len(members) == 0 {
		c.bad("A1", consA, f.Pos(), "CanAppend contains no comparison of the entry's identity id with a write list")
	} else {
		c.ok("A1", consA, f.Pos(), fmt.Sprintf("every accepting path passes a successful membership comparison (%d comparison sites)", len(members)))
	}
	// A1(b): identity verification on every accepting path; result returned or tested; argument is the entry's identity
	verify := c.mkVerifySite(f, dID, 0)
	consB := tn + ".CanAppend#verify-identity"
	if hit, tr := findPath(f, entry, verify, func(in ssa.Instruction) bool {
		r, ok := in.(*ssa.Return)
		return ok && isNilErrReturn(r)
	}, nil); hit != nil {
		c.bad("A1", consB, hit.Pos(), "CanAppend returns nil (accept) on a path that never asks the identity provider to verify the entry's identity: the write-list check is then a plain string comparison against a field the sender controls", c.trailStr(tr)...)
	} else {
		any := false
		eachInstr(f, func(in ssa.Instruction) {
			if verify(in) {
				any = true
			}
		})
		if any {
			c.ok("A1", consB, f.Pos(), "every accepting path verifies the entry's identity and uses the result")
		} else {
			c.bad("A1", consB, f.Pos(), "CanAppend never verifies the entry's identity")
		}
	}
	// A3: the signing key is bound to the identity: GetKey() compared with GetIdentity().PublicKey
	bind := c.mkBindSite(f, dID, 0)
	consC := tn + ".CanAppend#key-binding"
	hasBind := false
	eachInstr(f, func(in ssa.Instruction) {
		if bind(in) {
			hasBind = true
		}
	})
	if !hasBind {
		c.bad("A3", consC, f.Pos(), "no accepting path compares the entry's signing key with the public key of the identity it names: an entry signed by anyone's key that copies a writer's identity block is accepted (the dependency verifies the signature against entry.Key only, DF3)")
	} else if hit, tr := findPath(f, entry, bind, acceptReturn, nil); hit != nil {
		c.bad("A3", consC, hit.Pos(), "an accepting path skips the comparison of the signing key with the identity's public key", c.trailStr(tr)...)
	} else {
		c.ok("A3", consC, f.Pos(), "every accepting path binds the signing key to the identity's public key")
	}
}

// mkVerifySite: instructions of f that verify the entry's identity and use the result — a
// VerifyIdentity call on the identity, or a call to a repo helper given the entry or its
// identity whose every accepting return passes such a site.
func (c *Ctx) mkVerifySite(f *ssa.Function, dID map[ssa.Value]bool, depth int) instrPred {
	return func(in ssa.Instruction) bool {
		call, ok := in.(ssa.CallInstruction)
		if !ok {
			return false
		}
		if _, isGo := in.(*ssa.Go); isGo {
			return false
		}
		if c.isVerifyIdentity(call) {
			a := argsOf(call)
			if len(a) != 1 || !dID[a[0]] {
				return false
			}
			ev := errResult(call)
			return ev != nil && (returnedDirectly(ev) || len(errTests(ev)) > 0)
		}
		return c.acHelperSite(call, dID, c.mkVerifySite, depth)
	}
}

// mkBindSite: instructions of f that compare the entry's signing key with the public key of
// the identity it names (directly, or in a helper as above).
func (c *Ctx) mkBindSite(f *ssa.Function, dID map[ssa.Value]bool, depth int) instrPred {
	return func(in ssa.Instruction) bool {
		call, ok := in.(ssa.CallInstruction)
		if !ok {
			return false
		}
		if _, isGo := in.(*ssa.Go); isGo {
			return false
		}
		switch calleeFull(call) {
		case "bytes.Equal", "bytes.Compare":
			hasKey, hasPub := false, false
			for _, a := range call.Common().Args {
				s := nf(a)
				if strings.Contains(s, ".GetKey()") {
					hasKey = true
				}
				if strings.Contains(s, ".GetIdentity().PublicKey") || (dID[a] && strings.Contains(s, "PublicKey")) {
					hasPub = true
				}
			}
			return hasKey && hasPub
		}
		return c.acHelperSite(call, dID, c.mkBindSite, depth) || c.acPredicateSite(call, dID, c.mkBindSite, depth)
	}
}

// acPredicateSite: the call hands the entry or its identity to a static repo predicate (first
// result bool) whose every possibly-true return passes a site of the given kind, and the
// caller branches on the result.
func (c *Ctx) acPredicateSite(call ssa.CallInstruction, dID map[ssa.Value]bool, mk func(*ssa.Function, map[ssa.Value]bool, int) instrPred, depth int) bool {
	h := call.Common().StaticCallee()
	if h == nil || h.Blocks == nil || h.Pkg == nil || !inRepo(h.Pkg.Pkg) || depth >= 3 || call.Value() == nil {
		return false
	}
	if h.Signature.Results().Len() == 0 || typeStr(h.Signature.Results().At(0).Type()) != "bool" {
		return false
	}
	// the caller looks at the answer
	used := false
	var walk func(v ssa.Value, d int)
	walk = func(v ssa.Value, d int) {
		if v == nil || d > 3 || v.Referrers() == nil {
			return
		}
		for _, r := range *v.Referrers() {
			switch x := r.(type) {
			case *ssa.If:
				used = true
			case *ssa.UnOp:
				walk(x, d+1)
			case *ssa.Extract:
				if x.Index == 0 {
					walk(x, d+1)
				}
			case *ssa.Phi:
				walk(x, d+1)
			}
		}
	}
	walk(call.Value(), 0)
	if !used {
		return false
	}
	seeds := c.identityCalls(h)
	for i, p := range h.Params {
		if i < len(call.Common().Args) && dID[call.Common().Args[i]] {
			seeds = append(seeds, p)
		}
	}
	dH := derived(seeds, flowOpts{})
	pred := mk(h, dH, depth+1)
	any := false
	eachInstr(h, func(in ssa.Instruction) {
		if pred(in) {
			any = true
		}
	})
	if !any {
		return false
	}
	mayBeTrue := func(in ssa.Instruction) bool {
		r, ok := in.(*ssa.Return)
		if !ok || len(r.Results) == 0 {
			return false
		}
		for _, v := range resolveSpill(r.Results[0]) {
			k, isK := v.(*ssa.Const)
			if !isK || k.Value == nil || k.Value.ExactString() != "false" {
				return true
			}
		}
		return false
	}
	hit, _ := findPath(h, entry, pred, mayBeTrue, nil)
	return hit == nil
}

// acHelperSite: the call hands the entry or its identity to a static repo helper, uses the
// helper's error, and every accepting return of the helper passes a site of the given kind.
func (c *Ctx) acHelperSite(call ssa.CallInstruction, dID map[ssa.Value]bool, mk func(*ssa.Function, map[ssa.Value]bool, int) instrPred, depth int) bool {
	h := call.Common().StaticCallee()
	if h == nil || h.Blocks == nil || h.Pkg == nil || !inRepo(h.Pkg.Pkg) || depth >= 3 {
		return false
	}
	ev := errResult(call)
	if ev == nil || !(returnedDirectly(ev) || len(errTests(ev)) > 0) {
		return false
	}
	seeds := c.identityCalls(h)
	for i, p := range h.Params {
		if i < len(call.Common().Args) && dID[call.Common().Args[i]] {
			seeds = append(seeds, p)
		}
	}
	dH := derived(seeds, flowOpts{})
	pred := mk(h, dH, depth+1)
	any := false
	eachInstr(h, func(in ssa.Instruction) {
		if pred(in) {
			any = true
		}
	})
	if !any {
		return false
	}
	hit, _ := findPath(h, entry, pred, acceptReturn, nil)
	return hit == nil
}

// A2: the identity verification the controllers rely on is not a constant accept.
func (c *Ctx) ruleA2() {
	it := c.lookupIface(ifaceIDP)
	if it == nil {
		c.floor("A2", "identity provider interface", 0, 1)
		return
	}
	n := 0
	for _, sp := range c.Prog.AllPackages() {
		if sp.Pkg == nil {
			continue
		}
		for _, m := range sp.Members {
			t, ok := m.(*ssa.Type)
			if !ok {
				continue
			}
			nt, ok := t.Type().(*types.Named)
			if !ok {
				continue
			}
			if _, isI := nt.Underlying().(*types.Interface); isI {
				continue
			}
			if !types.Implements(types.NewPointer(nt), it) && !types.Implements(nt, it) {
				continue
			}
			if isTestPkgPath(sp.Pkg.Path()) || strings.Contains(sp.Pkg.Path(), "/test") {
				continue
			}
			f := c.methodOf(nt, "VerifyIdentity")
			if f == nil || f.Blocks == nil {
				continue
			}
			n++
			trivial := true
			eachInstr(f, func(in ssa.Instruction) {
				switch x := in.(type) {
				case *ssa.Return:
					for _, r := range x.Results {
						if !isNilConst(r) {
							trivial = false
						}
					}
				case ssa.CallInstruction:
					trivial = false
				}
			})
			name := strings.TrimPrefix(nt.String(), logMod+"/")
			cons := "VerifyIdentity→" + name
			if trivial {
				c.DepFacts["DF2"] = "true: " + name + ".VerifyIdentity is `return nil` (no call, no comparison); derived from " + c.pos(f.Pos())
				c.bad("A2", cons, f.Pos(), "the only identity verification reachable from CanAppend accepts every identity unconditionally: an entry naming a writer's id but carrying another key pair passes CanAppend and Join")
			} else {
				c.ok("A2", cons, f.Pos(), "VerifyIdentity performs a check")
			}
		}
	}
	c.floor("A2", "identity provider implementations", n, 1)
}

// ---------------------------------------------------------------------------
// A4

var logCtors = map[string]bool{
	logMod + ".NewLog": true, logMod + ".NewFromEntryHash": true, logMod + ".NewFromJSON": true,
	logMod + ".NewFromEntry": true, logMod + ".NewFromMultihash": true,
}

// structLitFields returns field name -> stored value for a composite literal built in an Alloc.
func structLitFields(v ssa.Value) map[string]ssa.Value {
	out := map[string]ssa.Value{}
	a, ok := v.(*ssa.Alloc)
	if !ok {
		// a literal built by a repo constructor: `opts := b.emptyLogOptions()`
		if call, isCall := v.(*ssa.Call); isCall {
			if h := call.Call.StaticCallee(); h != nil && h.Blocks != nil && h.Pkg != nil && inRepo(h.Pkg.Pkg) {
				var found map[string]ssa.Value
				eachInstr(h, func(in ssa.Instruction) {
					r, ok := in.(*ssa.Return)
					if !ok || len(r.Results) == 0 || found != nil {
						return
					}
					for _, rv := range resolveSpill(r.Results[0]) {
						if al, ok := rv.(*ssa.Alloc); ok {
							if m := structLitFields(al); len(m) > 0 {
								found = m
							}
						}
					}
				})
				if found != nil {
					return found
				}
			}
		}
		return out
	}
	for _, r := range *a.Referrers() {
		fa, ok := r.(*ssa.FieldAddr)
		if !ok {
			continue
		}
		for _, rr := range *fa.Referrers() {
			if st, ok := rr.(*ssa.Store); ok && st.Addr == fa {
				out[fieldName(a.Type(), fa.Field)] = st.Val
			}
		}
	}
	return out
}

func (c *Ctx) ruleA4() {
	nCtor := 0
	for _, f := range c.RepoFns {
		if c.isTestFile(f.Pos()) {
			continue
		}
		fk := fnKey(f)
		k := 0
		eachCall(f, func(call ssa.CallInstruction) {
			name := calleeFull(call)
			if !logCtors[name] {
				return
			}
			if !c.isControlFn(f) {
				nCtor++
			}
			cons := fmt.Sprintf("%s→%s#%d", fk, strings.TrimPrefix(name, logMod+"."), k)
			k++
			// the *LogOptions argument
			var opts ssa.Value
			for _, a := range call.Common().Args {
				if p, ok := a.Type().(*types.Pointer); ok && strings.HasSuffix(typeStr(p.Elem()), "go-ipfs-log.LogOptions") {
					opts = a
				}
			}
			if opts == nil || isNilConst(opts) {
				c.bad("A4", cons, call.Pos(), "a log is constructed without options: no access controller guards what can be joined into it")
				return
			}
			fl := structLitFields(opts)
			ac, hasAC := fl["AccessController"]
			_, hasID := fl["ID"]
			switch {
			case !hasAC || isNilConst(ac):
				c.bad("A4", cons, call.Pos(), "a log is constructed without the store's access controller (LogOptions.AccessController unset): the dependency then installs its accept-all default, and every entry joined through this log bypasses the write list")
			case !strings.Contains(nf(ac), "AccessController()") && !strings.Contains(nf(ac), ".access"):
				c.bad("A4", cons, call.Pos(), "the access controller given to this log does not come from the store ("+nf(ac)+")")
			case !hasID:
				c.bad("A4", cons, call.Pos(), "a log is constructed without the database id (LogOptions.ID unset): entries of other databases would not be filtered out by Join")
			default:
				c.ok("A4", cons, call.Pos(), "log constructed with the store's access controller and database id")
			}
		})
		// (ii) mutators other than Append/Join; writes to exported fields of *IPFSLog
		eachInstr(f, func(in ssa.Instruction) {
			switch x := in.(type) {
			case ssa.CallInstruction:
				if c.isLogCall(x, "SetIdentity") {
					c.bad("A4", fk+"→log.SetIdentity", x.Pos(), "repo code changes the identity of a live log")
				}
			case *ssa.Store:
				if fa, ok := x.Addr.(*ssa.FieldAddr); ok {
					if p, ok := fa.X.Type().(*types.Pointer); ok && typeStr(p.Elem()) == logMod+".IPFSLog" {
						c.bad("A4", fk+"→IPFSLog."+fieldName(fa.X.Type(), fa.Field), x.Pos(), "repo code writes a field of the log directly, bypassing Append/Join and their access checks")
					}
				}
			}
		})
	}
	c.floor("A4", "log constructor sites", nCtor, 5)

	// (iii) the controller handed to the store constructor comes from Resolve on the manifest's address
	nSC := 0
	for _, f := range c.fnsInPkg("baseorbitdb") {
		if c.isTestFile(f.Pos()) {
			continue
		}
		eachCall(f, func(call ssa.CallInstruction) {
			cc := call.Common()
			if cc.IsInvoke() || cc.StaticCallee() != nil {
				return
			}
			if !strings.HasSuffix(typeStr(cc.Value.Type()), "iface.StoreConstructor") {
				return
			}
			nSC++
			fk := fnKey(f)
			var resolves []ssa.Value // Resolve calls (here or in a helper that returns the controller)
			var viaHelper []ssa.Value
			isResolve := func(rc ssa.CallInstruction) bool {
				return calleeFull(rc) == repoMod+"/accesscontroller/utils.Resolve" && rc.Value() != nil
			}
			eachCall(f, func(rc ssa.CallInstruction) {
				if isResolve(rc) {
					resolves = append(resolves, rc.Value())
					return
				}
				h := rc.Common().StaticCallee()
				if h == nil || h.Blocks == nil || h.Pkg != f.Pkg || rc.Value() == nil {
					return
				}
				var inner []ssa.Value
				eachCall(h, func(ic ssa.CallInstruction) {
					if isResolve(ic) {
						inner = append(inner, ic.Value())
					}
				})
				if len(inner) == 0 {
					return
				}
				dh := derived(inner, flowOpts{})
				returned := false
				eachInstr(h, func(in ssa.Instruction) {
					if r, ok := in.(*ssa.Return); ok {
						for _, v := range r.Results {
							if dh[v] {
								returned = true
							}
							for _, y := range resolveSpill(v) {
								if dh[y] {
									returned = true
								}
							}
						}
					}
				})
				if returned {
					viaHelper = append(viaHelper, rc.Value())
					resolves = append(resolves, inner...)
				}
			})
			d := derived(append(append([]ssa.Value{}, resolves...), viaHelper...), flowOpts{})
			var opts ssa.Value
			for _, a := range cc.Args {
				if p, ok := a.Type().(*types.Pointer); ok && strings.HasSuffix(typeStr(p.Elem()), "iface.NewStoreOptions") {
					opts = a
				}
			}
			ac := c.litField(opts, "AccessController")
			cons := fk + "→StoreConstructor#access-controller"
			// the resolved controller may travel in a field of a small struct the steps of this
			// function hand to each other: stored into the field here, read from it where the
			// options are built
			viaField := false
			if u, ok := strip(ac).(*ssa.UnOp); ac != nil && ok && u.Op == token.MUL {
				if fa, ok := u.X.(*ssa.FieldAddr); ok {
					want := fieldVarOf(fa)
					eachInstr(f, func(in ssa.Instruction) {
						st, ok := in.(*ssa.Store)
						if !ok || !d[st.Val] {
							return
						}
						if fa2, ok := st.Addr.(*ssa.FieldAddr); ok && want != nil && fieldVarOf(fa2) == want {
							viaField = true
						}
					})
					// or the step that resolves the controller puts it into the field itself
					eachCall(f, func(hc ssa.CallInstruction) {
						h := hc.Common().StaticCallee()
						if h == nil || h.Blocks == nil || h.Pkg != f.Pkg || viaField {
							return
						}
						var inner []ssa.Value
						eachCall(h, func(ic ssa.CallInstruction) {
							if isResolve(ic) {
								inner = append(inner, ic.Value())
							}
						})
						if len(inner) == 0 {
							return
						}
						dh := derived(inner, flowOpts{})
						eachInstr(h, func(in ssa.Instruction) {
							st, ok := in.(*ssa.Store)
							if !ok || !dh[st.Val] {
								return
							}
							if fa2, ok := st.Addr.(*ssa.FieldAddr); ok && want != nil && fieldVarOf(fa2) == want {
								viaField = true
								resolves = append(resolves, inner...)
							}
						})
					})
				}
			}
			if ac != nil && (d[ac] || d[strip(ac)] || viaField) {
				c.ok("A4", cons, call.Pos(), "the store receives the controller resolved from the manifest's access-controller address")
			} else {
				c.bad("A4", cons, call.Pos(), "the access controller handed to the store constructor does not come from acutils.Resolve on the manifest's address: a caller (or nothing at all) decides who may write")
			}
			// Resolve's address argument derives from options.AccessControllerAddress
			for _, rv := range resolves {
				rc, ok := rv.(*ssa.Call)
				if !ok {
					continue
				}
				if len(rc.Call.Args) >= 3 && strings.Contains(nf(rc.Call.Args[2]), "AccessControllerAddress") {
					c.ok("A4", fk+"→Resolve#address", rc.Pos(), "Resolve is applied to the recorded access-controller address")
				} else {
					c.bad("A4", fk+"→Resolve#address", rc.Pos(), "Resolve is not applied to the access-controller address recorded for the database")
				}
			}
		})
	}
	c.floor("A4", "store constructor invocations", nSC, 1)
	// Open: AccessControllerAddress and the store type come from the decoded manifest
	for _, f := range c.fnsInPkg("baseorbitdb") {
		if f.Parent() != nil || c.isTestFile(f.Pos()) {
			continue
		}
		// the decoded manifest: a literal decoded into here, or what a same-package reader returns
		var manifest ssa.Value
		eachInstr(f, func(in ssa.Instruction) {
			if a, ok := in.(*ssa.Alloc); ok && strings.HasSuffix(typeStr(a.Type()), "utils.Manifest") {
				manifest = a
			}
			if ex, ok := in.(*ssa.Extract); ok && strings.HasSuffix(typeStr(ex.Type()), "utils.Manifest") {
				if call, ok := ex.Tuple.(*ssa.Call); ok {
					if h := call.Call.StaticCallee(); h != nil && h.Pkg == f.Pkg {
						manifest = ex
					}
				}
			}
		})
		if manifest == nil {
			continue
		}
		// only the function that goes on to create the store is judged (a reader that merely
		// returns the manifest is not)
		createsStore := false
		eachCall(f, func(x ssa.CallInstruction) {
			if g := x.Common().StaticCallee(); g != nil && g.Pkg == f.Pkg {
				eachCall(g, func(cc ssa.CallInstruction) {
					if !cc.Common().IsInvoke() && cc.Common().StaticCallee() == nil && strings.HasSuffix(typeStr(cc.Common().Value.Type()), "iface.StoreConstructor") {
						createsStore = true
					}
				})
			}
		})
		if !createsStore {
			continue
		}
		fk := fnKey(f)
		okAddr, okType := false, false
		var addrStores, scCalls []ssa.Instruction
		eachInstr(f, func(in ssa.Instruction) {
			switch x := in.(type) {
			case *ssa.Store:
				if fa, ok := x.Addr.(*ssa.FieldAddr); ok && fieldName(fa.X.Type(), fa.Field) == "AccessControllerAddress" {
					if strings.HasSuffix(nf(x.Val), ".AccessController") && loadsFrom(x.Val, manifest) {
						okAddr = true
						addrStores = append(addrStores, in)
					}
				}
			case ssa.CallInstruction:
				if g := x.Common().StaticCallee(); g != nil && g.Pkg == f.Pkg && len(x.Common().Args) >= 3 {
					for _, a := range x.Common().Args {
						if strings.HasSuffix(nf(a), ".Type") && loadsFrom(a, manifest) {
							// handed to the function that invokes the store constructor?
							hasSC := false
							eachCall(g, func(cc ssa.CallInstruction) {
								if !cc.Common().IsInvoke() && cc.Common().StaticCallee() == nil && strings.HasSuffix(typeStr(cc.Common().Value.Type()), "iface.StoreConstructor") {
									hasSC = true
								}
							})
							if hasSC {
								okType = true
								scCalls = append(scCalls, in)
							}
						}
					}
				}
			}
		})
		// the manifest's address is put in place on EVERY path to the store creation: a value
		// left there by the caller (or by an earlier open through the same options) must not win
		var skip ssa.Instruction
		var skipTrail []token.Pos
		if okAddr {
			via := func(in ssa.Instruction) bool {
				for _, s := range addrStores {
					if in == s {
						return true
					}
				}
				return false
			}
			target := func(in ssa.Instruction) bool {
				for _, s := range scCalls {
					if in == s {
						return true
					}
				}
				return false
			}
			skip, skipTrail = findPath(f, entry, via, target, nil)
		}
		if okAddr && skip != nil {
			c.bad("A4", fk+"#manifest→access-controller-address", skip.Pos(), "on some path the store is created with whatever access-controller address the caller's options already held instead of the one recorded in the manifest: options reused from an earlier open (the resolved address is written back into them) or filled in by the caller open this database under another database's write list", c.trailStr(skipTrail)...)
		} else if okAddr {
			c.ok("A4", fk+"#manifest→access-controller-address", f.Pos(), "the access-controller address used to open a database is the one recorded in its manifest")
		} else {
			c.bad("A4", fk+"#manifest→access-controller-address", f.Pos(), "opening a database does not take the access-controller address from the manifest stored at the address root")
		}
		if okType {
			c.ok("A4", fk+"#manifest→type", f.Pos(), "the store type used to open a database is the one recorded in its manifest")
		} else {
			c.bad("A4", fk+"#manifest→type", f.Pos(), "opening a database does not take the store type from the manifest stored at the address root")
		}
	}
}

// litField returns the value stored in field `name` of the struct literal v points to. When v
// is the result of a repo helper that builds and returns the literal (a constructor extracted
// by a refactoring), the field value is translated back to the caller's argument if the helper
// just forwards one of its parameters.
func (c *Ctx) litField(v ssa.Value, name string) ssa.Value {
	if v == nil {
		return nil
	}
	call, ok := v.(*ssa.Call)
	if !ok {
		if fv, ok := structLitFields(v)[name]; ok {
			return fv
		}
		return nil
	}
	h := call.Call.StaticCallee()
	if h == nil || h.Blocks == nil || h.Pkg == nil || !inRepo(h.Pkg.Pkg) {
		return nil
	}
	var res ssa.Value
	eachInstr(h, func(in ssa.Instruction) {
		r, ok := in.(*ssa.Return)
		if !ok || len(r.Results) == 0 {
			return
		}
		for _, rv := range resolveSpill(r.Results[0]) {
			if fv, ok := structLitFields(rv)[name]; ok {
				for i, p := range h.Params {
					if isParamValue(fv, p) && i < len(call.Call.Args) {
						res = call.Call.Args[i]
						return
					}
				}
				res = fv
			}
		}
	})
	return res
}

// loadsFrom: v is a load of a field of the given cell.
func loadsFrom(v ssa.Value, cell ssa.Value) bool {
	u, ok := v.(*ssa.UnOp)
	if !ok || u.Op != token.MUL {
		return false
	}
	fa, ok := u.X.(*ssa.FieldAddr)
	return ok && fa.X == cell
}

// ---------------------------------------------------------------------------
// T1: field-based interprocedural taint from wire heads to log constructors

func isWireHeadsField(fa ssa.Value) bool {
	switch x := fa.(type) {
	case *ssa.FieldAddr:
		return fieldName(x.X.Type(), x.Field) == "Heads" && strings.Contains(typeStr(x.X.Type()), "iface.MessageExchangeHeads")
	case *ssa.Field:
		return fieldName(x.X.Type(), x.Field) == "Heads" && strings.Contains(typeStr(x.X.Type()), "iface.MessageExchangeHeads")
	}
	return false
}

func (c *Ctx) ruleT1() {
	tainted := map[ssa.Value]bool{}
	taintedFields := map[*types.Var]bool{}
	var work []ssa.Value
	origin := map[ssa.Value]ssa.Value{}
	push := func(v, from ssa.Value) {
		if v == nil || tainted[v] {
			return
		}
		if _, isConst := v.(*ssa.Const); isConst {
			return
		}
		tainted[v] = true
		origin[v] = from
		work = append(work, v)
	}
	fns := c.RepoFns
	nSrc := 0
	for _, f := range fns {
		if c.isTestFile(f.Pos()) {
			continue
		}
		// sources: reads of MessageExchangeHeads.Heads where the message was decoded from bytes
		// (the function calls a MessageMarshaler.Unmarshal or receives the message as a parameter)
		eachInstr(f, func(in ssa.Instruction) {
			if v, ok := in.(ssa.Value); ok && isWireHeadsField(v) {
				// writes into a fresh outgoing message are not sources
				if fa, ok := v.(*ssa.FieldAddr); ok {
					onlyStores := true
					for _, r := range *fa.Referrers() {
						if st, ok := r.(*ssa.Store); !ok || st.Addr != ssa.Value(fa) {
							onlyStores = false
						}
					}
					if onlyStores {
						return
					}
				}
				if !c.isControlFn(f) {
					nSrc++
				}
				push(v, nil)
			}
		})
	}
	fieldVar := func(t types.Type, i int) *types.Var {
		if p, ok := t.Underlying().(*types.Pointer); ok {
			t = p.Elem()
		}
		if s, ok := t.Underlying().(*types.Struct); ok && i < s.NumFields() {
			return s.Field(i)
		}
		return nil
	}
	fieldLoads := map[*types.Var][]ssa.Value{}
	for _, f := range fns {
		eachInstr(f, func(in ssa.Instruction) {
			switch x := in.(type) {
			case *ssa.FieldAddr:
				if fv := fieldVar(x.X.Type(), x.Field); fv != nil {
					fieldLoads[fv] = append(fieldLoads[fv], x)
				}
			case *ssa.Field:
				if fv := fieldVar(x.X.Type(), x.Field); fv != nil {
					fieldLoads[fv] = append(fieldLoads[fv], x)
				}
			}
		})
	}
	type sinkHit struct {
		call ssa.CallInstruction
		v    ssa.Value
	}
	var hits []sinkHit
	isSink := func(call ssa.CallInstruction) bool {
		n := calleeFull(call)
		return logCtors[n] || n == logMod+"/entry.NewOrderedMapFromEntries" || c.isLogCall(call, "Join")
	}
	for len(work) > 0 {
		v := work[len(work)-1]
		work = work[:len(work)-1]
		refs := v.Referrers()
		if refs == nil {
			continue
		}
		for _, r := range *refs {
			switch x := r.(type) {
			case *ssa.Phi, *ssa.ChangeType, *ssa.ChangeInterface, *ssa.MakeInterface, *ssa.Slice,
				*ssa.Extract, *ssa.TypeAssert, *ssa.Index, *ssa.IndexAddr, *ssa.Lookup, *ssa.Range, *ssa.Next, *ssa.Convert:
				push(x.(ssa.Value), v)
			case *ssa.UnOp:
				if x.Op == token.MUL || x.Op == token.ARROW {
					push(x, v)
				}
			case *ssa.FieldAddr:
				if x.X == v && isWireHeadsField(x) {
					push(x, v)
				}
			case *ssa.Store:
				if x.Val != v {
					continue
				}
				root := x.Addr
				for {
					switch a := root.(type) {
					case *ssa.IndexAddr:
						push(a.X, v)
						root = a.X
						continue
					case *ssa.FieldAddr:
						if fv := fieldVar(a.X.Type(), a.Field); fv != nil && !taintedFields[fv] {
							taintedFields[fv] = true
							for _, l := range fieldLoads[fv] {
								push(l, v)
							}
						}
						// an options literal holding a tainted value is itself tainted (sink args)
						push(a.X, v)
					case *ssa.Alloc:
						push(a, v)
					}
					break
				}
				if ar := x.Addr.Referrers(); ar != nil {
					for _, l := range *ar {
						if u, ok := l.(*ssa.UnOp); ok && u.Op == token.MUL {
							push(u, v)
						}
					}
				}
			case *ssa.MapUpdate:
				push(x.Map, v)
			case *ssa.Send:
				if x.X == v {
					push(x.Chan, v)
				}
			case *ssa.MakeClosure:
				if fn, ok := x.Fn.(*ssa.Function); ok {
					for i, b := range x.Bindings {
						if b == v && i < len(fn.FreeVars) {
							push(fn.FreeVars[i], v)
						}
					}
				}
			case *ssa.Return:
				// callers' call results
				fn := x.Parent()
				for _, g := range fns {
					eachCall(g, func(call ssa.CallInstruction) {
						for _, cal := range c.repoCallees(call) {
							if cal == fn && call.Value() != nil {
								push(call.Value(), v)
							}
						}
					})
				}
			case ssa.CallInstruction:
				if isSink(x) {
					hits = append(hits, sinkHit{x, v})
					continue
				}
				if b, ok := x.Common().Value.(*ssa.Builtin); ok {
					if b.Name() == "append" || b.Name() == "copy" {
						if x.Value() != nil {
							push(x.Value(), v)
						}
					}
					continue
				}
				// into repo callees: parameters
				cc := x.Common()
				for _, cal := range c.repoCallees(x) {
					params := cal.Params
					args := cc.Args
					if cc.IsInvoke() {
						// receiver is params[0]
						if cc.Value == v && len(params) > 0 {
							push(params[0], v)
						}
						for i, a := range args {
							if a == v && i+1 < len(params) {
								push(params[i+1], v)
							}
						}
					} else {
						for i, a := range args {
							if a == v && i < len(params) {
								push(params[i], v)
							}
						}
					}
				}
				// results of dependency calls on a tainted entry are values OF the entry
				// (hash, next, …), not the entry: the content address is the permitted channel.
			}
		}
	}
	c.Counts["T1:wire sources (reads of MessageExchangeHeads.Heads)"] = nSrc
	c.floor("T1", "wire sources (reads of MessageExchangeHeads.Heads)", nSrc, 2)
	c.Counts["T1:tainted values"] = len(tainted)
	c.wireTaint = tainted
	realHits := 0
	for _, h := range hits {
		if !c.isControlFn(h.call.Parent()) {
			realHits++
		}
	}
	if realHits == 0 {
		c.ok("T1", "wire-heads→log-constructors", token.NoPos, fmt.Sprintf("no value derived from a received heads list reaches a log constructor, an entry map or Join (%d tainted values followed through %d functions); received entries influence a log only through their content address", len(tainted), len(fns)))
	}
	seen := map[string]bool{}
	for _, h := range hits {
		f := h.call.Parent()
		cons := fmt.Sprintf("%s→%s#wire-entry", fnKey(f), strings.TrimPrefix(calleeFull(h.call), logMod))
		if seen[cons] {
			continue
		}
		seen[cons] = true
		var trail []string
		for x := h.v; x != nil && len(trail) < 10; x = origin[x] {
			if in, ok := x.(ssa.Instruction); ok && in.Pos().IsValid() {
				trail = append(trail, c.pos(in.Pos()))
			}
		}
		c.bad("T1", cons, h.call.Pos(), "an entry object decoded from a network message reaches a log constructor / Join directly, instead of being refetched by its content address: its fields (payload, next, key, signature, id) are whatever the sender wrote", trail...)
	}
}

// ---------------------------------------------------------------------------
// N4

// clockDefinedAt: a dominating exclusive branch established clock.Defined() == true, where
// clock has the same normal form as the given value.
func (c *Ctx) clockDefinedAt(clock ssa.Value, b *ssa.BasicBlock) bool {
	for _, ft := range factsAt(b) {
		if ft.Y == nil && ft.Op == token.EQL {
			if dc, ok := ft.X.(*ssa.Call); ok && methodName(dc) == "Defined" && nf(dc.Common().Value) == nf(clock) {
				return true
			}
		}
	}
	return false
}

func (c *Ctx) ruleN4(impls []*types.Named) {
	// (a) boxing of wire-decoded head pointers into the entry interface
	nBox := 0
	for _, f := range c.RepoFns {
		if c.isTestFile(f.Pos()) {
			continue
		}
		var seeds []ssa.Value
		eachInstr(f, func(in ssa.Instruction) {
			if v, ok := in.(ssa.Value); ok && isWireHeadsField(v) {
				if fa, ok := v.(*ssa.FieldAddr); ok {
					onlyStores := true
					for _, r := range *fa.Referrers() {
						if st, ok := r.(*ssa.Store); !ok || st.Addr != ssa.Value(fa) {
							onlyStores = false
						}
					}
					if onlyStores {
						return
					}
				}
				seeds = append(seeds, v)
			}
		})
		// … or a parameter that a caller fills with the decoded heads (a boxing helper)
		for idx, p := range f.Params {
			if !strings.HasSuffix(typeStr(p.Type()), "[]*berty.tech/go-ipfs-log/entry.Entry") {
				continue
			}
			for _, g := range c.RepoFns {
				if c.isTestFile(g.Pos()) {
					continue
				}
				eachCall(g, func(cs ssa.CallInstruction) {
					if cs.Common().StaticCallee() != f || idx >= len(cs.Common().Args) {
						return
					}
					var gs []ssa.Value
					eachInstr(g, func(x ssa.Instruction) {
						if v, ok := x.(ssa.Value); ok && isWireHeadsField(v) {
							gs = append(gs, v)
						}
					})
					if len(gs) > 0 && derived(gs, flowOpts{})[cs.Common().Args[idx]] {
						seeds = append(seeds, p)
					}
				})
			}
		}
		if len(seeds) == 0 {
			continue
		}
		d := derived(seeds, flowOpts{})
		fk := fnKey(f)
		k := 0
		eachInstr(f, func(in ssa.Instruction) {
			mi, ok := in.(*ssa.MakeInterface)
			if !ok || !d[mi.X] {
				return
			}
			if _, isPtr := mi.X.Type().(*types.Pointer); !isPtr {
				return
			}
			if !strings.HasSuffix(typeStr(mi.X.Type()), "entry.Entry") {
				return
			}
			cons := fmt.Sprintf("%s→box-head#%d", fk, k)
			k++
			if !c.isControlFn(f) {
				nBox++
			}
			if nonNilAt(mi.X, mi.Block()) {
				c.ok("N4", cons, bestPos(mi), "the decoded head pointer is nil-tested before it is boxed into the entry interface")
			} else {
				c.bad("N4", cons, bestPos(mi), "a head decoded from a network message (possibly null) is boxed into the entry interface without a nil test of the pointer: `h == nil` on the interface is false for a typed nil, and the first method call on it dereferences nil ({\"heads\":[null]} crashes the process)")
			}
		})
	}
	c.floor("N4", "boxing sites of wire-decoded heads", nBox, 2)

	// (b) dereference of GetIdentity() results in access controllers
	nDeref := 0
	for _, n := range impls {
		for _, f := range c.methodsOf(n) {
			ids := c.identityCalls(f)
			if len(ids) == 0 {
				continue
			}
			fk := fnKey(f)
			k := 0
			for _, id := range ids {
				for _, r := range *id.Referrers() {
					var pos token.Pos
					switch x := r.(type) {
					case *ssa.FieldAddr:
						if x.X != id {
							continue
						}
						pos = x.Pos()
					case *ssa.UnOp:
						if x.Op != token.MUL {
							continue
						}
						pos = x.Pos()
					default:
						continue
					}
					in := r.(ssa.Instruction)
					cons := fmt.Sprintf("%s→identity-deref#%d", fk, k)
					k++
					if !c.isControlFn(f) {
						nDeref++
					}
					if nonNilAt(id, in.Block()) || c.identityNonNilFromHelper(id, in.Block()) {
						c.ok("N4", cons, pos, "GetIdentity() result is nil-tested before its field is read")
					} else {
						c.bad("N4", cons, pos, "the identity of an entry received from a peer or fetched from IPFS may be absent; reading a field of GetIdentity() without a nil test panics in CanAppend (reached from Sync and from Join)")
					}
				}
			}
		}
	}
	c.floor("N4", "identity dereferences in access controllers", nDeref, 3)

	// (d) entries handed to the dependency's encoder: DF8 — ToJsonableEntry dereferences the
	// clock and the identity's signatures without a nil test
	nW := 0
	for _, f := range c.RepoFns {
		if c.isTestFile(f.Pos()) {
			continue
		}
		k := 0
		eachCall(f, func(call ssa.CallInstruction) {
			if methodName(call) != "Write" || !call.Common().IsInvoke() || !strings.HasSuffix(typeStr(call.Common().Value.Type()), "go-ipfs-log/iface.IO") && !strings.HasSuffix(typeStr(call.Common().Value.Type()), "go-ipfs-log.IO") {
				return
			}
			var ent ssa.Value
			for _, a := range call.Common().Args {
				x := strip(a)
				if it := c.lookupIface(ifaceEntry); it != nil && (types.Implements(x.Type(), it) || types.Implements(a.Type(), it)) {
					ent = x
				}
			}
			if ent == nil {
				return
			}
			// only entries that come in from outside: parameters / elements of parameter slices
			fromParam := false
			var ps []ssa.Value
			for _, p := range f.Params {
				ps = append(ps, p)
			}
			if derived(ps, flowOpts{})[ent] {
				fromParam = true
			}
			if !fromParam {
				return
			}
			if !c.isControlFn(f) {
				nW++
			}
			cons := fmt.Sprintf("%s→IO.Write#complete-entry#%d", fnKey(f), k)
			k++
			en := nf(ent)
			ef := c.entryFacts(call.Block(), 0)
			clockOK, sigOK := ef["defined("+en+")"], ef["sig("+en+")"]
			var missing []string
			if !clockOK {
				missing = append(missing, "no dominating Defined() test of its clock")
			}
			if !sigOK {
				missing = append(missing, "no dominating nil test of its identity's signatures")
			}
			if len(missing) > 0 {
				// the checks may have been made by every caller before handing the entry over
				if pe, ok := ent.(*ssa.Parameter); ok {
					idx := -1
					for i, q := range f.Params {
						if q == pe {
							idx = i
						}
					}
					sites, okAll := 0, true
					for _, g := range c.RepoFns {
						if c.isTestFile(g.Pos()) || idx < 0 {
							continue
						}
						eachCall(g, func(cs ssa.CallInstruction) {
							if cs.Common().StaticCallee() != f || idx >= len(cs.Common().Args) {
								return
							}
							sites++
							an := nf(strip(cs.Common().Args[idx]))
							cf := c.entryFacts(cs.Block(), 0)
							if !cf["defined("+an+")"] || !cf["sig("+an+")"] {
								okAll = false
							}
						})
					}
					if sites > 0 && okAll {
						missing = nil
					}
				}
			}
			if len(missing) == 0 {
				c.ok("N4", cons, call.Pos(), "the received entry is only re-encoded after its clock and identity signatures were found present")
			} else {
				c.bad("N4", cons, call.Pos(), "a received entry is handed to the entry encoder with "+strings.Join(missing, " and ")+": the encoder dereferences both (DF8), so a head that passes the access controller (identity and key copied from a real entry) but lacks a clock or signatures crashes the process")
			}
		})
	}
	c.floor("N4", "received entries handed to the encoder", nW, 1)

	// (e) clocks of entries received in a heads message (T1's taint set, followed into callees):
	// GetClock() returns an interface holding a possibly nil *LamportClock, so a nil test of
	// that interface proves nothing; any method but Defined() needs a Defined() guard.
	for _, f := range c.RepoFns {
		if c.isTestFile(f.Pos()) {
			continue
		}
		fk := fnKey(f)
		k := 0
		eachCall(f, func(call ssa.CallInstruction) {
			if methodName(call) == "Defined" || !call.Common().IsInvoke() {
				return
			}
			rc, ok := call.Common().Value.(*ssa.Call)
			if !ok || methodName(rc) != "GetClock" || recvOf(rc) == nil || !c.wireTaint[recvOf(rc)] {
				return
			}
			cons := fmt.Sprintf("%s→wire-clock.%s#%d", fk, methodName(call), k)
			k++
			if c.clockDefinedAt(call.Common().Value, call.Block()) {
				c.ok("N4", cons, call.Pos(), "the clock of a received head is used only after Defined() succeeded")
			} else {
				c.bad("N4", cons, call.Pos(), "the clock of a head received from a peer may be absent ({\"heads\":[{}]}): GetClock() then returns an interface holding a nil pointer, a nil test of that interface is always false, and "+methodName(call)+"() dereferences nil; only a dominating Defined() test protects the call")
			}
		})
	}

	// (f) identities of entries received in a heads message: GetIdentity() is a plain pointer
	// that is nil when the head carries no identity; a field read needs a nil test
	for _, f := range c.RepoFns {
		if c.isTestFile(f.Pos()) {
			continue
		}
		fk := fnKey(f)
		k := 0
		eachCall(f, func(rc ssa.CallInstruction) {
			if methodName(rc) != "GetIdentity" || rc.Value() == nil || recvOf(rc) == nil || !c.wireTaint[recvOf(rc)] {
				return
			}
			if _, isPtr := rc.Value().Type().Underlying().(*types.Pointer); !isPtr {
				return
			}
			id := rc.Value()
			type deref struct {
				pos token.Pos
				ok  bool
			}
			var ds []deref
			for v := range valueAliases(id) {
				refs := v.Referrers()
				if refs == nil {
					continue
				}
				for _, r := range *refs {
					var pos token.Pos
					switch x := r.(type) {
					case *ssa.FieldAddr:
						if x.X != v {
							continue
						}
						pos = x.Pos()
					case *ssa.UnOp:
						if x.Op != token.MUL || x.X != v {
							continue
						}
						if _, isAlloc := v.(*ssa.Alloc); isAlloc {
							continue
						}
						pos = x.Pos()
					default:
						continue
					}
					in := r.(ssa.Instruction)
					ds = append(ds, deref{pos, nonNilAt(v, in.Block()) || nonNilAt(id, in.Block()) || c.identityNonNilFromHelper(id, in.Block())})
				}
			}
			sort.Slice(ds, func(i, j int) bool { return ds[i].pos < ds[j].pos })
			for _, d := range ds {
				cons := fmt.Sprintf("%s→wire-identity-deref#%d", fk, k)
				k++
				if d.ok {
					c.ok("N4", cons, d.pos, "the identity of a received head is nil-tested before its field is read")
				} else {
					c.bad("N4", cons, d.pos, "the identity of a head received from a peer may be absent: reading a field of GetIdentity() without a nil test dereferences nil in the message handler")
				}
			}
		})
	}

	// (c) clocks of announced entries: methods other than Defined() need a Defined() guard
	for _, f := range c.RepoFns {
		if c.isTestFile(f.Pos()) {
			continue
		}
		var seeds []ssa.Value
		eachInstr(f, func(in ssa.Instruction) {
			if ta, ok := in.(*ssa.TypeAssert); ok && strings.HasSuffix(typeStr(ta.AssertedType), "replicator.EventLoadAdded") {
				seeds = append(seeds, ta)
			}
		})
		if len(seeds) == 0 {
			continue
		}
		d := derived(seeds, flowOpts{})
		fk := fnKey(f)
		k := 0
		eachCall(f, func(call ssa.CallInstruction) {
			if methodName(call) == "Defined" || !call.Common().IsInvoke() {
				return
			}
			rc, ok := call.Common().Value.(*ssa.Call)
			if !ok || methodName(rc) != "GetClock" || !d[rc.Common().Value] {
				return
			}
			cons := fmt.Sprintf("%s→announced-clock.%s#%d", fk, methodName(call), k)
			k++
			guarded := false
			for _, ft := range factsAt(call.Block()) {
				if ft.Y == nil && ft.Op == token.EQL {
					if dc, ok := ft.X.(*ssa.Call); ok && methodName(dc) == "Defined" && nf(dc.Common().Value) == nf(call.Common().Value) {
						guarded = true
					}
				}
			}
			if guarded {
				c.ok("N4", cons, call.Pos(), "the clock of an announced entry is used only after Defined() succeeded")
			} else {
				c.bad("N4", cons, call.Pos(), "the clock of an entry announced by a peer may be absent; calling "+methodName(call)+"() on it without a Defined() guard dereferences nil in the store's main loop")
			}
		})
	}
}
