package main

import (
	"fmt"
	"go/ast"
	"go/parser"
	"go/token"
	"go/types"
	"path/filepath"
	"sort"
	"strings"

	"golang.org/x/tools/go/ssa"
)

// rulesExtra4: rules added after the second round of independently seeded changes
// (interaction faults: a new piece of state that disagrees with an existing protocol).
//
//	T6 — memo discipline of the function that verifies received heads (Sync): a membership
//	     map of the store that decides whether a head is looked at
//	     (i)   is only written where the head's claimed hash was verified and the access
//	           controller accepted it,
//	     (ii)  can forget (has an element delete) or is only fed after the merge, and
//	     (iii) when the function releases marks at all, every path from a mark to a return
//	           passes a release or hands it to a goroutine / deferred call that does
//	L3 — drain atomicity: a field that is read out (handed on) and then reset to an empty
//	     value is reset under a lock held continuously since the read (own locks or locks
//	     held by every caller)
//	E6 — a wake-up sent without blocking goes to a channel with capacity: on an unbuffered
//	     channel it is dropped whenever the receiver is not parked yet
//	X5 — the snapshot writer reads what the header promises (count, heads) before it reads
//	     the entries it writes: the log only grows, so the entries written then cover the header
//	X6 — frame buffers of the snapshot loader are filled by a full read: io.ReadFull, or Read
//	     on the UnixFS file itself (DF10: its Read is a full read)
func rulesExtra4(c *Ctx) {
	c.ruleT6()
	c.ruleL3()
	c.ruleE6()
	c.ruleX5()
	c.ruleX6()
	c.ruleI8()
	c.ruleI9()
	c.ruleM6()
	c.ruleL4()
	c.ruleI10()
	c.ruleR3()
	c.ruleR5()
	c.ruleJ2()
	c.ruleR4()
	c.ruleX7()
	c.ruleL5()
	c.ruleL5b()
}

// ---------------------------------------------------------------------------
// shared helpers

// mapFieldOf: v is the value of a map-typed struct field (a load of its address, or a Field).
func mapFieldOf(v ssa.Value) *types.Var {
	var fv *types.Var
	switch x := v.(type) {
	case *ssa.UnOp:
		if x.Op == token.MUL {
			if fa, ok := x.X.(*ssa.FieldAddr); ok {
				fv = fieldVarOf(fa)
			}
		}
	case *ssa.Field:
		t := x.X.Type()
		if s, ok := t.Underlying().(*types.Struct); ok && x.Field < s.NumFields() {
			fv = s.Field(x.Field)
		}
	}
	if fv == nil {
		return nil
	}
	if _, ok := fv.Type().Underlying().(*types.Map); !ok {
		return nil
	}
	return fv
}

type mapOps struct {
	lookups, inserts, deletes map[*types.Var][]ssa.Instruction
}

func newMapOps() *mapOps {
	return &mapOps{map[*types.Var][]ssa.Instruction{}, map[*types.Var][]ssa.Instruction{}, map[*types.Var][]ssa.Instruction{}}
}

// directMapOps: lookups, element writes and element deletes on struct-field maps in f itself.
func directMapOps(f *ssa.Function) *mapOps {
	o := newMapOps()
	eachInstr(f, func(in ssa.Instruction) {
		switch x := in.(type) {
		case *ssa.Lookup:
			if fv := mapFieldOf(x.X); fv != nil {
				o.lookups[fv] = append(o.lookups[fv], in)
			}
		case *ssa.MapUpdate:
			if fv := mapFieldOf(x.Map); fv != nil {
				o.inserts[fv] = append(o.inserts[fv], in)
			}
		case *ssa.Call:
			if b, ok := x.Call.Value.(*ssa.Builtin); ok && b.Name() == "delete" && len(x.Call.Args) == 2 {
				if fv := mapFieldOf(x.Call.Args[0]); fv != nil {
					o.deletes[fv] = append(o.deletes[fv], in)
				}
			}
			// a sync.Map field is a map like any other
			if fv, kind := syncMapOp(x); fv != nil {
				switch kind {
				case "lookup":
					o.lookups[fv] = append(o.lookups[fv], in)
				case "insert":
					o.inserts[fv] = append(o.inserts[fv], in)
				case "both":
					o.lookups[fv] = append(o.lookups[fv], in)
					o.inserts[fv] = append(o.inserts[fv], in)
				case "delete":
					o.deletes[fv] = append(o.deletes[fv], in)
				}
			}
		}
	})
	return o
}

// syncMapOp: a Load/Store/LoadOrStore/Delete call on a struct field of type sync.Map.
func syncMapOp(call ssa.CallInstruction) (*types.Var, string) {
	g := call.Common().StaticCallee()
	if g == nil || g.Signature.Recv() == nil || typeStr(g.Signature.Recv().Type()) != "*sync.Map" || len(call.Common().Args) == 0 {
		return nil, ""
	}
	fa, ok := call.Common().Args[0].(*ssa.FieldAddr)
	if !ok {
		return nil, ""
	}
	fv := fieldVarOf(fa)
	switch g.Name() {
	case "Load":
		return fv, "lookup"
	case "Store", "Swap":
		return fv, "insert"
	case "LoadOrStore", "CompareAndSwap":
		return fv, "both"
	case "Delete", "LoadAndDelete", "CompareAndDelete":
		return fv, "delete"
	}
	return nil, ""
}

// deepMapOps: the map fields f (with its closures and static repo callees, two levels)
// looks up / writes / deletes from.
func (c *Ctx) deepMapOps(f *ssa.Function, depth int, seen map[*ssa.Function]bool) (lk, ins, del map[*types.Var]bool) {
	lk, ins, del = map[*types.Var]bool{}, map[*types.Var]bool{}, map[*types.Var]bool{}
	if f == nil || f.Blocks == nil || seen[f] || depth > 2 {
		return
	}
	seen[f] = true
	for _, g := range withClosures(f) {
		o := directMapOps(g)
		for k := range o.lookups {
			lk[k] = true
		}
		for k := range o.inserts {
			ins[k] = true
		}
		for k := range o.deletes {
			del[k] = true
		}
		eachCall(g, func(call ssa.CallInstruction) {
			h := call.Common().StaticCallee()
			if h == nil || h.Pkg == nil || !inRepo(h.Pkg.Pkg) {
				return
			}
			a, b, d := c.deepMapOps(h, depth+1, seen)
			for k := range a {
				lk[k] = true
			}
			for k := range b {
				ins[k] = true
			}
			for k := range d {
				del[k] = true
			}
		})
	}
	return
}

// instrMapOps: the map fields this one instruction (directly, or through the static repo
// callee it calls / the closure it starts) looks up, writes, deletes from.
func (c *Ctx) instrMapOps(in ssa.Instruction) (lk, ins, del map[*types.Var]bool) {
	lk, ins, del = map[*types.Var]bool{}, map[*types.Var]bool{}, map[*types.Var]bool{}
	switch x := in.(type) {
	case *ssa.Lookup:
		if fv := mapFieldOf(x.X); fv != nil {
			lk[fv] = true
		}
		return
	case *ssa.MapUpdate:
		if fv := mapFieldOf(x.Map); fv != nil {
			ins[fv] = true
		}
		return
	}
	call, ok := in.(ssa.CallInstruction)
	if !ok {
		return
	}
	if fv, kind := syncMapOp(call); fv != nil {
		switch kind {
		case "lookup":
			lk[fv] = true
		case "insert":
			ins[fv] = true
		case "both":
			lk[fv], ins[fv] = true, true
		case "delete":
			del[fv] = true
		}
		return
	}
	if b, ok := call.Common().Value.(*ssa.Builtin); ok {
		if b.Name() == "delete" && len(call.Common().Args) == 2 {
			if fv := mapFieldOf(call.Common().Args[0]); fv != nil {
				del[fv] = true
			}
		}
		return
	}
	var h *ssa.Function
	if mc, ok := call.Common().Value.(*ssa.MakeClosure); ok {
		h, _ = mc.Fn.(*ssa.Function)
	} else {
		h = call.Common().StaticCallee()
	}
	if h == nil || h.Pkg == nil || !inRepo(h.Pkg.Pkg) {
		return
	}
	return c.deepMapOps(h, 0, map[*ssa.Function]bool{})
}

func mapFieldName(fv *types.Var) string {
	if fv == nil {
		return "?"
	}
	p := ""
	if fv.Pkg() != nil {
		p = strings.TrimPrefix(fv.Pkg().Path(), repoMod+"/") + "."
	}
	return p + fv.Name()
}

// ---------------------------------------------------------------------------
// T6

// condMapFields: the struct-field maps whose membership the boolean value depends on.
func (c *Ctx) condMapFields(v ssa.Value, depth int, seen map[ssa.Value]bool, out map[*types.Var]bool) {
	if v == nil || seen[v] || depth > 6 {
		return
	}
	seen[v] = true
	switch x := v.(type) {
	case *ssa.BinOp:
		c.condMapFields(x.X, depth+1, seen, out)
		c.condMapFields(x.Y, depth+1, seen, out)
	case *ssa.UnOp:
		c.condMapFields(x.X, depth+1, seen, out)
	case *ssa.Extract:
		c.condMapFields(x.Tuple, depth+1, seen, out)
	case *ssa.Phi:
		for _, e := range x.Edges {
			c.condMapFields(e, depth+1, seen, out)
		}
	case *ssa.Lookup:
		if fv := mapFieldOf(x.X); fv != nil {
			out[fv] = true
		}
	case *ssa.Call:
		lk, _, _ := c.instrMapOps(x)
		for k := range lk {
			out[k] = true
		}
		if fv, kind := syncMapOp(x); fv != nil && (kind == "lookup" || kind == "both") {
			out[fv] = true
		}
	}
}

func (c *Ctx) ruleT6() {
	n, nGate := 0, 0
	for _, f := range c.RepoFns {
		if c.isTestFile(f.Pos()) || f.Parent() != nil {
			continue
		}
		// the function that checks received heads and loads them (same anchor as T4)
		nCan, nLoad := 0, 0
		for _, g := range withClosures(f) {
			eachCall(g, func(call ssa.CallInstruction) {
				if methodName(call) == "CanAppend" && c.isMethodOn(call, "CanAppend", ifaceLogAC) {
					nCan++
				}
				if h := call.Common().StaticCallee(); h != nil && h.Blocks != nil && h.Pkg == f.Pkg && h != f {
					if c.reachesStatic(h, func(hc ssa.CallInstruction) bool {
						return methodName(hc) == "CanAppend" && c.isMethodOn(hc, "CanAppend", ifaceLogAC)
					}, 0) {
						nCan++
					}
				}
				if methodName(call) == "Load" && recvOf(call) != nil && strings.Contains(typeStr(recvOf(call).Type()), "eplicator") {
					nLoad++
				}
			})
		}
		if nCan == 0 || nLoad == 0 {
			continue
		}
		if !c.isControlFn(f) {
			n++
		}
		fk := fnKey(f)
		// what the function itself (with closures and callees) writes
		_, fIns, _ := c.deepMapOps(f, 0, map[*ssa.Function]bool{})
		// gates: conditions depending on membership in a map the function also feeds
		gates := map[*types.Var]*ssa.If{}
		eachInstr(f, func(in ssa.Instruction) {
			iff, ok := in.(*ssa.If)
			if !ok {
				return
			}
			fields := map[*types.Var]bool{}
			c.condMapFields(iff.Cond, 0, map[ssa.Value]bool{}, fields)
			for fv := range fields {
				if fIns[fv] && gates[fv] == nil {
					gates[fv] = iff
				}
			}
		})
		var gfs []*types.Var
		for fv := range gates {
			gfs = append(gfs, fv)
		}
		sort.Slice(gfs, func(i, j int) bool { return mapFieldName(gfs[i]) < mapFieldName(gfs[j]) })
		if len(gfs) == 0 {
			c.ok("T6", fk+"→memo#none", f.Pos(), "whether a received head is looked at does not depend on membership in any map this function feeds: every announcement is checked on its own and handed to the replicator, which owns the only memory of earlier announcements")
			continue
		}
		// hash verification: comparisons with the hash computed by the encoder
		var hashIfs []*ssa.If
		eqEdge := map[*ssa.If]int{}
		var hv map[ssa.Value]bool
		eachCall(f, func(call ssa.CallInstruction) {
			if methodName(call) != "Write" || !call.Common().IsInvoke() || call.Value() == nil {
				return
			}
			t := typeStr(call.Common().Value.Type())
			if !strings.HasSuffix(t, "go-ipfs-log/iface.IO") && !strings.HasSuffix(t, "go-ipfs-log.IO") {
				return
			}
			d := derived([]ssa.Value{call.Value()}, flowOpts{throughCalls: true})
			if hv == nil {
				hv = d
			} else {
				for k := range d {
					hv[k] = true
				}
			}
		})
		eachInstr(f, func(in ssa.Instruction) {
			iff, ok := in.(*ssa.If)
			if !ok {
				return
			}
			cond := iff.Cond
			neg := false
			for {
				u, ok := cond.(*ssa.UnOp)
				if !ok || u.Op != token.NOT {
					break
				}
				cond, neg = u.X, !neg
			}
			var x, y ssa.Value
			op := token.ILLEGAL
			switch b := cond.(type) {
			case *ssa.BinOp:
				if b.Op == token.EQL || b.Op == token.NEQ {
					x, y, op = b.X, b.Y, b.Op
				}
			case *ssa.Call:
				// hash.Equals(other)
				if methodName(b) == "Equals" && len(argsOf(b)) >= 1 && recvOf(b) != nil {
					x, y, op = recvOf(b), argsOf(b)[0], token.EQL
				}
			}
			if op == token.ILLEGAL || isNilConst(x) || isNilConst(y) || isErrorType(x.Type()) {
				return
			}
			if hv == nil || (!hv[x] && !hv[y]) {
				return
			}
			if neg {
				op = negate(op)
			}
			hashIfs = append(hashIfs, iff)
			if op == token.EQL {
				eqEdge[iff] = 0
			} else {
				eqEdge[iff] = 1
			}
		})
		for _, fv := range gfs {
			if !c.isControlFn(f) {
				nGate++
			}
			name := mapFieldName(fv)
			base := fk + "→memo(" + name + ")"
			gate := gates[fv]
			// insert / release sites among f's own instructions
			var marks, unmarks []ssa.Instruction
			isUnmark := func(in ssa.Instruction) bool {
				_, _, del := c.instrMapOps(in)
				return del[fv]
			}
			eachInstr(f, func(in ssa.Instruction) {
				if _, isGo := in.(*ssa.Go); isGo {
					return
				}
				if _, isDefer := in.(*ssa.Defer); isDefer {
					return
				}
				_, ins, _ := c.instrMapOps(in)
				if ins[fv] {
					marks = append(marks, in)
				}
			})
			for _, g := range withClosures(f) {
				eachInstr(g, func(in ssa.Instruction) {
					if isUnmark(in) {
						unmarks = append(unmarks, in)
					}
				})
			}
			// (i) marks only where the claim was verified and accepted
			for i, m := range marks {
				cons := fmt.Sprintf("%s#verified-key#%d", base, i)
				verified := false
				for _, iff := range hashIfs {
					if branchCovers(iff.Block().Succs[eqEdge[iff]], m.Block()) {
						verified = true
					}
				}
				accepted := false
				for k := range c.entryFacts(m.Block(), 0) {
					if strings.HasPrefix(k, "acl(") {
						accepted = true
					}
				}
				switch {
				case !verified:
					c.bad("T6", cons, m.Pos(), "a head is recorded in "+name+", which decides whether later heads are looked at, on a path where its claimed hash was not found equal to the hash of its content: anyone can send a message that names the hash of a real head with other content, it is rejected, and the real head is then skipped for good")
				case !accepted:
					c.bad("T6", cons, m.Pos(), "a head is recorded in "+name+", which decides whether later heads are looked at, on a path where the access controller has not accepted it")
				default:
					c.ok("T6", cons, m.Pos(), "recorded only after the access controller accepted the head and its hash was recomputed and found equal")
				}
			}
			if len(marks) == 0 {
				c.undecided("T6", base+"#verified-key", gate.Pos(), "the map gating the heads is fed somewhere this rule cannot see from the function's own instructions")
			}
			// (ii) the memo can forget, or only remembers what was merged
			hasDelete := false
			var lateInserts []ssa.Instruction
			for _, g := range c.RepoFns {
				if c.isTestFile(g.Pos()) {
					continue
				}
				o := directMapOps(g)
				if len(o.deletes[fv]) > 0 {
					hasDelete = true
				}
				for _, in := range o.inserts[fv] {
					isJoin := func(x ssa.Instruction) bool {
						call, ok := x.(ssa.CallInstruction)
						return ok && c.isLogCall(call, "Join")
					}
					target := func(x ssa.Instruction) bool { return x == in }
					if hit, _ := findPath(g, entry, isJoin, target, nil); hit != nil {
						lateInserts = append(lateInserts, in)
					}
				}
			}
			cons := base + "#can-forget"
			switch {
			case hasDelete:
				c.ok("T6", cons, gate.Pos(), "elements are removed from the map somewhere: a head can become eligible again")
			case len(lateInserts) == 0:
				c.ok("T6", cons, gate.Pos(), "the map is only fed after the entry was joined into the log")
			default:
				c.bad("T6", cons, gate.Pos(), "heads recorded in "+name+" are skipped from then on and are never removed from it, while the replicator deliberately forgets a head whose fetch failed so that its next announcement starts the fetch again: after one failed fetch (peer unreachable, request cancelled) the head is never handed to the replicator again and the replica never receives those writes")
			}
			// (iii) pairing
			if len(unmarks) > 0 {
				via := func(in ssa.Instruction) bool {
					if isUnmark(in) {
						return true
					}
					return false
				}
				for i, m := range marks {
					cons := fmt.Sprintf("%s#released#%d", base, i)
					anyReturn := func(in ssa.Instruction) bool { _, ok := in.(*ssa.Return); return ok }
					// a slice appended to in the mark's own block is not empty afterwards: the
					// "nothing to do" exits guarded by its length are not paths from this mark
					var grown []*ssa.Call
					for _, x := range m.Block().Instrs {
						if call, ok := x.(*ssa.Call); ok {
							if bi, ok := call.Call.Value.(*ssa.Builtin); ok && bi.Name() == "append" {
								grown = append(grown, call)
							}
						}
					}
					cut := func(b *ssa.BasicBlock, si int) bool {
						iff, ok := b.Instrs[len(b.Instrs)-1].(*ssa.If)
						if !ok {
							return false
						}
						emptyEdge, lenArg := lenIsZeroTest(iff.Cond)
						if lenArg == nil || si != emptyEdge {
							return false
						}
						for _, g := range grown {
							if sameSliceVar(lenArg, g) {
								return true
							}
						}
						return false
					}
					if hit, tr := findPath(f, after(m), via, anyReturn, cut); hit != nil {
						c.bad("T6", cons, hit.Pos(), "a head marked in "+name+" stays marked on this path out of the function (no release, and not handed to the goroutine that releases): it is skipped by every later announcement although nothing is working on it", c.trailStr(tr)...)
					} else {
						c.ok("T6", cons, m.Pos(), "every path from the mark to a return passes a release or the hand-over to the goroutine that releases")
					}
				}
			}
		}
	}
	c.floor("T6", "functions checking received heads and loading them", n, 1)
	c.Counts["T6:membership gates"] = nGate
}

// lenIsZeroTest: cond is len(x) == 0 (or an equivalent form); returns the successor index
// taken when x is empty, and x.
func lenIsZeroTest(cond ssa.Value) (int, ssa.Value) {
	bo, ok := cond.(*ssa.BinOp)
	if !ok {
		return -1, nil
	}
	call, ok := bo.X.(*ssa.Call)
	if !ok {
		return -1, nil
	}
	bi, ok := call.Call.Value.(*ssa.Builtin)
	if !ok || bi.Name() != "len" {
		return -1, nil
	}
	z, ok := constInt(bo.Y)
	if !ok {
		return -1, nil
	}
	switch {
	case bo.Op == token.EQL && z == 0, bo.Op == token.LEQ && z == 0, bo.Op == token.LSS && z == 1:
		return 0, call.Call.Args[0]
	case bo.Op == token.NEQ && z == 0, bo.Op == token.GTR && z == 0, bo.Op == token.GEQ && z == 1:
		return 1, call.Call.Args[0]
	}
	return -1, nil
}

// sameSliceVar: the value whose length is tested is the variable this append grows — the
// same local cell, or a phi (chain) merging the append's result.
func sameSliceVar(lenArg ssa.Value, app *ssa.Call) bool {
	if u, ok := lenArg.(*ssa.UnOp); ok && u.Op == token.MUL {
		cell := u.X
		if refs := app.Referrers(); refs != nil {
			for _, r := range *refs {
				if st, ok := r.(*ssa.Store); ok && st.Val == ssa.Value(app) && st.Addr == cell {
					return true
				}
			}
		}
		return false
	}
	seen := map[ssa.Value]bool{}
	var walk func(v ssa.Value, d int) bool
	walk = func(v ssa.Value, d int) bool {
		if v == ssa.Value(app) {
			return true
		}
		if seen[v] || d > 4 {
			return false
		}
		seen[v] = true
		if phi, ok := v.(*ssa.Phi); ok {
			for _, e := range phi.Edges {
				if walk(e, d+1) {
					return true
				}
			}
		}
		return false
	}
	return walk(lenArg, 0)
}

// ---------------------------------------------------------------------------
// entry locksets

type lockMemo struct {
	ls    map[*ssa.Function]map[ssa.Instruction]lockset
	entry map[*ssa.Function]lockset
	busy  map[*ssa.Function]bool
}

func (c *Ctx) lm() *lockMemo {
	if c.lockMemo == nil {
		c.lockMemo = &lockMemo{map[*ssa.Function]map[ssa.Instruction]lockset{}, map[*ssa.Function]lockset{}, map[*ssa.Function]bool{}}
	}
	return c.lockMemo
}

func (c *Ctx) locksetsOf(f *ssa.Function) map[ssa.Instruction]lockset {
	m := c.lm()
	if r, ok := m.ls[f]; ok {
		return r
	}
	r := locksets(f)
	m.ls[f] = r
	return r
}

// entryLocks: lock classes held at every synchronous static call site of f (closed over the
// callers' own entry locks). Exported functions, functions without a static caller, and
// functions also started with go / defer or used as values have none.
func (c *Ctx) entryLocks(f *ssa.Function, depth int) lockset {
	m := c.lm()
	if r, ok := m.entry[f]; ok {
		return r
	}
	if depth > 3 || m.busy[f] {
		return lockset{}
	}
	if f.Parent() != nil {
		m.busy[f] = true
		r := c.closureEntryLocks(f, depth)
		delete(m.busy, f)
		m.entry[f] = r
		return r
	}
	if obj := f.Object(); obj != nil && obj.Exported() {
		m.entry[f] = lockset{}
		return m.entry[f]
	}
	m.busy[f] = true
	defer delete(m.busy, f)
	var res lockset
	unknown := false
	for _, g := range c.RepoFns {
		if c.isTestFile(g.Pos()) {
			continue
		}
		eachInstr(g, func(in ssa.Instruction) {
			// used as a value?
			for _, op := range in.Operands(nil) {
				if *op == ssa.Value(f) {
					if call, ok := in.(ssa.CallInstruction); !ok || call.Common().Value != ssa.Value(f) {
						unknown = true
					}
				}
			}
			call, ok := in.(ssa.CallInstruction)
			if !ok || call.Common().StaticCallee() != f {
				return
			}
			if _, isCall := in.(*ssa.Call); !isCall {
				unknown = true // go / defer
				return
			}
			here := lockset{}
			for k, v := range c.locksetsOf(g)[in] {
				here[k] = v
			}
			for k, v := range c.entryLocks(g, depth+1) {
				if _, ok := here[k]; !ok {
					here[k] = v
				}
			}
			if res == nil {
				res = here
			} else {
				res = meet(res, here)
			}
		})
	}
	if unknown || res == nil {
		res = lockset{}
	}
	m.entry[f] = res
	return res
}

// closureEntryLocks: the locks held whenever the function literal f runs: it is either called
// on the spot in its parent, or handed to a repo function that calls its parameter (a "run
// this under the lock" helper); literals started with go, deferred, stored or returned have
// none.
func (c *Ctx) closureEntryLocks(f *ssa.Function, depth int) lockset {
	p := f.Parent()
	var res lockset
	unknown := false
	add := func(ls lockset) {
		if res == nil {
			res = ls.clone()
		} else {
			res = meet(res, ls)
		}
	}
	at := func(g *ssa.Function, in ssa.Instruction) lockset {
		here := lockset{}
		for k, v := range c.locksetsOf(g)[in] {
			here[k] = v
		}
		for k, v := range c.entryLocks(g, depth+1) {
			if _, ok := here[k]; !ok {
				here[k] = v
			}
		}
		return here
	}
	eachInstr(p, func(in ssa.Instruction) {
		mc, ok := in.(*ssa.MakeClosure)
		if !ok || mc.Fn != ssa.Value(f) {
			return
		}
		refs := mc.Referrers()
		if refs == nil {
			return
		}
		for _, r := range *refs {
			call, isCall := r.(ssa.CallInstruction)
			if !isCall {
				if _, isDbg := r.(*ssa.DebugRef); !isDbg {
					unknown = true
				}
				continue
			}
			if _, plain := r.(*ssa.Call); !plain {
				unknown = true // go / defer
				continue
			}
			if call.Common().Value == ssa.Value(mc) {
				add(at(p, r))
				continue
			}
			// handed to a repo function as an argument
			w := call.Common().StaticCallee()
			if w == nil || w.Blocks == nil || w.Pkg == nil || !inRepo(w.Pkg.Pkg) {
				unknown = true
				continue
			}
			outer := at(p, r)
			for i, a := range call.Common().Args {
				if a != ssa.Value(mc) || i >= len(w.Params) {
					continue
				}
				param := w.Params[i]
				prefs := param.Referrers()
				if prefs == nil {
					unknown = true
					continue
				}
				called := false
				for _, pr := range *prefs {
					pc, ok := pr.(ssa.CallInstruction)
					if !ok || pc.Common().Value != ssa.Value(param) {
						if _, isDbg := pr.(*ssa.DebugRef); !isDbg {
							unknown = true
						}
						continue
					}
					if _, plain := pr.(*ssa.Call); !plain {
						unknown = true
						continue
					}
					called = true
					inner := lockset{}
					for k, v := range c.locksetsOf(w)[pr] {
						inner[k] = v
					}
					for k, v := range outer {
						if _, ok := inner[k]; !ok {
							inner[k] = v
						}
					}
					add(inner)
				}
				if !called {
					unknown = true
				}
			}
		}
	})
	if unknown || res == nil {
		return lockset{}
	}
	return res
}

// ---------------------------------------------------------------------------
// L3

func isFreshEmpty(v ssa.Value) bool {
	switch x := v.(type) {
	case *ssa.Const:
		return x.IsNil()
	case *ssa.MakeMap:
		return true
	case *ssa.MakeSlice:
		z, ok := constInt(x.Len)
		return ok && z == 0
	case *ssa.Slice:
		if a, ok := x.X.(*ssa.Alloc); ok {
			if p, ok := a.Type().Underlying().(*types.Pointer); ok {
				if arr, ok := p.Elem().Underlying().(*types.Array); ok && arr.Len() == 0 {
					return true
				}
			}
		}
	}
	return false
}

// handedOn: the loaded container is used for more than its length or a comparison.
func handedOn(ld ssa.Value) bool {
	refs := ld.Referrers()
	if refs == nil {
		return false
	}
	for _, r := range *refs {
		switch x := r.(type) {
		case *ssa.BinOp:
			continue
		case *ssa.DebugRef:
			continue
		case *ssa.Call:
			if b, ok := x.Call.Value.(*ssa.Builtin); ok && (b.Name() == "len" || b.Name() == "cap") {
				continue
			}
			return true
		case *ssa.Range, *ssa.Lookup, *ssa.Index, *ssa.IndexAddr:
			continue // iterated in place
		default:
			return true
		}
	}
	return false
}

func (c *Ctx) ruleL3() {
	n := 0
	for _, f := range c.RepoFns {
		if c.isTestFile(f.Pos()) {
			continue
		}
		k := 0
		eachInstr(f, func(in ssa.Instruction) {
			st, ok := in.(*ssa.Store)
			if !ok || !isFreshEmpty(st.Val) {
				return
			}
			fa, ok := st.Addr.(*ssa.FieldAddr)
			if !ok {
				return
			}
			fv := fieldVarOf(fa)
			if fv == nil {
				return
			}
			switch fv.Type().Underlying().(type) {
			case *types.Slice, *types.Map:
			default:
				return
			}
			// reads of the same field that are handed on and can reach the reset
			var drains []*ssa.UnOp
			eachInstr(f, func(x ssa.Instruction) {
				u, ok := x.(*ssa.UnOp)
				if !ok || u.Op != token.MUL {
					return
				}
				fa2, ok := u.X.(*ssa.FieldAddr)
				if !ok || fieldVarOf(fa2) != fv || nf(fa2.X) != nf(fa.X) {
					return
				}
				if !handedOn(u) {
					return
				}
				target := func(y ssa.Instruction) bool { return y == ssa.Instruction(st) }
				if hit, _ := findPath(f, after(u), nil, target, nil); hit != nil {
					drains = append(drains, u)
				}
			})
			if len(drains) == 0 {
				return
			}
			ls := c.locksetsOf(f)
			el := c.entryLocks(f, 0)
			for _, ld := range drains {
				held := lockset{}
				for kk, v := range el {
					held[kk] = v
				}
				for kk, v := range ls[ld] {
					held[kk] = v
				}
				cons := fmt.Sprintf("%s→drain(%s)#%d", fnKey(f), fv.Name(), k)
				k++
				if len(held) == 0 {
					continue // not a lock-protected field as far as this function shows
				}
				if !c.isControlFn(f) {
					n++
				}
				var cont []string
				for class := range held {
					released := false
					eachInstr(f, func(x ssa.Instruction) {
						if released {
							return
						}
						if _, isDefer := x.(*ssa.Defer); isDefer {
							return
						}
						op := lockOpOf(x)
						if op == nil || op.class != class || (op.kind != "Unlock" && op.kind != "RUnlock") {
							return
						}
						isU := func(y ssa.Instruction) bool { return y == x }
						isS := func(y ssa.Instruction) bool { return y == ssa.Instruction(st) }
						if h1, _ := findPath(f, after(ld), nil, isU, nil); h1 == nil {
							return
						}
						if h2, _ := findPath(f, after(x), nil, isS, nil); h2 != nil {
							released = true
						}
					})
					if !released {
						cont = append(cont, class)
					}
				}
				sort.Strings(cont)
				if len(cont) > 0 {
					c.ok("L3", cons, st.Pos(), fmt.Sprintf("the value read out and the reset of %s are in one critical section of %s", fv.Name(), strings.Join(cont, ", ")))
				} else {
					c.bad("L3", cons, st.Pos(), fmt.Sprintf("%s is read out and handed on, the lock it was read under (%s) is released, and the field is then reset to an empty value: whatever was added to it in between is thrown away without ever having been handed on (fetched logs dropped this way stay marked as fetched, so they are never requested again)", fv.Name(), held.String()), c.pos(ld.Pos()))
				}
			}
		})
	}
	c.floor("L3", "read-out-then-reset sites under a lock", n, 1)
}

// ---------------------------------------------------------------------------
// E6

// chanMakes: the make(chan) sites a channel value may come from (through captured variables,
// local cells and struct fields assigned once in the repo); unknown is set when some origin
// cannot be resolved.
func (c *Ctx) chanMakes(v ssa.Value, depth int, seen map[ssa.Value]bool, out *[]*ssa.MakeChan, unknown *bool) {
	if v == nil || seen[v] {
		return
	}
	if depth > 8 {
		*unknown = true
		return
	}
	seen[v] = true
	switch x := v.(type) {
	case *ssa.MakeChan:
		*out = append(*out, x)
	case *ssa.ChangeType:
		c.chanMakes(x.X, depth+1, seen, out, unknown)
	case *ssa.Phi:
		for _, e := range x.Edges {
			c.chanMakes(e, depth+1, seen, out, unknown)
		}
	case *ssa.UnOp:
		if x.Op != token.MUL {
			*unknown = true
			return
		}
		switch a := x.X.(type) {
		case *ssa.Alloc:
			for _, r := range *a.Referrers() {
				if st, ok := r.(*ssa.Store); ok && st.Addr == ssa.Value(a) {
					c.chanMakes(st.Val, depth+1, seen, out, unknown)
				}
			}
		case *ssa.FreeVar:
			c.chanMakes(a, depth+1, seen, out, unknown)
		case *ssa.FieldAddr:
			fv := fieldVarOf(a)
			found := false
			for _, g := range c.RepoFns {
				eachInstr(g, func(in ssa.Instruction) {
					st, ok := in.(*ssa.Store)
					if !ok {
						return
					}
					if fa, ok := st.Addr.(*ssa.FieldAddr); ok && fieldVarOf(fa) == fv {
						found = true
						c.chanMakes(st.Val, depth+1, seen, out, unknown)
					}
				})
			}
			if !found {
				*unknown = true
			}
		default:
			*unknown = true
		}
	case *ssa.FreeVar:
		fn := x.Parent()
		p := fn.Parent()
		found := false
		if p != nil {
			eachInstr(p, func(in ssa.Instruction) {
				if mc, ok := in.(*ssa.MakeClosure); ok && mc.Fn == ssa.Value(fn) {
					for i, fv := range fn.FreeVars {
						if fv == x && i < len(mc.Bindings) {
							found = true
							b := mc.Bindings[i]
							if a, ok := b.(*ssa.Alloc); ok {
								// the cell itself: x is its address
								for _, r := range *a.Referrers() {
									if st, ok := r.(*ssa.Store); ok && st.Addr == ssa.Value(a) {
										c.chanMakes(st.Val, depth+1, seen, out, unknown)
									}
								}
							} else {
								c.chanMakes(b, depth+1, seen, out, unknown)
							}
						}
					}
				}
			})
		}
		if !found {
			*unknown = true
		}
	case *ssa.Alloc:
		for _, r := range *x.Referrers() {
			if st, ok := r.(*ssa.Store); ok && st.Addr == ssa.Value(x) {
				c.chanMakes(st.Val, depth+1, seen, out, unknown)
			}
		}
	default:
		*unknown = true
	}
}

func (c *Ctx) ruleE6() {
	n := 0
	for _, f := range c.RepoFns {
		if c.isTestFile(f.Pos()) {
			continue
		}
		k := 0
		eachInstr(f, func(in ssa.Instruction) {
			sel, ok := in.(*ssa.Select)
			if !ok || sel.Blocking {
				return
			}
			for _, s := range sel.States {
				if s.Dir != types.SendOnly {
					continue
				}
				cons := fmt.Sprintf("%s→try-send#%d", fnKey(f), k)
				k++
				if !c.isControlFn(f) {
					n++
				}
				var makes []*ssa.MakeChan
				unknown := false
				c.chanMakes(s.Chan, 0, map[ssa.Value]bool{}, &makes, &unknown)
				allZero := len(makes) > 0
				for _, mk := range makes {
					if z, ok := constInt(mk.Size); !ok || z != 0 {
						allZero = false
					}
				}
				switch {
				case allZero && !unknown:
					c.bad("E6", cons, sel.Pos(), "a send that gives up when nobody is receiving (select with default) goes to a channel that is always made without capacity: the signal only arrives if the receiver is already parked in its receive; sent a moment earlier — after the receiver looked at the shared state, before it parks — it is dropped and the receiver sleeps on work that is there (a lost wake-up: the event stays queued until another one happens to follow)", c.pos(makes[0].Pos()))
				case len(makes) == 0:
					c.ok("E6", cons, sel.Pos(), "try-send on a channel whose construction is outside the repo's view (not armed)")
				default:
					c.ok("E6", cons, sel.Pos(), "the channel of this try-send has capacity: a signal sent while the receiver is busy is kept for it")
				}
			}
		})
	}
	c.Counts["E6:try-sends"] = n
}

// ---------------------------------------------------------------------------
// X5

func (c *Ctx) ruleX5() {
	n := 0
	isEntriesRead := func(call ssa.CallInstruction) bool {
		return c.isLogCall(call, "GetEntries") || c.isLogCall(call, "Values")
	}
	// an entries read matters when what it returns goes on to be serialised: into an encoder or
	// a repo function, directly or element by element (a read that is only counted or logged
	// promises nothing)
	feedsBody := func(call ssa.CallInstruction) bool {
		if call.Value() == nil {
			return false
		}
		d := derived([]ssa.Value{call.Value()}, flowOpts{throughCalls: true})
		feeds := false
		eachCall(call.Parent(), func(u ssa.CallInstruction) {
			if feeds || u == call {
				return
			}
			full := calleeFull(u)
			cal := u.Common().StaticCallee()
			isSink := strings.HasPrefix(full, "encoding/json.") || (cal != nil && cal.Pkg != nil && inRepo(cal.Pkg.Pkg))
			if !isSink {
				return
			}
			for _, a := range u.Common().Args {
				if d[a] {
					feeds = true
				}
			}
		})
		return feeds
	}
	for _, g := range c.fnsInPkg("stores/basestore") {
		if c.isTestFile(g.Pos()) {
			continue
		}
		// header reads: Len()/Heads() of a log whose value ends up in a struct field that is
		// then serialised (a store into a field of a struct literal)
		var hdrReads []ssa.CallInstruction
		// a read of the log's size or heads: the call itself, or a same-package helper that makes
		// it and hands the result back
		readsHeader := func(call ssa.CallInstruction) bool {
			if c.isLogCall(call, "Len") || c.isLogCall(call, "Heads") {
				return true
			}
			h := call.Common().StaticCallee()
			if h == nil || h.Blocks == nil || h.Pkg != g.Pkg || h == g {
				return false
			}
			var inner []ssa.Value
			eachCall(h, func(ic ssa.CallInstruction) {
				if (c.isLogCall(ic, "Len") || c.isLogCall(ic, "Heads")) && ic.Value() != nil {
					inner = append(inner, ic.Value())
				}
			})
			if len(inner) == 0 {
				return false
			}
			dh := derived(inner, flowOpts{throughCalls: true})
			returned := false
			eachInstr(h, func(in ssa.Instruction) {
				if r, ok := in.(*ssa.Return); ok {
					for _, v := range r.Results {
						if dh[v] {
							returned = true
						}
						for _, y := range resolveSpill(v) {
							if dh[y] {
								returned = true
							}
						}
					}
				}
			})
			return returned
		}
		eachCall(g, func(call ssa.CallInstruction) {
			if call.Value() == nil || !readsHeader(call) {
				return
			}
			d := derived([]ssa.Value{call.Value()}, flowOpts{throughCalls: true})
			stored := false
			eachInstr(g, func(in ssa.Instruction) {
				st, ok := in.(*ssa.Store)
				if !ok || !d[st.Val] {
					return
				}
				if fa, ok := st.Addr.(*ssa.FieldAddr); ok {
					if _, isAlloc := fa.X.(*ssa.Alloc); isAlloc {
						stored = true
					}
				}
			})
			if stored {
				hdrReads = append(hdrReads, call)
			}
		})
		if len(hdrReads) == 0 {
			continue
		}
		// only header builders: the literal is handed to a JSON encoder
		marshals := false
		eachCall(g, func(call ssa.CallInstruction) {
			if calleeFull(call) == "encoding/json.Marshal" {
				marshals = true
			}
		})
		if !marshals {
			continue
		}
		for _, hr := range hdrReads {
			hr := hr
			kind := newKind("hdr-read", func(call ssa.CallInstruction) bool { return call == hr })
			// the function where header read and entries read meet: g itself, or its callers
			var check func(h *ssa.Function, depth int)
			seenFn := map[*ssa.Function]bool{}
			check = func(h *ssa.Function, depth int) {
				if h == nil || seenFn[h] || depth > 3 {
					return
				}
				seenFn[h] = true
				mayRead := func(in ssa.Instruction) bool {
					call, ok := in.(ssa.CallInstruction)
					if !ok {
						return false
					}
					if _, isGo := in.(*ssa.Go); isGo {
						return false
					}
					if isEntriesRead(call) {
						return feedsBody(call)
					}
					if cal := call.Common().StaticCallee(); cal != nil && cal.Pkg != nil && inRepo(cal.Pkg.Pkg) && cal != g {
						return c.reachesCall(cal, isEntriesRead, 0, map[*ssa.Function]bool{})
					}
					return false
				}
				has := false
				eachInstr(h, func(in ssa.Instruction) {
					if mayRead(in) {
						has = true
					}
				})
				if has {
					if !c.isControlFn(h) {
						n++
					}
					hn := methodName(hr)
					if !c.isLogCall(hr, "Len") && !c.isLogCall(hr, "Heads") {
						hn = "Heads"
					}
					cons := fmt.Sprintf("%s→%s()-before-entries", fnKey(h), hn)
					via := func(in ssa.Instruction) bool { return c.isSite(kind, in) }
					if hit, tr := findPath(h, entry, via, mayRead, nil); hit != nil {
						c.bad("X5", cons, hit.Pos(), "the entries written to the snapshot are read from the log before the "+methodName(hr)+"() that goes into its header: the log only grows, so an entry appended or merged between the two reads is promised by the header and missing from the body — the save reports success and the snapshot cannot be loaded (unexpected end of data)", c.trailStr(tr)...)
					} else {
						c.ok("X5", cons, hr.Pos(), "the header's "+methodName(hr)+"() is read before the entries: whatever is added in between is only surplus in the body, which the loader ignores")
					}
					return
				}
				for _, q := range c.RepoFns {
					if c.isTestFile(q.Pos()) {
						continue
					}
					callsH := false
					eachCall(q, func(call ssa.CallInstruction) {
						if call.Common().StaticCallee() == h {
							callsH = true
						}
					})
					if callsH {
						check(q, depth+1)
					}
				}
			}
			check(g, 0)
		}
	}
	c.floor("X5", "header reads ordered against the entries read", n, 2)
}

// ---------------------------------------------------------------------------
// X6

func (c *Ctx) ruleX6() {
	// DF10: the UnixFS file's Read is a full read
	df10 := c.deriveDF10()
	c.DepFacts["DF10"] = df10
	n := 0
	for _, f := range c.fnsInPkg("stores/basestore") {
		if c.isTestFile(f.Pos()) {
			continue
		}
		k := 0
		eachCall(f, func(call ssa.CallInstruction) {
			if full := calleeFull(call); full == "io.ReadFull" || full == "io.ReadAtLeast" {
				if !c.isControlFn(f) {
					n++
				}
				c.ok("X6", fmt.Sprintf("%s→%s#%d", fnKey(f), strings.TrimPrefix(full, "io."), k), call.Pos(), "the buffer is filled by "+full)
				k++
				return
			}
			if methodName(call) != "Read" || len(argsOf(call)) != 1 {
				return
			}
			if sl, ok := argsOf(call)[0].Type().Underlying().(*types.Slice); !ok || typeStr(sl.Elem()) != "byte" {
				return
			}
			r := recvOf(call)
			if r == nil {
				return
			}
			if !c.isControlFn(f) {
				n++
			}
			cons := fmt.Sprintf("%s→Read#full#%d", fnKey(f), k)
			k++
			var bad []string
			c.readerOrigins(r, 0, map[ssa.Value]bool{}, &bad)
			switch {
			case len(bad) > 0:
				c.bad("X6", cons, call.Pos(), "a length-prefixed piece of the snapshot is read with a single Read on a reader that may return fewer bytes than asked ("+strings.Join(bad, "; ")+"): the piece that straddles a refill is cut short, the rest of the buffer stays zero and every later prefix is read from the wrong offset — a snapshot that was written correctly cannot be loaded once it is larger than the reader's buffer. Only the UnixFS file's own Read fills the buffer (DF10); through anything else io.ReadFull is needed")
			case !strings.HasPrefix(df10, "true"):
				c.bad("X6", cons, call.Pos(), "a length-prefixed piece of the snapshot is read with a single Read and the dependency fact that makes this a full read does not hold: "+df10)
			default:
				c.ok("X6", cons, call.Pos(), "Read is called on the UnixFS file obtained from IPFS, whose Read fills the buffer (DF10)")
			}
		})
	}
	c.floor("X6", "buffer fills of the snapshot loader", n, 2)
}

// deriveDF10 reads the pinned boxo module's UnixFS DAG reader (the file type every CoreAPI
// implementation built on boxo returns from Unixfs().Get) from the module cache: its Read
// must delegate to CtxReadFull. The implementation package is not part of the repo's own
// (non-test) program, so this is a syntax-level look at the dependency's source.
func (c *Ctx) deriveDF10() string {
	const anchor = "github.com/ipfs/boxo/"
	root := ""
	for path, p := range c.All {
		if !strings.HasPrefix(path, anchor) || len(p.GoFiles) == 0 {
			continue
		}
		dir := filepath.Dir(p.GoFiles[0])
		rel := strings.TrimPrefix(path, anchor)
		if strings.HasSuffix(dir, rel) {
			root = strings.TrimSuffix(dir, rel)
			break
		}
	}
	if root == "" {
		return "unknown: the boxo module is not among the loaded packages"
	}
	file := filepath.Join(root, "ipld", "unixfs", "io", "dagreader.go")
	af, err := parser.ParseFile(token.NewFileSet(), file, nil, 0)
	if err != nil {
		return "unknown: cannot parse " + file
	}
	for _, d := range af.Decls {
		fd, ok := d.(*ast.FuncDecl)
		if !ok || fd.Name.Name != "Read" || fd.Recv == nil || len(fd.Recv.List) != 1 || fd.Body == nil {
			continue
		}
		if st, ok := fd.Recv.List[0].Type.(*ast.StarExpr); !ok || fmt.Sprint(st.X) != "dagReader" {
			continue
		}
		if len(fd.Body.List) == 1 {
			if rs, ok := fd.Body.List[0].(*ast.ReturnStmt); ok && len(rs.Results) == 1 {
				if ce, ok := rs.Results[0].(*ast.CallExpr); ok {
					if se, ok := ce.Fun.(*ast.SelectorExpr); ok && se.Sel.Name == "CtxReadFull" {
						return "true: (*boxo/ipld/unixfs/io.dagReader).Read is `return dr.CtxReadFull(dr.ctx, b)` — it fills the buffer unless the file ends"
					}
				}
			}
		}
		return "false: (*boxo/ipld/unixfs/io.dagReader).Read is not a plain delegation to CtxReadFull"
	}
	return "unknown: (*dagReader).Read not found in " + file
}

// readerOrigins follows a reader value back to where it comes from; anything other than the
// node returned by UnixfsAPI.Get (possibly narrowed by a type assertion) is reported.
func (c *Ctx) readerOrigins(v ssa.Value, depth int, seen map[ssa.Value]bool, bad *[]string) {
	if v == nil || seen[v] {
		return
	}
	if depth > 8 {
		*bad = append(*bad, "origin too deep to follow")
		return
	}
	seen[v] = true
	switch x := v.(type) {
	case *ssa.TypeAssert:
		c.readerOrigins(x.X, depth+1, seen, bad)
	case *ssa.Extract:
		c.readerOrigins(x.Tuple, depth+1, seen, bad)
	case *ssa.ChangeInterface:
		c.readerOrigins(x.X, depth+1, seen, bad)
	case *ssa.MakeInterface:
		c.readerOrigins(x.X, depth+1, seen, bad)
	case *ssa.Phi:
		for _, e := range x.Edges {
			c.readerOrigins(e, depth+1, seen, bad)
		}
	case *ssa.UnOp:
		if a, ok := x.X.(*ssa.Alloc); ok && x.Op == token.MUL {
			for _, r := range *a.Referrers() {
				if st, ok := r.(*ssa.Store); ok && st.Addr == ssa.Value(a) {
					c.readerOrigins(st.Val, depth+1, seen, bad)
				}
			}
			return
		}
		*bad = append(*bad, "read from "+nf(x))
	case *ssa.Call:
		if methodName(x) == "Get" && x.Call.IsInvoke() && strings.HasSuffix(typeStr(x.Call.Value.Type()), "UnixfsAPI") {
			return
		}
		// a repo helper that opens the file and hands it back
		if h := x.Call.StaticCallee(); h != nil && h.Blocks != nil && h.Pkg != nil && inRepo(h.Pkg.Pkg) {
			eachInstr(h, func(in ssa.Instruction) {
				r, ok := in.(*ssa.Return)
				if !ok || isFailureReturn(r) {
					return
				}
				for _, rv := range r.Results {
					if isErrorType(rv.Type()) {
						continue
					}
					if _, isIface := rv.Type().Underlying().(*types.Interface); !isIface {
						continue
					}
					for _, y := range resolveSpill(rv) {
						if !isNilConst(y) {
							c.readerOrigins(y, depth+1, seen, bad)
						}
					}
				}
			})
			return
		}
		*bad = append(*bad, "the reader is the result of "+calleeFull(x))
	case *ssa.Parameter:
		f := x.Parent()
		idx := -1
		for i, p := range f.Params {
			if p == x {
				idx = i
			}
		}
		found := false
		for _, g := range c.RepoFns {
			if c.isTestFile(g.Pos()) {
				continue
			}
			eachCall(g, func(call ssa.CallInstruction) {
				if call.Common().StaticCallee() != f || idx < 0 || idx >= len(call.Common().Args) {
					return
				}
				found = true
				c.readerOrigins(call.Common().Args[idx], depth+1, seen, bad)
			})
		}
		if !found {
			*bad = append(*bad, "the reader is a parameter of "+fnKey(f)+" with no visible caller")
		}
	default:
		*bad = append(*bad, fmt.Sprintf("the reader is %s", nf(v)))
	}
}

// ---------------------------------------------------------------------------
// I8

// fromOpKey: the value is (computed from) a key as written by an operation: a GetKey()
// result, or a string parameter of a small helper method that is handed one.
func fromOpKey(v ssa.Value, depth int) bool {
	if v == nil || depth > 5 {
		return false
	}
	switch x := v.(type) {
	case *ssa.Call:
		if methodName(x) == "GetKey" {
			return true
		}
		for _, a := range x.Call.Args {
			if fromOpKey(a, depth+1) {
				return true
			}
		}
		if x.Call.IsInvoke() {
			return fromOpKey(x.Call.Value, depth+1)
		}
	case *ssa.Parameter:
		if b, ok := x.Type().Underlying().(*types.Basic); ok && b.Info()&types.IsString != 0 {
			return true
		}
	case *ssa.UnOp:
		if a, ok := x.X.(*ssa.Alloc); ok {
			return fromOpKey(uniqueStore(a), depth+1)
		}
		return fromOpKey(x.X, depth+1)
	case *ssa.BinOp:
		return fromOpKey(x.X, depth+1) || fromOpKey(x.Y, depth+1)
	case *ssa.Slice:
		return fromOpKey(x.X, depth+1)
	case *ssa.Convert:
		return fromOpKey(x.X, depth+1)
	case *ssa.Phi:
		for _, e := range x.Edges {
			if fromOpKey(e, depth+1) {
				return true
			}
		}
	}
	return false
}

// keyIsProjection: the map key is computed from an operation's key (a call other than the
// GetKey accessor, a concatenation, a substring) rather than being the key as written.
func keyIsProjection(k ssa.Value, depth int) (bool, string) {
	if depth > 4 {
		return false, ""
	}
	switch x := k.(type) {
	case *ssa.Call:
		if methodName(x) == "GetKey" {
			return false, ""
		}
		if _, isB := x.Call.Value.(*ssa.Builtin); isB {
			return false, ""
		}
		if fromOpKey(x, 0) {
			return true, calleeFull(x)
		}
	case *ssa.BinOp:
		if x.Op == token.ADD && fromOpKey(x, 0) {
			return true, "a concatenation"
		}
	case *ssa.Slice:
		if fromOpKey(x, 0) {
			return true, "a substring"
		}
	case *ssa.UnOp:
		if x.Op == token.MUL {
			if a, ok := x.X.(*ssa.Alloc); ok {
				if v := uniqueStore(a); v != nil {
					return keyIsProjection(v, depth+1)
				}
				return false, ""
			}
			return keyIsProjection(x.X, depth+1)
		}
	case *ssa.Phi:
		for _, e := range x.Edges {
			if p, w := keyIsProjection(e, depth+1); p {
				return p, w
			}
		}
	}
	return false, ""
}

// ruleI8: a view map of an index holds one value per key as written by the operations. A
// map of the index that is written with a key computed from the operation's key (lower-cased,
// trimmed, prefixed…) and holds a single value per computed key cannot represent per-key
// last-writer-wins state: two keys with the same projection overwrite each other, and a
// query served from it disagrees with the log replay.
func (c *Ctx) ruleI8() {
	n := 0
	for _, nt := range c.indexImpls() {
		for _, f := range c.methodsOf(nt) {
			k := 0
			eachInstr(f, func(in ssa.Instruction) {
				mu, ok := in.(*ssa.MapUpdate)
				if !ok || !isRecvMap(topLevel(f), mu.Map) && !isRecvMap(f, mu.Map) {
					return
				}
				if !c.isControlFn(f) {
					n++
				}
				cons := fmt.Sprintf("%s→view-write#key#%d", fnKey(f), k)
				k++
				proj, what := keyIsProjection(mu.Key, 0)
				multi := false
				switch mu.Value.Type().Underlying().(type) {
				case *types.Slice, *types.Map:
					// a collection per computed key can hold every key that maps to it
					if _, isByte := mu.Value.Type().Underlying().(*types.Slice); isByte {
						if b, ok := mu.Value.Type().Underlying().(*types.Slice).Elem().Underlying().(*types.Basic); ok && b.Kind() == types.Uint8 {
							break
						}
					}
					multi = true
				}
				switch {
				case proj && !multi:
					c.bad("I8", cons, mu.Pos(), "a map of the index is written under a key computed from the operation's key ("+what+") and holds one value per computed key: two keys with the same projection (Report-7 / report-7) overwrite each other, so a query answered from this map returns one document where the replay of the log has two")
				default:
					c.ok("I8", cons, mu.Pos(), "the view is keyed by the key as written by the operation (or holds a collection per computed key)")
				}
			})
		}
	}
	c.floor("I8", "view map writes in index types", n, 3)
}

// ---------------------------------------------------------------------------
// I9

// ruleI9: JSON decoding targets are fresh. Operations, snapshot headers and heads messages
// are all encoded with omitempty, and json.Unmarshal leaves a field that is absent from
// the input as it was: decoding into a value that lives longer than one decode (a field of
// the receiver, a variable declared outside the loop that decodes) carries the previous
// input's fields into the next result — a Put of an empty value shows its neighbour's bytes.
func (c *Ctx) ruleI9() {
	n := 0
	for _, f := range c.RepoFns {
		if c.isTestFile(f.Pos()) {
			continue
		}
		k := 0
		eachCall(f, func(call ssa.CallInstruction) {
			full := calleeFull(call)
			if full != "encoding/json.Unmarshal" && full != "(*encoding/json.Decoder).Decode" {
				return
			}
			a := call.Common().Args
			tgt := a[len(a)-1]
			if !c.isControlFn(f) {
				n++
			}
			cons := fmt.Sprintf("%s→decode-target#%d", fnKey(f), k)
			k++
			why := staleTarget(strip(tgt), call, 0)
			if why == "" {
				c.ok("I9", cons, call.Pos(), "the value decoded into is allocated for this decode")
			} else {
				c.bad("I9", cons, call.Pos(), "json decoding into "+why+": fields absent from the input (everything encoded with omitempty: an empty value, a nil key, no documents) keep what the previous decode left there, so one entry's operation shows another entry's value")
			}
		})
	}
	c.floor("I9", "JSON decode sites", n, 6)
}

// staleTarget explains why the decode target outlives one decode ("" when it is fresh).
func staleTarget(t ssa.Value, at ssa.CallInstruction, depth int) string {
	if t == nil || depth > 5 {
		return ""
	}
	switch x := t.(type) {
	case *ssa.MakeInterface:
		return staleTarget(x.X, at, depth+1)
	case *ssa.ChangeType:
		return staleTarget(x.X, at, depth+1)
	case *ssa.FieldAddr:
		// re-initialised before the decode: a store to the same field dominates the call
		reinit := false
		eachInstr(at.Parent(), func(in ssa.Instruction) {
			st, ok := in.(*ssa.Store)
			if !ok || reinit {
				return
			}
			fa, ok := st.Addr.(*ssa.FieldAddr)
			if !ok || nf(fa) != nf(x) {
				return
			}
			if st.Block() == at.Block() {
				reinit = instrIndex(st) < instrIndex(at)
			} else {
				reinit = st.Block().Dominates(at.Block())
			}
		})
		if reinit {
			return ""
		}
		// a field of something: of a fresh local struct is fine, of anything else is not
		if why := staleTarget(x.X, at, depth+1); why != "" {
			return why
		}
		switch b := x.X.(type) {
		case *ssa.Parameter:
			return "a field of " + b.Name() + " (" + fieldName(x.X.Type(), x.Field) + "), which lives across calls"
		case *ssa.UnOp:
			if _, ok := b.X.(*ssa.FieldAddr); ok {
				return "a field reached through " + nf(b)
			}
		}
		return ""
	case *ssa.Parameter:
		if _, ok := x.Type().Underlying().(*types.Pointer); ok {
			return "" // the caller's target: judged at the caller
		}
		return ""
	case *ssa.FreeVar:
		return "a variable captured from the enclosing function (" + x.Name() + ")"
	case *ssa.Global:
		return "a package-level variable"
	case *ssa.Alloc:
		// declared outside the loop that decodes, and not re-initialised inside it
		hd := loopHeader(at.Block())
		if hd == nil {
			return ""
		}
		if sameLoop(hd, x.Block()) {
			return ""
		}
		reinit := false
		for _, r := range *x.Referrers() {
			if st, ok := r.(*ssa.Store); ok && st.Addr == ssa.Value(x) && sameLoop(hd, st.Block()) {
				reinit = true
			}
		}
		if reinit {
			return ""
		}
		return "a variable declared outside the loop that decodes (" + x.Comment + ")"
	case *ssa.UnOp:
		if x.Op == token.MUL {
			// a pointer variable: where does the pointer come from
			if a, ok := x.X.(*ssa.Alloc); ok {
				for _, r := range *a.Referrers() {
					if st, ok := r.(*ssa.Store); ok && st.Addr == ssa.Value(a) {
						if why := staleTarget(st.Val, at, depth+1); why != "" {
							return why
						}
					}
				}
				return ""
			}
			if fa, ok := x.X.(*ssa.FieldAddr); ok {
				return "the pointer kept in field " + fieldName(fa.X.Type(), fa.Field)
			}
		}
	case *ssa.Phi:
		for _, e := range x.Edges {
			if why := staleTarget(e, at, depth+1); why != "" {
				return why
			}
		}
	}
	return ""
}

// ---------------------------------------------------------------------------
// M6

// ruleM6: the root of a computed address is the manifest's hash. Where the address is built by
// joining the manifest hash with text the caller supplies (the name) and parsing the result,
// path.Join cleans the path: a name with parent-directory segments replaces the hash with
// whatever follows ("../<cid>/x"). Every successful return of such an address must therefore
// be dominated by the outcome "parsed root equals the manifest hash".
func (c *Ctx) ruleM6() {
	n := 0
	for _, f := range c.fnsInPkg("baseorbitdb") {
		if f.Parent() != nil || c.isTestFile(f.Pos()) {
			continue
		}
		var hv map[ssa.Value]bool
		eachCall(f, func(call ssa.CallInstruction) {
			if calleeFull(call) == repoMod+"/utils.CreateDBManifest" && call.Value() != nil {
				hv = derived([]ssa.Value{call.Value()}, flowOpts{throughCalls: true})
			}
		})
		if hv == nil {
			continue
		}
		var ps []ssa.Value
		for _, p := range f.Params {
			if b, ok := p.Type().Underlying().(*types.Basic); ok && b.Info()&types.IsString != 0 {
				ps = append(ps, p)
			}
		}
		dp := derived(ps, flowOpts{})
		var joins []ssa.Value
		eachCall(f, func(call ssa.CallInstruction) {
			if calleeFull(call) != "path.Join" && calleeFull(call) != "path/filepath.Join" || call.Value() == nil {
				return
			}
			hasHash, hasText := false, false
			for _, a := range call.Common().Args {
				for _, e := range variadicElems(a) {
					if hv[e] {
						hasHash = true
					}
					if dp[e] {
						hasText = true
					}
				}
			}
			if hasHash && hasText {
				joins = append(joins, call.Value())
			}
		})
		fk := fnKey(f)
		if len(joins) == 0 {
			continue
		}
		if !c.isControlFn(f) {
			n++
		}
		dj := derived(joins, flowOpts{throughCalls: true})
		// guards: root-of-parsed == manifest hash
		type guard struct {
			iff  *ssa.If
			edge int
		}
		var guards []guard
		eachInstr(f, func(in ssa.Instruction) {
			iff, ok := in.(*ssa.If)
			if !ok {
				return
			}
			cond := iff.Cond
			neg := false
			for {
				u, ok := cond.(*ssa.UnOp)
				if !ok || u.Op != token.NOT {
					break
				}
				cond, neg = u.X, !neg
			}
			var x, y ssa.Value
			eq := true
			switch b := cond.(type) {
			case *ssa.Call:
				if methodName(b) != "Equals" || recvOf(b) == nil || len(argsOf(b)) != 1 {
					return
				}
				x, y = recvOf(b), argsOf(b)[0]
			case *ssa.BinOp:
				if b.Op != token.EQL && b.Op != token.NEQ {
					return
				}
				x, y, eq = b.X, b.Y, b.Op == token.EQL
			default:
				return
			}
			isRoot := func(v ssa.Value) bool { return dj[v] && strings.Contains(nf(v), "GetRoot()") }
			isHash := func(v ssa.Value) bool { return hv[v] && !dj[v] }
			if !(isRoot(x) && isHash(y)) && !(isRoot(y) && isHash(x)) {
				return
			}
			if neg {
				eq = !eq
			}
			e := 0
			if !eq {
				e = 1
			}
			guards = append(guards, guard{iff, e})
		})
		k := 0
		eachInstr(f, func(in ssa.Instruction) {
			r, ok := in.(*ssa.Return)
			if !ok || isFailureReturn(r) || len(r.Results) == 0 {
				return
			}
			fromJoin := false
			for _, v := range resolveSpill(r.Results[0]) {
				if dj[v] {
					fromJoin = true
				}
			}
			if !fromJoin {
				return
			}
			cons := fmt.Sprintf("%s→address#root-is-manifest#%d", fk, k)
			k++
			guarded := false
			for _, g := range guards {
				if branchCovers(g.iff.Block().Succs[g.edge], r.Block()) {
					guarded = true
				}
			}
			if guarded {
				c.ok("M6", cons, r.Pos(), "the address is only returned where its parsed root was found equal to the manifest's hash")
			} else {
				c.bad("M6", cons, r.Pos(), "the address is path.Join(prefix, manifest hash, name) parsed back, and is returned without comparing its root with the manifest hash: path.Join cleans the path, so a name like \"../<cid>/x\" yields /orbitdb/<cid>/x — the address of whatever database <cid> is — for every type and access controller; different inputs give the same address and opening it yields a store that was not the one described")
			}
		})
	}
	// no floor: the rule is about one way of building the address; a constructor that takes
	// the hash directly is judged by M5. The controls keep the rule armed.
	c.Counts["M6:addresses built by joining the manifest hash with caller text"] = n
}

// ---------------------------------------------------------------------------
// L4

// fetchOptField: the value of one field of the FetchOptions handed to a fetch. When the options
// are built by a helper that stores one of its parameters in the field, the value is what the
// call site hands in for that parameter.
func (c *Ctx) fetchOptField(call ssa.CallInstruction, field string) (ssa.Value, bool) {
	for _, a := range call.Common().Args {
		p, ok := a.Type().(*types.Pointer)
		if !ok || !strings.HasSuffix(typeStr(p.Elem()), "FetchOptions") {
			continue
		}
		l, ok := structLitFields(a)[field]
		if !ok {
			return nil, false
		}
		if prm, isParam := l.(*ssa.Parameter); isParam {
			if hc, isCall := a.(*ssa.Call); isCall && hc.Call.StaticCallee() == prm.Parent() {
				for i, q := range prm.Parent().Params {
					if q == prm && i < len(hc.Call.Args) {
						return hc.Call.Args[i], true
					}
				}
			}
		}
		return l, true
	}
	return nil, false
}

// fetchLength: the constant FetchOptions.Length of one NewFromEntryHash call (the address of
// a local holding a constant, or of a package variable initialised to a constant and never
// reassigned); ok=false when it is anything else (a parameter, a computed amount).
func (c *Ctx) fetchLength(call ssa.CallInstruction) (int64, bool) {
	for range []int{0} {
		l, ok := c.fetchOptField(call, "Length")
		if !ok {
			return 0, false
		}
		switch x := l.(type) {
		case *ssa.Alloc:
			var val *int64
			n := 0
			for _, r := range *x.Referrers() {
				if st, ok := r.(*ssa.Store); ok && st.Addr == ssa.Value(x) {
					n++
					if k, ok := constInt(st.Val); ok {
						val = &k
					}
				}
			}
			if n == 1 && val != nil {
				return *val, true
			}
		case *ssa.Global:
			var initVal *int64
			writers := 0
			for _, fn := range append(append([]*ssa.Function{}, c.RepoFns...), x.Pkg.Func("init")) {
				if fn == nil {
					continue
				}
				eachInstr(fn, func(in ssa.Instruction) {
					st, ok := in.(*ssa.Store)
					if !ok || st.Addr != ssa.Value(x) {
						return
					}
					if fn.Name() == "init" && fn.Parent() == nil {
						if k, ok := constInt(st.Val); ok {
							initVal = &k
							return
						}
					}
					writers++
				})
			}
			if initVal != nil && writers == 0 {
				return *initVal, true
			}
		}
		return 0, false
	}
	return 0, false
}

// ruleL4: rejection granularity. Join verifies every entry of the log it is given and refuses
// the whole log when one entry fails. A log fetched by address with a length other than the
// constant 1 holds whatever blocks the head links to — including an ancestor that was refused
// when it was first replicated and whose block is still in the local store. Where such a log
// is joined, the failing outcome must lead to a merge of its entries one at a time (a Join of
// a log fetched with length 1); otherwise one refused entry costs the replica all the others
// (after a restart: everything it held).
func (c *Ctx) ruleL4() {
	n := 0
	isFetch := func(call ssa.CallInstruction) bool { return calleeFull(call) == logMod+".NewFromEntryHash" }
	singleJoin := func(call ssa.CallInstruction) bool {
		if !c.isLogCall(call, "Join") || len(argsOf(call)) == 0 {
			return false
		}
		f := call.Parent()
		ok := false
		eachCall(f, func(fc ssa.CallInstruction) {
			if !isFetch(fc) || fc.Value() == nil {
				return
			}
			if k, known := c.fetchLength(fc); known && k == 1 {
				if derived([]ssa.Value{fc.Value()}, flowOpts{})[argsOf(call)[0]] {
					ok = true
				}
			}
		})
		return ok
	}
	for _, f := range c.RepoFns {
		if c.isTestFile(f.Pos()) || f.Pkg == nil || !strings.HasSuffix(f.Pkg.Pkg.Path(), "/stores/basestore") {
			continue
		}
		k := 0
		eachCall(f, func(fc ssa.CallInstruction) {
			if !isFetch(fc) || fc.Value() == nil {
				return
			}
			if ln, known := c.fetchLength(fc); known && ln == 1 {
				return
			}
			d := derived([]ssa.Value{fc.Value()}, flowOpts{})
			eachCall(f, func(jc ssa.CallInstruction) {
				if !c.isLogCall(jc, "Join") || len(argsOf(jc)) == 0 || !d[argsOf(jc)[0]] {
					return
				}
				if !c.isControlFn(f) {
					n++
				}
				cons := fmt.Sprintf("%s→Join(multi-entry fetch)#%d", fnKey(f), k)
				k++
				ev := errResult(jc)
				var fails []*ssa.BasicBlock
				if ev != nil {
					for _, t := range errTests(ev) {
						if t.Fail != nil {
							fails = append(fails, t.Fail)
						}
					}
				}
				if len(fails) == 0 {
					c.bad("L4", cons, jc.Pos(), "a log fetched with its whole ancestry is joined and the outcome is not looked at: Join refuses the whole log when one entry fails, so one refused ancestor (its block stays in the local store) costs the replica every other entry of that history")
					return
				}
				okAll := true
				for _, fb := range fails {
					found := false
					for _, b := range f.Blocks {
						if !dominates(fb, b) {
							continue
						}
						for _, in := range b.Instrs {
							call, ok := in.(ssa.CallInstruction)
							if !ok {
								continue
							}
							if singleJoin(call) {
								found = true
							}
							for _, g := range c.repoCalleesCheap(call) {
								if c.reachesCall(g, singleJoin, 0, map[*ssa.Function]bool{}) {
									found = true
								}
							}
						}
					}
					if !found {
						okAll = false
					}
				}
				if okAll {
					c.ok("L4", cons, jc.Pos(), "when the whole history is refused its entries are joined one at a time (logs fetched with length 1): a refused entry only costs itself")
				} else {
					c.bad("L4", cons, jc.Pos(), "a log fetched with its whole ancestry is joined as one unit and nothing is done when the join fails: Join refuses the whole log when one entry fails, so after a restart one refused ancestor (replicated, rejected then, its block still in the local store) costs the replica every entry it held — entries that were reported as replicated are gone")
				}
			})
		})
	}
	c.floor("L4", "joins of logs fetched with their ancestry", n, 1)
}

// ---------------------------------------------------------------------------
// I10

// ruleI10: the picture of the log that a view update installs is taken inside the critical
// section that installs it. UpdateIndex runs concurrently (every writer refreshes the view
// after its own append, and so does the replicator after a merge): a picture taken before the
// lock can be installed after a newer one, and the view then lags the log — an acknowledged
// Put is not what Get returns — until some later update.
func (c *Ctx) ruleI10() {
	n := 0
	for _, nt := range c.indexImpls() {
		f := c.methodOf(nt, "UpdateIndex")
		if f == nil || f.Blocks == nil {
			continue
		}
		ls := c.locksetsOf(f)
		// locks held (for writing) at the view writes
		var viewLocks lockset
		var firstWrite ssa.Instruction
		eachInstr(f, func(in ssa.Instruction) {
			isWrite := false
			switch x := in.(type) {
			case *ssa.MapUpdate:
				isWrite = isRecvMap(f, x.Map)
			case *ssa.Store:
				if fa, ok := x.Addr.(*ssa.FieldAddr); ok && isRecv(f, fa.X) {
					isWrite = !strings.HasPrefix(typeStr(fieldVarOf(fa).Type()), "sync.")
				}
			case *ssa.Call:
				if bi, ok := x.Call.Value.(*ssa.Builtin); ok && bi.Name() == "delete" && len(x.Call.Args) == 2 {
					isWrite = isRecvMap(f, x.Call.Args[0])
				}
				// a small method of the same index that writes its maps
				if g := x.Call.StaticCallee(); g != nil && g.Blocks != nil && g.Signature.Recv() != nil && len(x.Call.Args) > 0 && isRecv(f, x.Call.Args[0]) {
					st, del := recvMapEffects(g)
					isWrite = isWrite || st || del
				}
			}
			if !isWrite {
				return
			}
			held := lockset{}
			for k, m := range ls[in] {
				if m == "W" {
					held[k] = m
				}
			}
			for k, m := range c.entryLocks(f, 0) {
				if m == "W" {
					held[k] = m
				}
			}
			if viewLocks == nil {
				viewLocks, firstWrite = held, in
			} else {
				viewLocks = meet(viewLocks, held)
			}
		})
		if firstWrite == nil || len(viewLocks) == 0 {
			continue // no view write, or the index relies on its callers for exclusion
		}
		k := 0
		eachCall(f, func(call ssa.CallInstruction) {
			if !c.isLogCall(call, "Values") && !c.isLogCall(call, "GetEntries") && !c.isLogCall(call, "Heads") && !c.isLogCall(call, "Len") {
				return
			}
			if !c.isControlFn(f) {
				n++
			}
			cons := fmt.Sprintf("%s→%s()#under-view-lock#%d", fnKey(f), methodName(call), k)
			k++
			missing := []string{}
			el := c.entryLocks(f, 0)
			for cls := range viewLocks {
				_, here := ls[call][cls]
				_, fromCaller := el[cls]
				if !here && !fromCaller {
					missing = append(missing, cls)
				}
			}
			sort.Strings(missing)
			if len(missing) == 0 {
				c.ok("I10", cons, call.Pos(), "the log is read inside the critical section that installs the view")
			} else {
				c.bad("I10", cons, call.Pos(), "the picture of the log is taken before "+strings.Join(missing, ", ")+" is held and installed under it: two refreshes can run concurrently (each writer refreshes the view after its own append), the one that looked first can install last, and the view is then older than the log — Get returns the previous value of a key whose newer Put was acknowledged")
			}
		})
	}
	c.Counts["I10:log reads in locked view updates"] = n
}

// ---------------------------------------------------------------------------
// R3

// ruleR3: whoever raises the maximum lets the progress follow. A function that calls a helper
// which only sets the maximum (and not the progress) must — unless a progress update sits in
// the same loop (the event loop, where progress arrives by later events) — pass a call that
// sets the progress on every successful path afterwards. Otherwise the operation ends with
// progress below maximum although the log is complete.
func (c *Ctx) ruleR3() {
	kMax := newKind("set-max", func(call ssa.CallInstruction) bool { return c.writesMax(call) })
	kProg := newKind("set-progress", func(call ssa.CallInstruction) bool { return c.writesProgress(call) })
	st := c.storeType()
	if st == nil {
		c.floor("R3", "store type", 0, 1)
		return
	}
	n := 0
	for _, f := range c.methodsOf(st) {
		if c.isTestFile(f.Pos()) {
			continue
		}
		// the helpers themselves (and the function literals they hand to a lock helper) are not callers
		if t := topLevel(f); c.mustDo(kMax, t, 0) && !c.reachesStatic(t, func(call ssa.CallInstruction) bool {
			return c.isLogCall(call, "Join") || c.isLogCall(call, "Append")
		}, 0) {
			continue
		}
		k := 0
		eachInstr(f, func(in ssa.Instruction) {
			call, ok := in.(ssa.CallInstruction)
			if !ok {
				return
			}
			if _, isGo := in.(*ssa.Go); isGo {
				return
			}
			if !c.isSite(kMax, in) || c.isSite(kProg, in) {
				return
			}
			if c.writesMax(call) {
				return // the primitive itself, inside a helper
			}
			if !c.isControlFn(f) {
				n++
			}
			cons := fmt.Sprintf("%s→raise-max#progress-follows#%d", fnKey(f), k)
			k++
			// same loop as a progress update?
			if hd := loopHeader(in.Block()); hd != nil {
				inLoopProg := false
				eachInstr(f, func(x ssa.Instruction) {
					if c.isSite(kProg, x) && sameLoop(hd, x.Block()) {
						inLoopProg = true
					}
				})
				if inLoopProg {
					c.ok("R3", cons, in.Pos(), "the maximum is raised inside the loop that also advances the progress (event driven)")
					return
				}
			}
			via := func(x ssa.Instruction) bool { return c.isSite(kProg, x) }
			if hit, tr := findPath(f, after(in), via, successReturn, nil); hit != nil {
				c.bad("R3", cons, hit.Pos(), "the maximum is raised here and the operation can return successfully without ever setting the progress: at rest, with the whole log loaded, progress stays below maximum (after LoadFromSnapshot: progress 0, maximum N)", c.trailStr(tr)...)
			} else {
				c.ok("R3", cons, in.Pos(), "every successful path after the maximum is raised passes a progress update")
			}
		})
	}
	c.floor("R3", "max-only status updates", n, 2)
}

func hasCallTo(f *ssa.Function, pred func(ssa.CallInstruction) bool) bool {
	found := false
	eachCall(f, func(call ssa.CallInstruction) {
		if pred(call) {
			found = true
		}
	})
	return found
}

// ---------------------------------------------------------------------------
// R5

// ruleR5: the status is read, compared and written back in one step. The functions that write
// the replication status (SetMax / SetProgress) from a value they computed from what they read
// (GetMax / GetProgress) run on several goroutines — writers, the reader of Load's progress
// channel, the replicator's event loop. Without a lock held from the read to the write (their
// own, or one held by every caller), the slower of two callers writes back the smaller value:
// the status decreases.
func (c *Ctx) ruleR5() {
	st := c.storeType()
	if st == nil {
		c.floor("R5", "store type", 0, 1)
		return
	}
	n := 0
	for _, f := range c.methodsOf(st) {
		if c.isTestFile(f.Pos()) {
			continue
		}
		var reads, writes []ssa.CallInstruction
		eachCall(f, func(call ssa.CallInstruction) {
			switch {
			case c.isMethodOn(call, "GetMax", ifaceReplInfo), c.isMethodOn(call, "GetProgress", ifaceReplInfo):
				reads = append(reads, call)
			case c.isMethodOn(call, "SetMax", ifaceReplInfo), c.isMethodOn(call, "SetProgress", ifaceReplInfo):
				writes = append(writes, call)
			}
		})
		if len(reads) == 0 || len(writes) == 0 {
			continue
		}
		ls := c.locksetsOf(f)
		el := c.entryLocks(f, 0)
		for i, w := range writes {
			// only writes of a value computed from a read
			var rv []ssa.Value
			for _, r := range reads {
				if r.Value() != nil {
					rv = append(rv, r.Value())
				}
			}
			d := derived(rv, flowOpts{})
			dep := false
			for _, a := range argsOf(w) {
				if d[a] {
					dep = true
				}
			}
			if !dep {
				continue
			}
			if !c.isControlFn(f) {
				n++
			}
			cons := fmt.Sprintf("%s→%s#read-modify-write#%d", fnKey(f), methodName(w), i)
			held := lockset{}
			for k, v := range el {
				if v == "W" {
					held[k] = v
				}
			}
			for k, v := range ls[w] {
				if v == "W" {
					held[k] = v
				}
			}
			common := []string{}
			for cls := range held {
				okAll := true
				for _, r := range reads {
					_, inEntry := el[cls]
					if _, ok := ls[r][cls]; !ok && !inEntry {
						okAll = false
					}
				}
				if okAll {
					common = append(common, cls)
				}
			}
			sort.Strings(common)
			if len(common) > 0 {
				c.ok("R5", cons, w.Pos(), "the status is read and written back under "+strings.Join(common, ", "))
			} else {
				c.bad("R5", cons, w.Pos(), "the status is read (GetMax/GetProgress), compared and written back with no lock held from the read to the write: these functions run on several goroutines (concurrent writers, Load's progress reader, the replicator's event loop), and the slower of two callers writes back the smaller value it computed earlier — the maximum or the progress decreases while the store is open")
			}
		}
	}
	// the floor stands while the store writes the status through the raw setters at all; a
	// status object with compare-and-set methods of its own is judged by R2 on those methods
	raw := 0
	for _, f := range c.methodsOf(st) {
		if c.isTestFile(f.Pos()) || c.isControlFn(f) {
			continue
		}
		eachCall(f, func(call ssa.CallInstruction) {
			if c.isMethodOn(call, "SetMax", ifaceReplInfo) || c.isMethodOn(call, "SetProgress", ifaceReplInfo) {
				raw++
			}
		})
	}
	if raw > 0 {
		c.floor("R5", "status read-modify-write sites", n, 2)
	} else {
		c.Counts["R5:status read-modify-write sites"] = n
	}
}

// ---------------------------------------------------------------------------
// J2

// ruleJ2: at load, every cached head is fetched with at least the limit. The n most recent
// entries of the log lie within the union of the n most recent ancestors of each head; a
// per-head fetch length smaller than the limit (the limit divided between the heads, or reduced
// by what earlier heads brought in) can leave some of them unfetched, and the trim that follows
// then keeps older entries in their place. The length handed to the head fetch must be the
// limit itself (after defaulting), an unlimited fetch, or something not derived from it by an
// operation that can make it smaller.
func (c *Ctx) ruleJ2() {
	st := c.storeType()
	if st == nil {
		c.floor("J2", "store type", 0, 1)
		return
	}
	n := 0
	for _, f := range c.methodsOf(st) {
		if c.isTestFile(f.Pos()) {
			continue
		}
		top := topLevel(f)
		if top.Name() != "Load" && !strings.HasPrefix(top.Name(), "verifCtl") && !c.calledOnlyFrom(top, "Load") {
			continue
		}
		k := 0
		eachCall(f, func(call ssa.CallInstruction) {
			if calleeFull(call) != logMod+".NewFromEntryHash" {
				return
			}
			lenVal, _ := c.fetchOptField(call, "Length")
			if lenVal == nil {
				return
			}
			if k1, known := c.fetchLength(call); known && k1 == 1 {
				return // the per-entry fallback, not a head fetch
			}
			if !c.isControlFn(f) {
				n++
			}
			cons := fmt.Sprintf("%s→head-fetch#length#%d", fnKey(f), k)
			k++
			why := c.shrinks(lenVal, 0, map[ssa.Value]bool{})
			if why == "" {
				c.ok("J2", cons, call.Pos(), "the per-head fetch length is the limit itself (or unlimited): nothing on its way can make it smaller")
			} else {
				c.bad("J2", cons, call.Pos(), "the length each cached head is fetched with is computed from the limit by "+why+", which can make it smaller than the limit: with several heads (or overlapping histories) some of the n most recent entries are never fetched, and the log shown after the trim holds fewer than min(n, total) entries or older ones in place of newer ones")
			}
		})
	}
	c.floor("J2", "head fetches at load", n, 1)
}

// calledOnlyFrom: every static caller of f is (a closure of) the store method named name.
func (c *Ctx) calledOnlyFrom(f *ssa.Function, name string) bool {
	found := false
	okAll := true
	for _, g := range c.RepoFns {
		if c.isTestFile(g.Pos()) {
			continue
		}
		eachCall(g, func(call ssa.CallInstruction) {
			if call.Common().StaticCallee() != f {
				return
			}
			found = true
			if topLevel(g).Name() != name {
				okAll = false
			}
		})
	}
	return found && okAll
}

// shrinks: some value stored into the cell (followed through cells, phis and parameters filled
// by static callers) is produced by an operation that can reduce it.
func (c *Ctx) shrinks(v ssa.Value, depth int, seen map[ssa.Value]bool) string {
	if v == nil || seen[v] || depth > 8 {
		return ""
	}
	seen[v] = true
	switch x := v.(type) {
	case *ssa.Alloc:
		for _, r := range *x.Referrers() {
			if st, ok := r.(*ssa.Store); ok && st.Addr == ssa.Value(x) {
				if w := c.shrinks(st.Val, depth+1, seen); w != "" {
					return w
				}
			}
		}
	case *ssa.FreeVar:
		fn := x.Parent()
		if p := fn.Parent(); p != nil {
			why := ""
			eachInstr(p, func(in ssa.Instruction) {
				if mc, ok := in.(*ssa.MakeClosure); ok && mc.Fn == ssa.Value(fn) {
					for i, fv := range fn.FreeVars {
						if fv == x && i < len(mc.Bindings) && why == "" {
							why = c.shrinks(mc.Bindings[i], depth+1, seen)
						}
					}
				}
			})
			return why
		}
	case *ssa.Parameter:
		// a limit handed to a helper: what the static callers hand in
		fn := x.Parent()
		idx := -1
		for i, p := range fn.Params {
			if p == x {
				idx = i
			}
		}
		why := ""
		if idx >= 0 && isIntType(x.Type()) {
			for _, g := range c.RepoFns {
				if c.isTestFile(g.Pos()) || why != "" {
					continue
				}
				eachCall(g, func(cs ssa.CallInstruction) {
					if why == "" && cs.Common().StaticCallee() == fn && idx < len(cs.Common().Args) {
						why = c.shrinks(cs.Common().Args[idx], depth+1, seen)
					}
				})
			}
		}
		return why
	case *ssa.UnOp:
		return c.shrinks(x.X, depth+1, seen)
	case *ssa.Phi:
		for _, e := range x.Edges {
			if w := c.shrinks(e, depth+1, seen); w != "" {
				return w
			}
		}
	case *ssa.Convert:
		return c.shrinks(x.X, depth+1, seen)
	case *ssa.BinOp:
		switch x.Op {
		case token.SUB:
			return "a subtraction"
		case token.QUO:
			return "a division"
		case token.REM:
			return "a remainder"
		case token.SHR:
			return "a shift"
		}
		if w := c.shrinks(x.X, depth+1, seen); w != "" {
			return w
		}
		return c.shrinks(x.Y, depth+1, seen)
	case *ssa.Call:
		if b, ok := x.Call.Value.(*ssa.Builtin); ok && b.Name() == "min" {
			return "min()"
		}
		if g := x.Call.StaticCallee(); g != nil && g.Blocks != nil && g.Pkg != nil && inRepo(g.Pkg.Pkg) && isIntType(x.Type()) {
			why := ""
			eachInstr(g, func(in ssa.Instruction) {
				if r, ok := in.(*ssa.Return); ok && why == "" {
					for _, rv := range r.Results {
						if isIntType(rv.Type()) && why == "" {
							why = c.shrinks(rv, depth+1, seen)
						}
					}
				}
			})
			return why
		}
	}
	return ""
}

// ---------------------------------------------------------------------------
// R4

// ruleR4: a write is counted as soon as it is in the log and its head persisted. In the function that appends a local
// entry, every path from the successful append to ANY return — including the failing ones that
// follow (index refresh refused, event not emitted) — passes the status recalculation:
// the entry is in the log and its head persisted whatever happens next, and a status that does
// not count it is below the number of entries the store holds, at rest.
func (c *Ctx) ruleR4() {
	kProg := newKind("set-progress", func(call ssa.CallInstruction) bool { return c.writesProgress(call) })
	kApp := newKind("append", func(call ssa.CallInstruction) bool { return c.isLogCall(call, "Append") })
	st := c.storeType()
	if st == nil {
		c.floor("R4", "store type", 0, 1)
		return
	}
	n := 0
	for _, f := range c.methodsOf(st) {
		if c.isTestFile(f.Pos()) || f.Parent() != nil {
			continue
		}
		// the outermost function of the write path: it has an append site and is not itself
		// a helper that only appends and persists (those return the entry to a caller in the store)
		hasSite := false
		eachInstr(f, func(in ssa.Instruction) {
			if c.isSite(kApp, in) {
				hasSite = true
			}
		})
		if !hasSite {
			continue
		}
		callers := 0
		for _, g := range c.methodsOf(st) {
			eachCall(g, func(call ssa.CallInstruction) {
				if call.Common().StaticCallee() == f {
					callers++
				}
			})
		}
		if callers > 0 {
			continue
		}
		k := 0
		eachInstr(f, func(in ssa.Instruction) {
			call, ok := in.(ssa.CallInstruction)
			if !ok || !c.isSite(kApp, in) {
				return
			}
			if !c.isControlFn(f) {
				n++
			}
			cons := fmt.Sprintf("%s→append#counted#%d", fnKey(f), k)
			k++
			start, _, tested := okStart(call)
			if !tested {
				start = after(call)
			}
			// the write counts from the moment its head is persisted: when the persisting Put
			// is a separate step of this function, start from its success
			kPut := c.kindPut("")
			isPutSite := func(x ssa.Instruction) bool {
				pc, ok := x.(ssa.CallInstruction)
				if !ok {
					return false
				}
				if _, isGo := x.(*ssa.Go); isGo {
					return false
				}
				return c.isSite(kPut, pc)
			}
			if cal := call.Common().StaticCallee(); cal == nil || cal.Blocks == nil || !c.mustDo(kPut, cal, 1) {
				if ph, _ := findPath(f, start, nil, isPutSite, nil); ph != nil {
					if ps, _, ptested := okStart(ph.(ssa.CallInstruction)); ptested {
						start = ps
					} else {
						start = after(ph)
					}
				}
			}
			via := func(x ssa.Instruction) bool { return c.isSite(kProg, x) }
			anyReturn := func(x ssa.Instruction) bool { _, ok := x.(*ssa.Return); return ok }
			if hit, tr := findPath(f, start, via, anyReturn, nil); hit != nil {
				c.bad("R4", cons, hit.Pos(), "after the entry was appended (and its head persisted) the function can return — here on a later failure — without recalculating the replication status: the store then holds one entry more than its status counts, and stays so at rest", c.trailStr(tr)...)
			} else {
				c.ok("R4", cons, call.Pos(), "every path from the successful append to a return passes the status recalculation")
			}
		})
	}
	c.floor("R4", "local write paths", n, 1)
}

// ---------------------------------------------------------------------------
// X7

// ruleX7: the membership snapshot has one writer, the diff. The polled diff reports a join or a
// leave by comparing the list just read with the remembered one and then remembers the new
// list. Any other code that refreshes the remembered list (a cache refresh in Peers()) absorbs
// the changes it covers: the next diff finds nothing new and the join is never reported — no
// head exchange takes place with that peer.
func (c *Ctx) ruleX7() {
	n := 0
	fns := c.fnsInPkg("pubsub/pubsubcoreapi")
	// the snapshot field: assigned a value derived from the API's Peers() answer
	var snap *types.Var
	for _, f := range fns {
		if c.isTestFile(f.Pos()) || c.isControlFn(f) {
			continue
		}
		var peers []ssa.Value
		eachCall(f, func(call ssa.CallInstruction) {
			if methodName(call) == "Peers" && call.Common().IsInvoke() && strings.HasSuffix(typeStr(call.Common().Value.Type()), "coreiface.PubSubAPI") && call.Value() != nil {
				peers = append(peers, call.Value())
			}
		})
		if len(peers) == 0 {
			continue
		}
		d := derived(peers, flowOpts{})
		eachInstr(f, func(in ssa.Instruction) {
			if st, ok := in.(*ssa.Store); ok && d[st.Val] {
				if fa, ok := st.Addr.(*ssa.FieldAddr); ok && isRecv(f, fa.X) {
					snap = fieldVarOf(fa)
				}
			}
			if call, ok := in.(ssa.CallInstruction); ok {
				if fv := setterStore(call, d); fv != nil {
					snap = fv
				}
			}
		})
	}
	if snap == nil {
		c.floor("X7", "membership snapshot field", 0, 1)
		return
	}
	// the diff: hands back (at least) two lists of peers — as results or as fields of a struct it
	// returns — and compares memberships: it, or a same-package function it calls, builds or
	// consults a set
	peerLists := func(t types.Type) int {
		if p, ok := t.Underlying().(*types.Pointer); ok {
			t = p.Elem()
		}
		if sl, ok := t.Underlying().(*types.Slice); ok && strings.HasSuffix(typeStr(sl.Elem()), "peer.ID") {
			return 1
		}
		k := 0
		if st, ok := t.Underlying().(*types.Struct); ok {
			for i := 0; i < st.NumFields(); i++ {
				if sl, ok := st.Field(i).Type().Underlying().(*types.Slice); ok && strings.HasSuffix(typeStr(sl.Elem()), "peer.ID") {
					k++
				}
			}
		}
		return k
	}
	var usesSet func(f *ssa.Function, depth int) bool
	usesSet = func(f *ssa.Function, depth int) bool {
		if f == nil || f.Blocks == nil || depth > 2 {
			return false
		}
		found := false
		eachInstr(f, func(in ssa.Instruction) {
			switch x := in.(type) {
			case *ssa.Lookup, *ssa.MapUpdate:
				found = true
			case ssa.CallInstruction:
				if h := x.Common().StaticCallee(); h != nil && h.Pkg == f.Pkg && h != f && !found {
					if usesSet(h, depth+1) {
						found = true
					}
				}
			}
		})
		return found
	}
	isDiff := func(f *ssa.Function) bool {
		k := 0
		res := f.Signature.Results()
		for i := 0; i < res.Len(); i++ {
			k += peerLists(res.At(i).Type())
		}
		return k >= 2 && usesSet(f, 0)
	}
	var onlyVia func(w *ssa.Function, depth int, seen map[*ssa.Function]bool) (bool, string)
	onlyVia = func(w *ssa.Function, depth int, seen map[*ssa.Function]bool) (bool, string) {
		if isDiff(w) {
			return true, ""
		}
		if seen[w] || depth > 4 {
			return true, ""
		}
		seen[w] = true
		callers := 0
		for _, g := range c.RepoFns {
			if c.isTestFile(g.Pos()) {
				continue
			}
			bad := ""
			eachCall(g, func(call ssa.CallInstruction) {
				if call.Common().StaticCallee() != w {
					return
				}
				callers++
				if ok, why := onlyVia(topLevel(g), depth+1, seen); !ok && bad == "" {
					bad = why
				}
			})
			if bad != "" {
				return false, bad
			}
		}
		if callers == 0 {
			return false, fnKey(w)
		}
		return true, ""
	}
	for _, f := range fns {
		if c.isTestFile(f.Pos()) {
			continue
		}
		k := 0
		eachInstr(f, func(in ssa.Instruction) {
			st, ok := in.(*ssa.Store)
			if !ok {
				return
			}
			fa, ok := st.Addr.(*ssa.FieldAddr)
			if !ok || fieldVarOf(fa) != snap {
				return
			}
			if !c.isControlFn(f) {
				n++
			}
			cons := fmt.Sprintf("%s→%s=#only-the-diff#%d", fnKey(f), snap.Name(), k)
			k++
			if ok, via := onlyVia(topLevel(f), 0, map[*ssa.Function]bool{}); ok {
				c.ok("X7", cons, st.Pos(), "the remembered membership is only replaced by the diff that reports what changed")
			} else {
				c.bad("X7", cons, st.Pos(), "the remembered membership list, which is the baseline of the next diff, is also replaced on a path that does not go through the diff (entered from "+via+"): a peer that joined since the last poll is absorbed into the baseline without a join event, the next diff finds nothing new, and no head exchange ever takes place with it")
			}
		})
	}
	c.floor("X7", "writes of the membership snapshot", n, 1)
}

// ---------------------------------------------------------------------------
// L5

// ruleL5: look-up-then-insert is one critical section. Where a function finds a key absent
// from a lock-protected map field and, because of that, inserts it (itself or through a
// callee), the lock must be held for writing from the look-up to the insert. Released in
// between (a read lock for the check, the write lock taken again to record), two callers both
// find the key absent and both create what the entry stands for — two subscriptions to the
// same pairwise topic, and every payload delivered twice.
func (c *Ctx) ruleL5() {
	n := 0
	for _, f := range c.RepoFns {
		if c.isTestFile(f.Pos()) {
			continue
		}
		var ls map[ssa.Instruction]lockset
		k := 0
		eachInstr(f, func(in ssa.Instruction) {
			lk, ok := in.(*ssa.Lookup)
			if !ok || !lk.CommaOk {
				return
			}
			fv := mapFieldOf(lk.X)
			if fv == nil {
				return
			}
			// the branch taken when the key is absent
			var absent []*ssa.BasicBlock
			for _, r := range *lk.Referrers() {
				ex, ok := r.(*ssa.Extract)
				if !ok || ex.Index != 1 {
					continue
				}
				for _, rr := range *ex.Referrers() {
					switch y := rr.(type) {
					case *ssa.If:
						absent = append(absent, y.Block().Succs[1])
					case *ssa.UnOp:
						if y.Op == token.NOT {
							for _, r3 := range *y.Referrers() {
								if iff, ok := r3.(*ssa.If); ok {
									absent = append(absent, iff.Block().Succs[0])
								}
							}
						}
					}
				}
			}
			if len(absent) == 0 {
				return
			}
			// inserts of the same map in the absent region: direct, or in a static callee
			var inserts []ssa.Instruction
			for _, b := range f.Blocks {
				cov := false
				for _, a := range absent {
					if branchCovers(a, b) {
						cov = true
					}
				}
				if !cov {
					continue
				}
				for _, x := range b.Instrs {
					if _, isGo := x.(*ssa.Go); isGo {
						continue
					}
					if _, isDefer := x.(*ssa.Defer); isDefer {
						continue
					}
					_, ins, _ := c.instrMapOps(x)
					if ins[fv] {
						inserts = append(inserts, x)
					}
				}
			}
			if len(inserts) == 0 {
				return
			}
			if ls == nil {
				ls = c.locksetsOf(f)
			}
			el := c.entryLocks(f, 0)
			atLookup := lockset{}
			for kk, v := range el {
				atLookup[kk] = v
			}
			for kk, v := range ls[lk] {
				atLookup[kk] = v
			}
			if len(atLookup) == 0 {
				return // not a lock-protected map as far as this function shows
			}
			if !c.isControlFn(f) {
				n++
			}
			cons := fmt.Sprintf("%s→absent(%s)→insert#%d", fnKey(f), mapFieldName(fv), k)
			k++
			okAll := true
			why := ""
			for _, ins := range inserts {
				held := false
				for cls, mode := range atLookup {
					m2, still := ls[ins][cls]
					if _, inEntry := el[cls]; inEntry {
						m2, still = el[cls], true
					}
					if !still || mode != "W" || m2 != "W" {
						continue
					}
					// not released in between
					released := false
					eachInstr(f, func(x ssa.Instruction) {
						if released {
							return
						}
						if _, isDefer := x.(*ssa.Defer); isDefer {
							return
						}
						op := lockOpOf(x)
						if op == nil || op.class != cls || (op.kind != "Unlock" && op.kind != "RUnlock") {
							return
						}
						isU := func(y ssa.Instruction) bool { return y == x }
						isI := func(y ssa.Instruction) bool { return y == ins }
						if h1, _ := findPath(f, after(lk), nil, isU, nil); h1 == nil {
							return
						}
						if h2, _ := findPath(f, after(x), nil, isI, nil); h2 != nil {
							released = true
						}
					})
					if !released {
						held = true
					}
				}
				if !held {
					okAll = false
					why = c.pos(ins.Pos())
				}
			}
			if okAll {
				c.ok("L5", cons, lk.Pos(), "the key is looked up and, when absent, inserted inside one write-locked section")
			} else {
				c.bad("L5", cons, lk.Pos(), "the key is found absent under "+atLookup.String()+" and inserted (at "+why+") without that lock having been held for writing all the way: two callers can both find it absent and both create and record what it stands for — the second overwrites the first, which keeps running (two subscriptions to one pairwise topic deliver every payload twice)")
			}
		})
	}
	c.floor("L5", "look-up-then-insert sites on lock-protected maps", n, 2)
}
