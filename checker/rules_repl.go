package main

import (
	"fmt"
	"go/constant"
	"go/token"
	"go/types"
	"sort"
	"strings"

	"golang.org/x/tools/go/ssa"
)

// taskTable: the field of map type map[cid.Cid]S (S a named integer type with declared
// constants) in stores/replicator, resolved by type.
type taskTable struct {
	field   *types.Var
	stateT  *types.Named
	states  map[int64]string
	owner   *types.Named
	initial map[int64]bool // states assigned where an item is enqueued
}

func (c *Ctx) findTaskTable() *taskTable {
	p := c.repoPkg("stores/replicator")
	if p == nil {
		return nil
	}
	sc := p.Types.Scope()
	for _, n := range sc.Names() {
		tn, ok := sc.Lookup(n).(*types.TypeName)
		if !ok {
			continue
		}
		st, ok := tn.Type().Underlying().(*types.Struct)
		if !ok {
			continue
		}
		for i := 0; i < st.NumFields(); i++ {
			mt, ok := st.Field(i).Type().Underlying().(*types.Map)
			if !ok {
				continue
			}
			el, ok := mt.Elem().(*types.Named)
			if !ok {
				continue
			}
			if bt, ok := el.Underlying().(*types.Basic); !ok || bt.Info()&types.IsInteger == 0 {
				continue
			}
			if !strings.HasSuffix(typeStr(mt.Key()), "go-cid.Cid") {
				continue
			}
			tt := &taskTable{field: st.Field(i), stateT: el, states: map[int64]string{}, owner: tn.Type().(*types.Named), initial: map[int64]bool{}}
			for _, cn := range sc.Names() {
				if k, ok := sc.Lookup(cn).(*types.Const); ok && types.Identical(k.Type(), el) {
					if v, ok := constant.Int64Val(k.Val()); ok {
						tt.states[v] = cn
					}
				}
			}
			return tt
		}
	}
	return nil
}

func (tt *taskTable) isTable(v ssa.Value) bool {
	u, ok := v.(*ssa.UnOp)
	if !ok || u.Op != token.MUL {
		return false
	}
	fa, ok := u.X.(*ssa.FieldAddr)
	if !ok {
		return false
	}
	t := fa.X.Type()
	if p, ok := t.Underlying().(*types.Pointer); ok {
		t = p.Elem()
	}
	s, ok := t.Underlying().(*types.Struct)
	return ok && fa.Field < s.NumFields() && s.Field(fa.Field) == tt.field
}

// wrapperCall: the call is a method of the table's own (named map) type, applied to the table.
func (tt *taskTable) wrapperCall(call ssa.CallInstruction) *ssa.Function {
	h := call.Common().StaticCallee()
	if h == nil || h.Blocks == nil || h.Signature.Recv() == nil || len(h.Params) == 0 {
		return nil
	}
	if !types.Identical(h.Signature.Recv().Type(), tt.field.Type()) {
		return nil
	}
	if len(call.Common().Args) == 0 || !tt.isTable(call.Common().Args[0]) {
		return nil
	}
	return h
}

// isDelete: a removal from the task table: the builtin on the table, or a method of the
// table's type that deletes from its receiver.
func (tt *taskTable) isDelete(in ssa.Instruction) bool {
	call, ok := in.(ssa.CallInstruction)
	if !ok {
		return false
	}
	if b, ok := call.Common().Value.(*ssa.Builtin); ok && b.Name() == "delete" && len(call.Common().Args) == 2 && tt.isTable(call.Common().Args[0]) {
		return true
	}
	h := tt.wrapperCall(call)
	if h == nil {
		return false
	}
	found := false
	eachInstr(h, func(x ssa.Instruction) {
		if c2, ok := x.(*ssa.Call); ok {
			if b, ok := c2.Call.Value.(*ssa.Builtin); ok && b.Name() == "delete" && len(c2.Call.Args) == 2 && c2.Call.Args[0] == ssa.Value(h.Params[0]) {
				found = true
			}
		}
	})
	return found
}

// wrapperAssign: a method of the table's type that stores one of its parameters under a key;
// the state assigned is the constant the caller passes.
func (tt *taskTable) wrapperAssign(call ssa.CallInstruction) (int64, bool, bool) {
	h := tt.wrapperCall(call)
	if h == nil {
		return 0, false, false
	}
	idx := -1
	eachInstr(h, func(x ssa.Instruction) {
		if mu, ok := x.(*ssa.MapUpdate); ok && mu.Map == ssa.Value(h.Params[0]) {
			for i, p := range h.Params {
				if mu.Value == ssa.Value(p) {
					idx = i
				}
			}
		}
	})
	if idx < 0 || idx >= len(call.Common().Args) {
		return 0, false, false
	}
	k, isConst := constInt(call.Common().Args[idx])
	return k, isConst, true
}

// wrapperLookup: a method of the table's type that looks a key up in its receiver; reports
// whether the state found is looked at, and the states it is compared with.
func (tt *taskTable) wrapperLookup(call ssa.CallInstruction) (valueUsed bool, cmp []int64, ok bool) {
	h := tt.wrapperCall(call)
	if h == nil {
		return false, nil, false
	}
	eachInstr(h, func(x ssa.Instruction) {
		lk, isLk := x.(*ssa.Lookup)
		if !isLk || lk.X != ssa.Value(h.Params[0]) || !lk.CommaOk {
			return
		}
		ok = true
		for _, r := range *lk.Referrers() {
			if ex, isEx := r.(*ssa.Extract); isEx && ex.Index == 0 && ex.Referrers() != nil {
				for _, u := range *ex.Referrers() {
					if bo, isBo := u.(*ssa.BinOp); isBo {
						valueUsed = true
						for _, o := range []ssa.Value{bo.X, bo.Y} {
							if k, isK := constInt(o); isK {
								cmp = append(cmp, k)
							}
						}
					}
				}
			}
		}
	})
	return
}

// deletesTask: the call reaches (within depth) a delete on the task table.
func (c *Ctx) reachesTaskDelete(tt *taskTable, f *ssa.Function, depth int, seen map[*ssa.Function]bool) bool {
	if f == nil || f.Blocks == nil || seen[f] || depth > 4 {
		return false
	}
	seen[f] = true
	found := false
	eachInstr(f, func(in ssa.Instruction) {
		call, ok := in.(ssa.CallInstruction)
		if !ok || found {
			return
		}
		if tt.isDelete(in) {
			found = true
			return
		}
		if g := call.Common().StaticCallee(); g != nil && g.Pkg == f.Pkg {
			if c.reachesTaskDelete(tt, g, depth+1, seen) {
				found = true
			}
		}
	})
	return found
}

// rulesRepl: Q1, Q2, G2, L2.
func rulesRepl(c *Ctx) {
	tt := c.findTaskTable()
	if tt == nil || len(tt.states) == 0 {
		c.floor("Q1", "replicator task table", 0, 1)
		return
	}
	c.Counts["Q1:task states"] = len(tt.states)
	fns := c.fnsInPkg("stores/replicator")
	var realFns []*ssa.Function
	for _, f := range fns {
		if !c.isTestFile(f.Pos()) {
			realFns = append(realFns, f)
		}
	}
	fns = realFns

	// --- transition relation
	type assign struct {
		state int64
		in    ssa.Instruction
		fn    *ssa.Function
	}
	var assigns []assign
	var deletes []ssa.Instruction
	for _, f := range fns {
		eachInstr(f, func(in ssa.Instruction) {
			switch x := in.(type) {
			case *ssa.MapUpdate:
				if tt.isTable(x.Map) {
					if k, ok := constInt(x.Value); ok {
						assigns = append(assigns, assign{k, x, f})
					} else if p, isParam := x.Value.(*ssa.Parameter); isParam {
						// a setter of the replicator (setTaskState(hash, state)): the states its
						// callers hand in, each assigned where the setter is called
						idx := -1
						for i, q := range f.Params {
							if q == p {
								idx = i
							}
						}
						okAll, sites := true, 0
						for _, g := range fns {
							eachCall(g, func(cs ssa.CallInstruction) {
								if cs.Common().StaticCallee() != f || idx < 0 || idx >= len(cs.Common().Args) {
									return
								}
								sites++
								if k, ok := constInt(cs.Common().Args[idx]); ok {
									assigns = append(assigns, assign{k, cs, g})
								} else {
									okAll = false
								}
							})
						}
						if !okAll || sites == 0 {
							c.undecided("Q1", fnKey(f)+"→tasks[]=non-constant", x.Pos(), "a task state is assigned from a non-constant value")
						}
					} else {
						c.undecided("Q1", fnKey(f)+"→tasks[]=non-constant", x.Pos(), "a task state is assigned from a non-constant value")
					}
				}
			case *ssa.Call:
				if tt.isDelete(x) {
					deletes = append(deletes, x)
				}
				// a state assigned through a method of the table's type
				if st, isConst, ok := tt.wrapperAssign(x); ok {
					if isConst {
						assigns = append(assigns, assign{st, x, f})
					} else {
						c.undecided("Q1", fnKey(f)+"→tasks[]=non-constant", x.Pos(), "a task state is assigned from a non-constant value")
					}
				}
			}
		})
	}
	// --- Block: states for which the enqueue functions report "exists"
	// enqueue functions: those that add to the queue and assign a state
	isQueueAdd := func(call ssa.CallInstruction) bool {
		f := call.Common().StaticCallee()
		return f != nil && f.Name() == "Add" && f.Signature.Recv() != nil && strings.Contains(typeStr(f.Signature.Recv().Type()), "processQueue")
	}
	isQueueNext := func(call ssa.CallInstruction) bool {
		f := call.Common().StaticCallee()
		return f != nil && f.Name() == "Next" && f.Signature.Recv() != nil && strings.Contains(typeStr(f.Signature.Recv().Type()), "processQueue")
	}
	var enq []*ssa.Function
	for _, f := range fns {
		has := false
		eachCall(f, func(call ssa.CallInstruction) {
			if isQueueAdd(call) {
				has = true
			}
		})
		if has {
			enq = append(enq, f)
			for _, a := range assigns {
				if a.fn == f {
					tt.initial[a.state] = true
				}
			}
		}
	}
	c.floor("Q1", "enqueue functions", len(enq), 1)
	blocked := map[int64]bool{}
	for _, f := range enq {
		// a membership test made through a method of the table's type
		eachCall(f, func(call ssa.CallInstruction) {
			valueUsed, cmpStates, ok := tt.wrapperLookup(call)
			if !ok {
				return
			}
			for st := range tt.states {
				ex := false
				if valueUsed {
					for _, k := range cmpStates {
						if k == st {
							ex = true
						}
					}
				}
				if !ex {
					blocked[st] = true
				}
			}
		})
		eachInstr(f, func(in ssa.Instruction) {
			lk, ok := in.(*ssa.Lookup)
			if !ok || !tt.isTable(lk.X) {
				return
			}
			if !lk.CommaOk {
				return
			}
			// is the looked-up state value used (compared)? if ignored, every state blocks
			valueUsed := false
			var cmpStates []int64
			for _, r := range *lk.Referrers() {
				if ex, ok := r.(*ssa.Extract); ok && ex.Index == 0 && ex.Referrers() != nil {
					for _, u := range *ex.Referrers() {
						if bo, ok := u.(*ssa.BinOp); ok {
							valueUsed = true
							for _, o := range []ssa.Value{bo.X, bo.Y} {
								if k, ok := constInt(o); ok {
									cmpStates = append(cmpStates, k)
								}
							}
						}
					}
				}
			}
			if !valueUsed {
				for s := range tt.states {
					blocked[s] = true
				}
			} else {
				// conservative: states it is NOT compared against stay blocking only if the comparison is an exclusion;
				// treat compared states as excluded from Block (accepted fix: `queued && state != fetched`)
				for s := range tt.states {
					ex := false
					for _, k := range cmpStates {
						if k == s {
							ex = true
						}
					}
					if !ex {
						blocked[s] = true
					}
				}
			}
		})
	}
	// --- terminal state: assigned in the function that runs after the worker's processing (not an enqueue, not the dequeue)
	var dequeueFns []*ssa.Function
	for _, f := range fns {
		eachCall(f, func(call ssa.CallInstruction) {
			if isQueueNext(call) {
				dequeueFns = append(dequeueFns, f)
			}
		})
	}
	terminal := map[int64]ssa.Instruction{}
	for _, a := range assigns {
		if tt.initial[a.state] {
			continue
		}
		isDeq := false
		for _, d := range dequeueFns {
			if d == a.fn {
				isDeq = true
			}
		}
		if !isDeq {
			terminal[a.state] = a.in
		}
	}
	var tstates []int64
	for s := range terminal {
		tstates = append(tstates, s)
	}
	sort.Slice(tstates, func(i, j int) bool { return tstates[i] < tstates[j] })
	c.cleanupNotLimitedToOneState(tt, fns, terminal)
	for _, s := range tstates {
		name := tt.states[s]
		at := terminal[s]
		consJ := "tasks#" + name + "-after-rejected-join"
		consF := "tasks#" + name + "-after-failed-fetch"
		if !blocked[s] {
			c.ok("Q1", consJ, at.Pos(), "state "+name+" does not block re-queuing")
			c.ok("Q1", consF, at.Pos(), "state "+name+" does not block re-queuing")
			continue
		}
		// (i) failed / cancelled fetch: in the worker, the failing branch of the processing step
		// must reach a removal of the task entry before the worker returns
		doneFn := at.Parent()
		checkedF := false
		isDeqFn := func(g *ssa.Function) bool {
			for _, d := range dequeueFns {
				if d == g {
					return true
				}
			}
			return false
		}
		// calls doneFn, directly or through a same-package function that does (the terminal
		// assignment may sit in a helper of the function that ends the worker's item)
		callsDone := func(cl ssa.CallInstruction) bool {
			g := cl.Common().StaticCallee()
			if g == nil {
				return false
			}
			if g == doneFn {
				return true
			}
			// synchronous calls only, two levels: a goroutine the function starts is another worker
			found := false
			var walk func(h *ssa.Function, d int)
			walk = func(h *ssa.Function, d int) {
				if h == nil || h.Blocks == nil || h.Pkg != doneFn.Pkg || d > 2 || found {
					return
				}
				eachCall(h, func(x ssa.CallInstruction) {
					if _, isGo := x.(*ssa.Go); isGo {
						return
					}
					if x.Common().StaticCallee() == doneFn {
						found = true
						return
					}
					walk(x.Common().StaticCallee(), d+1)
				})
			}
			walk(g, 1)
			return found
		}
		for _, w := range fns {
			if isDeqFn(w) {
				continue
			}
			callsDeq := false
			eachCall(w, func(call ssa.CallInstruction) {
				g := call.Common().StaticCallee()
				if g == nil {
					return
				}
				if isDeqFn(g) {
					callsDeq = true
					return
				}
				// the dequeue may be one helper further down (wait for a slot, then claim the item)
				if g.Blocks != nil && g.Pkg == w.Pkg {
					eachCall(g, func(c2 ssa.CallInstruction) {
						if h := c2.Common().StaticCallee(); h != nil && isDeqFn(h) {
							callsDeq = true
						}
					})
				}
			})
			if !callsDeq {
				continue
			}
			eachCall(w, func(call ssa.CallInstruction) {
				g := call.Common().StaticCallee()
				if g == nil || g.Pkg != w.Pkg || checkedF {
					return
				}
				isDeq := false
				for _, d := range dequeueFns {
					if d == g {
						isDeq = true
					}
				}
				if isDeq || g == doneFn || callsDone(call) {
					return
				}
				// a step that leads to the dequeue (waiting for a slot) is not the fetch step
				leads := false
				if g.Blocks != nil {
					eachCall(g, func(x ssa.CallInstruction) {
						if _, isGo := x.(*ssa.Go); isGo {
							return
						}
						if h := x.Common().StaticCallee(); h != nil && isDeqFn(h) {
							leads = true
						}
					})
				}
				if leads {
					return
				}
				ev := errResult(call)
				if ev == nil {
					return
				}
				// the processing step: a same-package call with an error result made before the terminal assignment
				reachesDone := false
				if h, _ := findPath(w, after(call), nil, func(in ssa.Instruction) bool {
					cl, ok := in.(ssa.CallInstruction)
					return ok && callsDone(cl)
				}, nil); h != nil {
					reachesDone = true
				}
				if !reachesDone {
					return
				}
				checkedF = true
				// the fetch step reports its failures: inside it (and its synchronous same-package
				// callees, two levels) no failing branch of an errorful call returns a nil error —
				// the worker would record the item as fetched although its fetch failed
				c.fetchStepReportsFailures(g, name)
				ts := errTests(ev)
				cleanup := func(in ssa.Instruction) bool {
					cl, ok := in.(ssa.CallInstruction)
					if !ok {
						return false
					}
					if tt.isDelete(in) {
						return true
					}
					if h := cl.Common().StaticCallee(); h != nil && h.Pkg == w.Pkg {
						return c.reachesTaskDelete(tt, h, 0, map[*ssa.Function]bool{})
					}
					return false
				}
				if len(ts) == 0 {
					c.bad("Q1", consF, call.Pos(), fmt.Sprintf("the outcome of the fetch step is not distinguished: state %s is assigned whether or not the fetch succeeded, and it blocks AddHashToQueue/AddEntryToQueue forever (the lookup ignores the state). A hash whose fetch was cancelled or failed is never fetched again, even when announced again", name))
					return
				}
				for _, t := range ts {
					if len(t.Fail.Preds) != 1 {
						continue
					}
					if hit, tr := findPath(w, atBlock(t.Fail), cleanup, func(in ssa.Instruction) bool { _, ok := in.(*ssa.Return); return ok }, nil); hit != nil {
						c.bad("Q1", consF, hit.Pos(), fmt.Sprintf("when the fetch step fails (cancelled request, fetch error) the worker still ends by assigning state %s and nothing removes the entry: that state blocks AddHashToQueue/AddEntryToQueue forever (the lookup ignores the state), so the hash is never fetched again, even when announced again", name), c.trailStr(tr)...)
						return
					}
				}
				c.ok("Q1", consF, call.Pos(), "a failed fetch step reaches the removal of the task entry before the worker returns")
			})
		}
		if !checkedF {
			c.undecided("Q1", consF, at.Pos(), "the worker's fetch step was not identified")
		}
		// (ii) log rejected at join: the entry must be collected at load-end (whatever the buffer holds)
		okDel := false
		for _, f := range fns {
			emitsEnd := false
			eachCall(f, func(call ssa.CallInstruction) {
				if c.isEmitOf(call, "stores/replicator.EventLoadEnd") {
					emitsEnd = true
				}
			})
			if !emitsEnd || !c.reachesTaskDelete(tt, f, 0, map[*ssa.Function]bool{}) {
				continue
			}
			condOnBuffer := false
			eachInstr(f, func(in ssa.Instruction) {
				call, ok := in.(*ssa.Call)
				if !ok {
					return
				}
				if tt.isDelete(call) {
					for _, ft := range factsAt(call.Block()) {
						if lc, ok := ft.X.(*ssa.Call); ok && ft.Y != nil {
							if bi, ok := lc.Call.Value.(*ssa.Builtin); ok && bi.Name() == "len" && strings.Contains(nf(lc.Call.Args[0]), "buffer") {
								condOnBuffer = true
							}
						}
					}
				}
			})
			okDel = true
			if condOnBuffer {
				c.bad("Q1", consJ, at.Pos(), "terminal task entries are collected only when the fetched-log buffer is non-empty")
			} else {
				c.ok("Q1", consJ, at.Pos(), "terminal task entries are collected at load-end, so a hash whose log was rejected is fetched again when announced again")
			}
			break
		}
		if !okDel {
			// without collection the state is absorbing. That is harmless exactly as long as a
			// rejected log cannot contain a valid entry, i.e. while every fetch asks for one entry.
			if n, where, ok := c.fetchBatchSize(fns); ok && n == 1 {
				c.ok("Q1", consJ, at.Pos(), fmt.Sprintf("state %s is never collected, but every fetch asks for exactly one entry (%s): a log rejected at join holds only the rejected entry, so no valid entry is left blocked behind it", name, where))
				continue
			}
			c.bad("Q1", consJ, at.Pos(), fmt.Sprintf("a hash that was fetched stays in state %s forever (no removal at load-end, and the store has no way to report a rejected join back), and that state blocks AddHashToQueue/AddEntryToQueue: when the log holding it is rejected at join — for instance because it arrived in the same batch as a forged entry — the hash is never fetched again, even when honestly re-announced", name))
		}
	}
	c.floor("Q1", "terminal task states", len(tstates), 1)

	// --- Q2: a worker consumes or cleans up
	nW := 0
	for _, f := range fns {
		// worker: calls a dequeue wrapper (function that calls queue.Next) and is started by `go` next to an enqueue
		eachCall(f, func(call ssa.CallInstruction) {
			g := call.Common().StaticCallee()
			if g == nil {
				return
			}
			isDeq := false
			for _, d := range dequeueFns {
				if d == g {
					isDeq = true
				}
			}
			if !isDeq {
				return
			}
			if _, isGo := call.(*ssa.Go); isGo {
				return
			}
			nW++
			cons := fnKey(f) + "→" + g.Name() + "#failed"
			ev := errResult(call)
			if ev == nil {
				c.ok("Q2", cons, call.Pos(), "the dequeue step cannot fail")
				return
			}
			ts := errTests(ev)
			if len(ts) == 0 {
				c.bad("Q2", cons, call.Pos(), "the error of the slot wait is not tested")
				return
			}
			cleanup := func(in ssa.Instruction) bool {
				cl, ok := in.(ssa.CallInstruction)
				if !ok {
					return false
				}
				if tt.isDelete(in) {
					return true
				}
				if h := cl.Common().StaticCallee(); h != nil && h.Pkg == f.Pkg {
					return c.reachesTaskDelete(tt, h, 0, map[*ssa.Function]bool{})
				}
				return false
			}
			for _, t := range ts {
				if len(t.Fail.Preds) != 1 {
					continue
				}
				if hit, tr := findPath(f, atBlock(t.Fail), cleanup, func(in ssa.Instruction) bool { _, ok := in.(*ssa.Return); return ok }, nil); hit != nil {
					c.bad("Q2", cons, hit.Pos(), "when the wait for a fetch slot fails (request cancelled) the worker returns without dequeuing or removing the item it was started for: the item stays queued in state 'added', the replicator never becomes idle again, load-end never fires and the hash can never be re-queued", c.trailStr(tr)...)
					return
				}
			}
			c.ok("Q2", cons, call.Pos(), "a worker whose slot wait fails removes a queued item and its task entry before returning")
		})
	}
	c.floor("Q2", "worker dequeue sites", nW, 1)

	c.ruleG2()
	c.ruleL2(fns)
	c.ruleQ3Q4(fns)
}

// Q3 — an empty fetch is a failed fetch. DF7: the dependency's fetcher has no error result
// (entry.FetchParallel returns only the entries), so a cancelled request or an unavailable
// block shows up as a missing entry, never as an error. The fetch step must therefore test
// the fetched log's length and fail on zero before recording success.
// Q4 — the replicator's fetch sets no Timeout: under DF7 a timeout silently truncates the
// ancestry of a head that is then recorded as fetched (and, once in the log, never requested again).
func (c *Ctx) ruleQ3Q4(fns []*ssa.Function) {
	df7 := "true (assumed)"
	if obj := c.lookupObj(logMod + "/entry.FetchParallel"); obj != nil {
		if sig, ok := obj.Type().(*types.Signature); ok {
			hasErr := false
			for i := 0; i < sig.Results().Len(); i++ {
				if isErrorType(sig.Results().At(i).Type()) {
					hasErr = true
				}
			}
			if hasErr {
				df7 = "false: FetchParallel returns an error"
			} else {
				df7 = "true: entry.FetchParallel" + strings.TrimPrefix(sig.String(), "func") + " has no error result — a failed or cancelled fetch is a shorter result"
			}
		}
	}
	c.DepFacts["DF7"] = df7
	n := 0
	for _, f := range fns {
		eachCall(f, func(call ssa.CallInstruction) {
			if calleeFull(call) != logMod+".NewFromEntryHash" || call.Value() == nil {
				return
			}
			n++
			fk := fnKey(f)
			if strings.HasPrefix(df7, "false") {
				c.ok("Q3", fk+"→fetch#empty-is-failure", call.Pos(), "not needed: the fetcher reports errors (DF7 false)")
				c.ok("Q4", fk+"→fetch#no-timeout", call.Pos(), "not needed: the fetcher reports errors (DF7 false)")
				return
			}
			start, _, _ := okStart(call)
			d := derived([]ssa.Value{call.Value()}, flowOpts{throughCalls: true})
			// tests "length of the fetched log == 0" and the edge taken when it is empty
			var tests []*ssa.If
			emptyEdge := map[*ssa.If]int{}
			eachInstr(f, func(in ssa.Instruction) {
				bo, ok := in.(*ssa.BinOp)
				if !ok {
					return
				}
				var lenSide, other ssa.Value
				for _, pr := range [][2]ssa.Value{{bo.X, bo.Y}, {bo.Y, bo.X}} {
					if cl, ok := pr[0].(*ssa.Call); ok && d[cl] {
						isLen := methodName(cl) == "Len"
						if b, ok := cl.Call.Value.(*ssa.Builtin); ok && b.Name() == "len" {
							isLen = true
						}
						if isLen {
							lenSide, other = pr[0], pr[1]
						}
					}
				}
				if lenSide == nil {
					return
				}
				z, ok := constInt(other)
				if !ok {
					return
				}
				edge := -1
				lenFirst := bo.X == lenSide
				switch {
				case bo.Op == token.EQL && z == 0:
					edge = 0
				case bo.Op == token.NEQ && z == 0:
					edge = 1
				case lenFirst && bo.Op == token.GTR && z == 0, lenFirst && bo.Op == token.GEQ && z == 1:
					edge = 1
				case lenFirst && bo.Op == token.LSS && z == 1, lenFirst && bo.Op == token.LEQ && z == 0:
					edge = 0
				case !lenFirst && bo.Op == token.LSS && z == 0, !lenFirst && bo.Op == token.LEQ && z == 1:
					edge = 1
				}
				if edge < 0 {
					return
				}
				for _, r := range *bo.Referrers() {
					if iff, ok := r.(*ssa.If); ok {
						tests = append(tests, iff)
						emptyEdge[iff] = edge
					}
				}
			})
			cons := fk + "→fetch#empty-is-failure"
			if len(tests) == 0 && c.emptyFetchHandledElsewhere(f, fns, call, d) {
				c.ok("Q3", cons, call.Pos(), "the emptiness of the fetched log is tested by a function given the log (or by every caller of this fetch wrapper), and an empty result makes the fetch step fail")
			} else if len(tests) == 0 {
				c.bad("Q3", cons, call.Pos(), "the fetch step records success without looking at what was fetched. The fetcher has no error result (DF7): a request cancelled in the middle of a fetch, or an unavailable block, yields an EMPTY log and a nil error, the hash is then marked fetched and every later request for the same head is skipped")
			} else {
				// following the empty edge, a non-failing return must be unreachable; and every success return passes a test
				viol := false
				for _, iff := range tests {
					s := iff.Block().Succs[emptyEdge[iff]]
					if hit, tr := findPath(f, atBlock(s), nil, successReturn, nil); hit != nil && branchCovers(s, hit.Block()) {
						viol = true
						c.bad("Q3", cons, hit.Pos(), "the branch taken when nothing was fetched still returns success", c.trailStr(tr)...)
					}
				}
				isTest := func(in ssa.Instruction) bool {
					for _, iff := range tests {
						if in == ssa.Instruction(iff) {
							return true
						}
					}
					return false
				}
				if hit, tr := findPath(f, start, isTest, successReturn, nil); hit != nil {
					viol = true
					c.bad("Q3", cons, hit.Pos(), "a successful return of the fetch step skips the emptiness test of the fetched log", c.trailStr(tr)...)
				}
				if !viol {
					c.ok("Q3", cons, call.Pos(), "an empty fetch result leaves the fetch step with an error, so the hash is not recorded as fetched")
				}
			}
			// Q4
			cons = fk + "→fetch#no-timeout"
			var fo ssa.Value
			for _, a := range call.Common().Args {
				if p, ok := a.Type().(*types.Pointer); ok && strings.HasSuffix(typeStr(p.Elem()), "FetchOptions") {
					fo = a
				}
			}
			if v, ok := structLitFields(fo)["Timeout"]; ok {
				if z, isK := constInt(v); !isK || z != 0 {
					c.bad("Q4", cons, call.Pos(), "the replicator bounds its fetches with a Timeout. The fetcher has no error result (DF7): when the time is up the ancestry fetched so far is returned as if complete, the hash is marked fetched, its links are never queued, and once the head is in the log a re-announcement is ignored — entries that were unreachable for longer than the timeout are never replicated, even after every link is healed")
					return
				}
			}
			c.ok("Q4", cons, call.Pos(), "replicator fetches are not time-bounded (they end when the blocks arrive or the request is cancelled)")
		})
	}
	c.floor("Q3", "replicator fetch steps", n, 1)
	// Q4, load path: the same holds for the fetches that rebuild the log from the cached heads.
	// The time-out of go-ipfs-log bounds the whole traversal, not one block; when it is up the
	// fetcher returns what it has with no error (DF7), Load returns nil and the log it shows is
	// truncated and not closed under ancestry.
	if !strings.HasPrefix(df7, "false") {
		for _, f := range c.fnsInPkg("stores/basestore") {
			if c.isTestFile(f.Pos()) {
				continue
			}
			k := 0
			eachCall(f, func(call ssa.CallInstruction) {
				if calleeFull(call) != logMod+".NewFromEntryHash" {
					return
				}
				cons := fmt.Sprintf("%s→fetch#no-timeout#%d", fnKey(f), k)
				k++
				var fo ssa.Value
				for _, a := range call.Common().Args {
					if p, ok := a.Type().(*types.Pointer); ok && strings.HasSuffix(typeStr(p.Elem()), "FetchOptions") {
						fo = a
					}
				}
				if v, ok := structLitFields(fo)["Timeout"]; ok {
					if z, isK := constInt(v); !isK || z != 0 {
						c.bad("Q4", cons, call.Pos(), "the load path bounds the fetch of a cached head's history with a Timeout. The fetcher has no error result (DF7) and the time-out bounds the whole traversal: on a slow repository or a long history the ancestry fetched so far is returned as if complete, Load returns nil, and the log it shows misses acknowledged entries and is not closed under ancestry")
						return
					}
				}
				c.ok("Q4", cons, call.Pos(), "the fetch of a cached head's history is not time-bounded")
			})
		}
	}
}

// G2: progress consumers drain until close.
func (c *Ctx) ruleG2() {
	n := 0
	for _, f := range c.RepoFns {
		if c.isTestFile(f.Pos()) {
			continue
		}
		// channels stored into FetchOptions.ProgressChan
		var chans []ssa.Value
		eachInstr(f, func(in ssa.Instruction) {
			st, ok := in.(*ssa.Store)
			if !ok {
				return
			}
			if fa, ok := st.Addr.(*ssa.FieldAddr); ok && fieldName(fa.X.Type(), fa.Field) == "ProgressChan" {
				chans = append(chans, st.Val)
			}
		})
		if len(chans) == 0 {
			continue
		}
		// the cell(s) the channel lives in (captured variable) → closures reading it
		host := topLevel(f)
		// candidate consumers: function literals started with go, and methods / functions
		// started with go from the host (or one of its literals)
		var cands []*ssa.Function
		// the channel may be created, and its consumer started, by the caller of the function
		// that hands it to the fetcher
		hosts := []*ssa.Function{host}
		for _, q := range c.RepoFns {
			if c.isTestFile(q.Pos()) {
				continue
			}
			eachCall(q, func(call ssa.CallInstruction) {
				if call.Common().StaticCallee() == host && topLevel(q) != host {
					hosts = append(hosts, topLevel(q))
				}
			})
		}
		var scope []*ssa.Function
		seenHost := map[*ssa.Function]bool{}
		for _, h := range hosts {
			if !seenHost[h] {
				seenHost[h] = true
				scope = append(scope, withClosures(h)...)
			}
		}
		// … or by a same-package function the host calls to set the channel up
		for _, h := range append([]*ssa.Function{}, scope...) {
			eachCall(h, func(call ssa.CallInstruction) {
				if _, isGo := call.(*ssa.Go); isGo {
					return
				}
				if g := call.Common().StaticCallee(); g != nil && g.Blocks != nil && g.Pkg == h.Pkg && !seenHost[topLevel(g)] {
					seenHost[topLevel(g)] = true
					scope = append(scope, withClosures(topLevel(g))...)
				}
			})
		}
		for _, g := range scope {
			if g.Parent() != nil {
				if spawn, _ := c.goSpawnOf(g); spawn != nil {
					cands = append(cands, g)
					// a literal that only wraps the consumer (signals its end, then calls it)
					eachCall(g, func(call ssa.CallInstruction) {
						if _, isGo := call.(*ssa.Go); isGo {
							return
						}
						if h := call.Common().StaticCallee(); h != nil && h.Blocks != nil && h.Pkg != nil && inRepo(h.Pkg.Pkg) && h.Parent() == nil {
							cands = append(cands, h)
						}
					})
				}
			}
			eachInstr(g, func(in ssa.Instruction) {
				if gi, ok := in.(*ssa.Go); ok {
					if h := gi.Call.StaticCallee(); h != nil && h.Blocks != nil && h.Pkg != nil && inRepo(h.Pkg.Pkg) && h.Parent() == nil {
						cands = append(cands, h)
					}
				}
			})
		}
		seenCand := map[*ssa.Function]bool{}
		for _, g := range cands {
			if seenCand[g] {
				continue
			}
			seenCand[g] = true
			// does g receive from a progress channel?
			var recvCh ssa.Value
			var sel *ssa.Select
			eachInstr(g, func(in ssa.Instruction) {
				s, ok := in.(*ssa.Select)
				if !ok {
					return
				}
				for _, stt := range s.States {
					if stt.Dir == types.RecvOnly && isProgressChan(stt.Chan) {
						recvCh, sel = stt.Chan, s
					}
				}
			})
			plainRecv := false
			eachInstr(g, func(in ssa.Instruction) {
				if u, ok := in.(*ssa.UnOp); ok && u.Op == token.ARROW && isProgressChan(u.X) {
					plainRecv = true
				}
				if r, ok := in.(*ssa.Range); ok && isProgressChan(r.X) {
					plainRecv = true
				}
			})
			if recvCh == nil && !plainRecv {
				continue
			}
			n++
			cons := fnKey(g) + "#progress-consumer"
			if sel == nil {
				c.ok("G2", cons, g.Pos(), "the progress consumer receives unconditionally until the channel is closed")
				continue
			}
			// a Done() arm that leaves without draining
			viol := false
			for k, stt := range sel.States {
				if stt.Dir != types.RecvOnly || !isDoneChan(stt.Chan) {
					continue
				}
				// block taken when index == k
				for _, r := range *sel.Referrers() {
					ex, ok := r.(*ssa.Extract)
					if !ok || ex.Index != 0 {
						continue
					}
					for _, u := range *ex.Referrers() {
						bo, ok := u.(*ssa.BinOp)
						if !ok || bo.Op != token.EQL {
							continue
						}
						if kk, ok := constInt(bo.Y); !ok || int(kk) != k {
							continue
						}
						for _, ur := range *bo.Referrers() {
							iff, ok := ur.(*ssa.If)
							if !ok {
								continue
							}
							arm := iff.Block().Succs[0]
							via := func(in ssa.Instruction) bool { return in == ssa.Instruction(sel) }
							if hit, tr := findPath(g, atBlock(arm), via, func(in ssa.Instruction) bool { _, ok := in.(*ssa.Return); return ok }, nil); hit != nil {
								viol = true
								c.bad("G2", cons, stt.Pos, "the goroutine draining the fetch-progress channel returns on ctx.Done() while the fetcher may still send on that unbuffered channel outside any select (DF4): a cancellation between a fetch and its progress report leaves the fetcher blocked forever, holding the join mutex (Load) or a fetch slot (replicator)", c.trailStr(tr)...)
							}
						}
					}
				}
			}
			if !viol {
				c.ok("G2", cons, g.Pos(), "the progress consumer has no exit other than channel close")
			}
		}
	}
	c.floor("G2", "progress consumers", n, 2)
	c.DepFacts["DF4"] = c.depFactProgressSend()
}

func isProgressChan(v ssa.Value) bool {
	s := nf(v)
	t, ok := v.Type().Underlying().(*types.Chan)
	if !ok {
		return false
	}
	_ = s
	return strings.HasSuffix(typeStr(t.Elem()), "iface.IPFSLogEntry")
}

func isDoneChan(v ssa.Value) bool {
	call, ok := v.(*ssa.Call)
	return ok && methodName(call) == "Done"
}

// depFactProgressSend: the fetcher sends on ProgressChan outside a select.
func (c *Ctx) depFactProgressSend() string {
	for _, f := range ssaFuncsOfPkg(c, logMod+"/entry") {
		res := ""
		for _, g := range withClosures(f) {
			eachInstr(g, func(in ssa.Instruction) {
				if s, ok := in.(*ssa.Send); ok && strings.Contains(nf(s.Chan), "rogress") {
					res = "true: " + fnKey(g) + " sends on the progress channel with a plain (blocking) send at " + c.pos(s.Pos())
				}
			})
		}
		if res != "" {
			return res
		}
	}
	return "true (assumed; the send was not located in the loaded dependency)"
}

// L2: ancestry is followed.
func (c *Ctx) ruleL2(fns []*ssa.Function) {
	n := 0
	byFn := c.fetchedLogsByFn(fns)
	for _, f := range fns {
		fetched := byFn[f]
		if len(fetched) == 0 {
			continue
		}
		n++
		fk := fnKey(f)
		d := derived(fetched, flowOpts{throughCalls: true})
		// GetNext() on entries of the fetched log, flowing into a returned slice
		var nexts []ssa.Value
		eachCall(f, func(call ssa.CallInstruction) {
			if methodName(call) == "GetNext" && call.Common().IsInvoke() && d[call.Common().Value] && call.Value() != nil {
				nexts = append(nexts, call.Value())
			}
		})
		// the links may be collected by a same-package function given the fetched log
		eachCall(f, func(call ssa.CallInstruction) {
			h := call.Common().StaticCallee()
			if h == nil || h.Blocks == nil || h.Pkg != f.Pkg || call.Value() == nil {
				return
			}
			var ps []ssa.Value
			for i, a := range call.Common().Args {
				if d[a] && i < len(h.Params) {
					ps = append(ps, h.Params[i])
				}
			}
			if len(ps) == 0 {
				return
			}
			dh := derived(ps, flowOpts{throughCalls: true})
			var hn []ssa.Value
			eachCall(h, func(ic ssa.CallInstruction) {
				if methodName(ic) == "GetNext" && ic.Common().IsInvoke() && dh[ic.Common().Value] && ic.Value() != nil {
					hn = append(hn, ic.Value())
				}
			})
			if len(hn) == 0 {
				return
			}
			dr := derived(hn, flowOpts{})
			eachInstr(h, func(in ssa.Instruction) {
				if r, ok := in.(*ssa.Return); ok {
					for _, v := range r.Results {
						if dr[v] {
							nexts = append(nexts, call.Value())
						}
					}
				}
			})
		})
		if len(nexts) == 0 {
			c.bad("L2", fk+"#next-links", f.Pos(), "the hashes handed back after fetching a log do not include the fetched entries' next links: the ancestry of an announced head is never requested")
			continue
		}
		dn := derived(nexts, flowOpts{})
		ret := false
		eachInstr(f, func(in ssa.Instruction) {
			if r, ok := in.(*ssa.Return); ok {
				for _, v := range r.Results {
					if dn[v] {
						ret = true
					}
				}
			}
		})
		if !ret {
			c.bad("L2", fk+"#next-links", f.Pos(), "the next links of fetched entries are read but not returned to the caller that queues them")
			continue
		}
		// the loop reading GetNext must cover every entry: it ranges over Values()/GetEntries() of the fetched log
		c.ok("L2", fk+"#next-links", f.Pos(), "every fetched entry contributes its next links to the hashes handed back")
		// callers queue what is returned
		for _, g := range fns {
			eachCall(g, func(call ssa.CallInstruction) {
				if call.Common().StaticCallee() != f || call.Value() == nil {
					return
				}
				dr := derived([]ssa.Value{call.Value()}, flowOpts{intoClosures: true})
				queued := false
				var scope []*ssa.Function
				for _, gc := range withClosures(topLevel(g)) {
					scope = append(scope, gc)
				}
				for _, gc := range scope {
					eachCall(gc, func(q ssa.CallInstruction) {
						h := q.Common().StaticCallee()
						if h == nil {
							return
						}
						enq := c.reachesStatic(h, func(a ssa.CallInstruction) bool {
							m := a.Common().StaticCallee()
							return m != nil && m.Name() == "Add" && m.Signature.Recv() != nil && strings.Contains(typeStr(m.Signature.Recv().Type()), "processQueue")
						}, 0)
						if !enq {
							return
						}
						for _, a := range q.Common().Args {
							if dr[a] {
								queued = true
							}
						}
					})
				}
				cons := fnKey(g) + "→" + f.Name() + "#queue-links"
				if queued {
					c.ok("L2", cons, call.Pos(), "the returned links are handed to the queue")
				} else {
					c.bad("L2", cons, call.Pos(), "the links returned by the fetch step are not queued: only announced heads would ever be fetched, never their ancestors")
				}
			})
		}
	}
	c.floor("L2", "fetch steps (NewFromEntryHash in the replicator)", n, 1)
}

// emptyTestsIn: the tests "this log is empty" in g on values of d, with the successor taken
// when it is empty; ok when every such edge cannot reach a successful return and every
// successful return of g passes one of the tests.
func (c *Ctx) emptyIsFailureIn(g *ssa.Function, d map[ssa.Value]bool) bool {
	type et struct {
		iff  *ssa.If
		edge int
	}
	var tests []et
	eachInstr(g, func(in ssa.Instruction) {
		bo, ok := in.(*ssa.BinOp)
		if !ok {
			return
		}
		var other ssa.Value
		lenFirst := false
		for _, pr := range [][2]ssa.Value{{bo.X, bo.Y}, {bo.Y, bo.X}} {
			cl, ok := pr[0].(*ssa.Call)
			if !ok {
				continue
			}
			isLen := methodName(cl) == "Len" && cl.Common().IsInvoke() && d[cl.Common().Value]
			if b, ok := cl.Call.Value.(*ssa.Builtin); ok && b.Name() == "len" && len(cl.Call.Args) == 1 && d[cl.Call.Args[0]] {
				isLen = true
			}
			if isLen {
				other = pr[1]
				lenFirst = pr[0] == bo.X
			}
		}
		if other == nil {
			return
		}
		z, ok := constInt(other)
		if !ok {
			return
		}
		edge := -1
		switch {
		case bo.Op == token.EQL && z == 0:
			edge = 0
		case bo.Op == token.NEQ && z == 0:
			edge = 1
		case lenFirst && bo.Op == token.GTR && z == 0, lenFirst && bo.Op == token.GEQ && z == 1:
			edge = 1
		case lenFirst && bo.Op == token.LSS && z == 1, lenFirst && bo.Op == token.LEQ && z == 0:
			edge = 0
		}
		if edge < 0 {
			return
		}
		for _, r := range *bo.Referrers() {
			if iff, ok := r.(*ssa.If); ok {
				tests = append(tests, et{iff, edge})
			}
		}
	})
	if len(tests) == 0 {
		return false
	}
	for _, t := range tests {
		sc := t.iff.Block().Succs[t.edge]
		if hit, _ := findPath(g, atBlock(sc), nil, successReturn, nil); hit != nil && branchCovers(sc, hit.Block()) {
			return false
		}
	}
	isTest := func(in ssa.Instruction) bool {
		for _, t := range tests {
			if in == ssa.Instruction(t.iff) {
				return true
			}
		}
		return false
	}
	hit, _ := findPath(g, entry, isTest, successReturn, nil)
	return hit == nil
}

// emptyCheckedIn: g tests the emptiness of a log of d itself, or hands it to a same-package
// function that does and leaves on that function's error.
func (c *Ctx) emptyCheckedIn(g *ssa.Function, d map[ssa.Value]bool) bool {
	if c.emptyIsFailureIn(g, d) {
		return true
	}
	found := false
	eachCall(g, func(call ssa.CallInstruction) {
		if found {
			return
		}
		if _, isGo := call.(*ssa.Go); isGo {
			return
		}
		h := call.Common().StaticCallee()
		if h == nil || h.Blocks == nil || h.Pkg != g.Pkg {
			return
		}
		var ps []ssa.Value
		for i, a := range call.Common().Args {
			if d[a] && i < len(h.Params) {
				ps = append(ps, h.Params[i])
			}
		}
		if len(ps) == 0 {
			return
		}
		ev := errResult(call)
		if ev == nil || !(returnedDirectly(ev) || len(errTests(ev)) > 0) {
			return
		}
		if c.emptyIsFailureIn(h, derived(ps, flowOpts{throughCalls: true})) {
			found = true
		}
	})
	return found
}

// emptyFetchHandledElsewhere: the function that fetches hands the log to a checker, or only
// returns it and every caller checks it.
func (c *Ctx) emptyFetchHandledElsewhere(f *ssa.Function, fns []*ssa.Function, call ssa.CallInstruction, d map[ssa.Value]bool) bool {
	if c.emptyCheckedIn(f, d) {
		return true
	}
	byFn := c.fetchedLogsByFn(fns)
	for _, v := range byFn[f] {
		if v == call.Value() {
			return false // worked on here, and not checked here
		}
	}
	// attributed to callers: every one of them must check
	sites, okAll := 0, true
	for _, g := range fns {
		for _, v := range byFn[g] {
			vc, ok := v.(*ssa.Call)
			if !ok || vc.Call.StaticCallee() != f {
				continue
			}
			sites++
			if !c.emptyCheckedIn(g, derived([]ssa.Value{v}, flowOpts{throughCalls: true})) {
				okAll = false
			}
		}
	}
	return sites > 0 && okAll
}

// fetchedLogsByFn: where fetched logs are worked on. A log fetched by NewFromEntryHash is
// attributed to the function that calls it, unless that function only hands it back (a
// fetch wrapper): then it is attributed to each caller, as the value of the call.
func (c *Ctx) fetchedLogsByFn(fns []*ssa.Function) map[*ssa.Function][]ssa.Value {
	out := map[*ssa.Function][]ssa.Value{}
	var place func(f *ssa.Function, v ssa.Value, depth int)
	place = func(f *ssa.Function, v ssa.Value, depth int) {
		d := derived([]ssa.Value{v}, flowOpts{})
		returned := false
		eachInstr(f, func(in ssa.Instruction) {
			r, ok := in.(*ssa.Return)
			if !ok {
				return
			}
			for _, rv := range r.Results {
				// only the log itself counts, not an error or a count derived from the same call
				if t := typeStr(rv.Type()); !strings.HasSuffix(t, "go-ipfs-log.Log") && !strings.HasSuffix(t, "iface.IPFSLog") {
					continue
				}
				if d[rv] {
					returned = true
				}
				for _, x := range resolveSpill(rv) {
					if d[x] {
						returned = true
					}
				}
			}
		})
		if !returned || depth >= 2 {
			out[f] = append(out[f], v)
			return
		}
		placed := false
		for _, g := range fns {
			eachCall(g, func(call ssa.CallInstruction) {
				if _, isCall := call.(*ssa.Call); !isCall || call.Common().StaticCallee() != f || call.Value() == nil {
					return
				}
				placed = true
				place(g, call.Value(), depth+1)
			})
		}
		if !placed {
			out[f] = append(out[f], v)
		}
	}
	for _, f := range fns {
		eachCall(f, func(call ssa.CallInstruction) {
			if calleeFull(call) == logMod+".NewFromEntryHash" && call.Value() != nil {
				place(f, call.Value(), 0)
			}
		})
	}
	return out
}

// fetchBatchSize resolves the FetchOptions.Length handed to NewFromEntryHash in the
// replicator: the address of a package variable initialised to a constant and never
// reassigned, or of a local holding a constant.
func (c *Ctx) fetchBatchSize(fns []*ssa.Function) (int64, string, bool) {
	var res int64
	where := ""
	found, okAll := false, true
	for _, f := range fns {
		eachCall(f, func(call ssa.CallInstruction) {
			if calleeFull(call) != logMod+".NewFromEntryHash" {
				return
			}
			for _, a := range call.Common().Args {
				p, ok := a.Type().(*types.Pointer)
				if !ok || !strings.HasSuffix(typeStr(p.Elem()), "FetchOptions") {
					continue
				}
				l, ok := structLitFields(a)["Length"]
				if !ok {
					okAll = false
					return
				}
				g, ok := l.(*ssa.Global)
				if !ok {
					okAll = false
					return
				}
				// initial value and other writers
				var initVal *int64
				writers := 0
				for _, fn := range append(append([]*ssa.Function{}, c.RepoFns...), g.Pkg.Func("init")) {
					if fn == nil {
						continue
					}
					eachInstr(fn, func(in ssa.Instruction) {
						st, ok := in.(*ssa.Store)
						if !ok || st.Addr != ssa.Value(g) {
							return
						}
						if fn.Name() == "init" && fn.Parent() == nil {
							if k, ok := constInt(st.Val); ok {
								initVal = &k
								return
							}
						}
						writers++
					})
				}
				if initVal == nil || writers > 0 {
					okAll = false
					return
				}
				found = true
				res = *initVal
				where = "Length: &" + g.Name() + ", a package variable initialised to " + fmt.Sprint(*initVal) + " and never reassigned"
			}
		})
	}
	return res, where, found && okAll
}


// fetchStepReportsFailures: Q1 clause. In the worker's fetch step g and its synchronous same-package
// callees (two levels) that return an error, a return of a constant nil error placed inside the
// failing branch of an errorful call (dominated by it) turns a failed fetch into a success.
func (c *Ctx) fetchStepReportsFailures(g *ssa.Function, state string) {
	seen := map[*ssa.Function]bool{}
	var walk func(h *ssa.Function, d int)
	walk = func(h *ssa.Function, d int) {
		if h == nil || h.Blocks == nil || seen[h] || d > 2 || h.Pkg != g.Pkg {
			return
		}
		res := h.Signature.Results()
		if res.Len() == 0 || !isErrorType(res.At(res.Len()-1).Type()) {
			return
		}
		seen[h] = true
		cons := "tasks#" + state + "-after-failed-fetch#reported-by@" + fnKey(h)
		var bad ssa.Instruction
		n := 0
		eachCall(h, func(call ssa.CallInstruction) {
			if _, isGo := call.(*ssa.Go); isGo {
				return
			}
			if _, isDefer := call.(*ssa.Defer); isDefer {
				return
			}
			ev := errResult(call)
			if ev == nil {
				return
			}
			n++
			for _, t := range errTests(ev) {
				if len(t.Fail.Preds) != 1 {
					continue
				}
				for _, b := range h.Blocks {
					if !t.Fail.Dominates(b) || len(b.Instrs) == 0 {
						continue
					}
					r, ok := b.Instrs[len(b.Instrs)-1].(*ssa.Return)
					if !ok || len(r.Results) == 0 {
						continue
					}
					if k, ok := r.Results[len(r.Results)-1].(*ssa.Const); ok && k.IsNil() && bad == nil {
						bad = r
					}
				}
			}
			walk(call.Common().StaticCallee(), d+1)
		})
		if n == 0 {
			return
		}
		if bad != nil {
			c.bad("Q1", cons, bad.Pos(), fmt.Sprintf("inside the worker's fetch step a failing branch returns a nil error: the worker then records the item in state %s as if it had been fetched, and that state blocks AddHashToQueue/AddEntryToQueue (the lookup ignores the state) — a hash whose fetch was cancelled or failed is never fetched again, even when announced again after the peers reconnect", state))
		} else {
			c.ok("Q1", cons, h.Pos(), fmt.Sprintf("no failing branch of the %d errorful call(s) in this part of the fetch step returns a nil error", n))
		}
	}
	walk(g, 0)
}


// cleanupNotLimitedToOneState: Q1 clause. Workers give items up in more than one non-terminal state
// (queued but not yet claimed; claimed and being fetched). A removal from the task table that is
// only performed when the looked-up state equals ONE non-terminal state leaves the entries given
// up in the other state behind: they block the enqueue functions and keep the replicator from
// ever being idle again.
func (c *Ctx) cleanupNotLimitedToOneState(tt *taskTable, fns []*ssa.Function, terminal map[int64]ssa.Instruction) {
	nonTerminal := 0
	for s := range tt.states {
		if _, t := terminal[s]; !t {
			nonTerminal++
		}
	}
	fromTable := func(v ssa.Value) bool {
		for a := range valueAliases(v) {
			if e, ok := a.(*ssa.Extract); ok {
				a = e.Tuple
			}
			if lk, ok := a.(*ssa.Lookup); ok && tt.isTable(lk.X) {
				return true
			}
		}
		return false
	}
	for _, f := range fns {
		for _, g := range withClosures(f) {
			eachInstr(g, func(in ssa.Instruction) {
				call, ok := in.(ssa.CallInstruction)
				if !ok {
					return
				}
				b, ok := call.Common().Value.(*ssa.Builtin)
				if !ok || b.Name() != "delete" || len(call.Common().Args) != 2 || !tt.isTable(call.Common().Args[0]) {
					return
				}
				cons := "tasks[]#removal-not-limited-to-one-non-terminal-state@" + fnKey(g)
				limited := ""
				for _, ft := range factsAt(in.Block()) {
					if ft.Op != token.EQL || ft.X == nil || ft.Y == nil {
						continue
					}
					x, y := ft.X, ft.Y
					if _, ok := x.(*ssa.Const); ok {
						x, y = y, x
					}
					k, ok := y.(*ssa.Const)
					if !ok || k.Value == nil || !fromTable(x) {
						continue
					}
					sv := k.Int64()
					if _, isTerm := terminal[sv]; isTerm {
						continue
					}
					if name, known := tt.states[sv]; known && nonTerminal > 1 {
						limited = name
					}
				}
				if limited != "" {
					c.bad("Q1", cons, in.Pos(), fmt.Sprintf("the task entry is removed only when its state is %s, but items are also given up in the other non-terminal state (a worker cancelled while waiting for a slot drops an item that was queued and never claimed): that entry stays in the table, blocks AddHashToQueue/AddEntryToQueue for its hash and keeps the idle test false — later loads of the same head are skipped and never end", limited))
				} else {
					c.ok("Q1", cons, in.Pos(), "the removal does not depend on the entry being in one particular non-terminal state")
				}
			})
		}
	}
}
