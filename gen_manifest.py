#!/usr/bin/env python3
"""Generates MANIFEST.json from the property table (kept in one place so that the file stays valid)."""
import json, subprocess, sys

BASELINE_OFF = "for m in $(cat /w/out/gomods.txt); do MF=$(cd /repo/$m && . /w/out/goenv.sh && gomodflag); (cd /repo/$m && go test $MF -json -vet=off -count=1 -timeout 25m ./...); done"

LEVEL_TEXT = {
 "C01": "Decides, for every index implementation, merge site and write path of the current source, the repo-side necessary conditions of order independence (view = function of the log's total order, coherent last-writer-wins scan, opcode tables agree, every merge refreshes the view). Tests sample a few delivery orders; these conditions are checked on all paths and all implementations. Convergence of the CRDT itself lives in go-ipfs-log and is not decided.",
 "C02": "Decides the wiring without which no schedule can deliver every write (join→exchange reachability, cached heads flow into the sent message, key agreement, next links queued, persisted head atomic with its write). Liveness under faults is a runtime quantity and is not decided.",
 "C03": "Decides, over all access-controller implementations and all paths of CanAppend, membership + verification + key binding, and that every log is built with the store's controller and fed only through Append/Join. Cryptographic strength is not decided.",
 "C04": "Whole-repo taint: no entry object received from the network reaches a log constructor, entry map or Join; only content addresses do. What Join verifies is the dependency's business.",
 "C05": "Must-pass-through over every path: persistence (with tested error) precedes acknowledgement/announcement; writer/reader key tables agree. Crash-prefix states are not decided.",
 "C06": "Index-shape rules for the key-value store on all paths (scan direction vs guard, key identity by normal form, opcode effects). Causal order is the dependency's.",
 "C07": "Same for the document store including batch puts, plus Delete's presence test dominating the append. Get/Query string semantics not decided.",
 "C08": "Listing = total order; in-place reversal only on a private copy. Exact windows need integer reasoning over positions (solver territory) and are not decided.",
 "C09": "All subscriptions to store-scoped events and both heads receive paths are examined: each must filter/route by database address or use a private bus.",
 "C10": "Loop-shape and task-table rules: a rejected log neither leaves the batch loop nor blocks re-queuing forever.",
 "C11": "Worker/cleanup pairing and progress-drain rules on all paths of the replicator's worker and of both progress consumers.",
 "C12": "Every allocation sized from a stream, every dereference of a decoded pointer, every boxing of a decoded head is checked for a dominating bound / nil test; tests cannot enumerate byte strings.",
 "C13": "Range guards on both 16-bit prefixes, allocation/fill agreement, writer/loader codec agreement. Round-trip equality is not decided.",
 "C14": "Purity of the address cone, prefix agreement, guards dominate effects, manifest is the source of type and controller. Injectivity of content addresses is not decided.",
 "C15": "At every Join site the size is -1 or provably positive and bounded by the receiving log's length on all paths; the dependency's unguarded slice is re-derived.",
 "C16": "Ordering of effects vs events on all paths, exactly-one emission, emitter/value type agreement, single bus, single ordered sender.",
 "C17": "Lockset analysis: Append and the persisting Put share an exclusive critical section.",
 "C18": "Every go statement, subscription, emitter, lock-holding call site and condition variable of the repo is classified; Close/Drop reachability and idempotence guards are checked.",
 "C19": "Exhaustive abstract execution of the status helpers over all order types of their inputs: finite and complete, no sampling.",
 "C20": "Self-filter on all three read loops, sorted pair for the channel name, codec agreement, bounded and fully-read frames attributed to the remote peer.",
}

def main():
    props = [json.loads(l) for l in open('/verif/properties.jsonl')]
    checks = []
    for p in props:
        pid = p['id']
        checks.append({
            "property_id": pid,
            "quick_cmd": f"bin/odbcheck -property {pid} -tier quick",
            "thorough_cmd": f"bin/odbcheck -property {pid} -tier thorough",
            "evidence_file": f"/verif/evidence/{pid}.json",
            "replay_cmd_template": "bin/odbcheck -explain {path}",
            "engine": "odbcheck",
            "level_claimed": {
                "category": "other",
                "text": "Static analysis of the current source (type-checked syntax, SSA, CFG dominance, locksets, value flow, call graph). " + LEVEL_TEXT[pid] + " Level 'other': the enumerated structural obligations, each a necessary condition of the property, hold on every path / call site / implementation; this is weaker than the behavioural property and says so.",
                "design_ref": "DESIGN.md section 4 (" + pid + ") and section 3 (rule catalogue)",
            },
            "level_note": "Trusted: go/packages+go/types+go/ssa of golang.org/x/tools v0.29.0; the pinned dependencies behave as their source says (facts used are re-derived each run and recorded in the evidence); lock identity by (type, field); flow followed intra-procedurally, into closures and a bounded depth of repo callees. Not decided: see the NOT DECIDED part of coverage.explanation in the evidence and DESIGN.md section 4.",
            "technique": "static analysis: custom go/ssa checker (CFG must-pass-through, dominance facts, lockset, taint/value-flow, call-graph reachability, order-type abstract execution) with overlay positive/negative controls",
        })
    man = {
        "version": 1,
        "setup_cmd": "mkdir -p bin evidence && cd checker && GOFLAGS=-mod=mod GOPROXY=off GOSUMDB=off GOTOOLCHAIN=local GOWORK=off go build -o ../bin/odbcheck .",
        "hooks": {
            "guard": "verif",
            "enable": "none needed: the checks read the source of /repo, nothing is built with hooks; positive/negative controls are laid over the packages in memory (go/packages Overlay) and never written to /repo",
            "baseline_off_cmd": BASELINE_OFF,
            "source_commits": [],
            "add_only": True,
        },
        "engines": [{
            "name": "odbcheck",
            "path": "/verif/checker",
            "serves_properties": [p['id'] for p in props],
            "kind_free_text": "repository-specific static analyser in Go over golang.org/x/tools go/packages + go/ssa; one binary, one rule set per property; evidence and replay files written by the binary",
        }],
        "checks": checks,
        "notes": "Every check analyses /repo's working tree at the time it runs (go/packages load of ./... with GOFLAGS=-mod=mod GOPROXY=off). known_findings.json lists genuine defects recorded rather than repaired, keyed by (property, rule, construct). seeded/ holds independently written breaking changes used to test the checks.",
        "not_applicable": [],
    }
    json.dump(man, open('/verif/MANIFEST.json', 'w'), indent=1)
    print("MANIFEST.json written:", len(checks), "checks")

main()
