#!/usr/bin/env python3
"""Prints the markdown table of DESIGN.md section 9 from seeded/*/meta.json (not a registered check)."""
import json, os, re
root = '/verif/seeded'
def key(n):
    m = re.match(r'(C\d+)-(r2|r3|r4|r5|r6|r7)?m(\d+)(p?)', n)
    return (m.group(2) or '', m.group(1), int(m.group(3)))
rows = {'': [], 'r2': [], 'r3': [], 'r4': [], 'r5': [], 'r6': [], 'r7': []}
for n in sorted(os.listdir(root), key=key):
    mp = os.path.join(root, n, 'meta.json')
    if not os.path.exists(mp):
        continue
    m = json.load(open(mp))
    rnd = 'r7' if '-r7' in n else 'r6' if '-r6' in n else 'r5' if '-r5' in n else 'r4' if '-r4' in n else ('r3' if '-r3' in n else ('r2' if '-r2' in n else ''))
    if m.get('expected') == 'missed':
        res = '**missed** — ' + m.get('miss_reason', '')
    else:
        res = 'caught by ' + ', '.join(m.get('caught_by_rules', [])) + ' (' + ', '.join(m.get('detected_by_properties', [])) + ')'
    if m.get('note'):
        res += ' — ' + m['note']
    rows[rnd].append(f"| {n} | {m.get('needs_to_manifest','')} | {res} |")
for rnd, title in (('', 'Round 1'), ('r2', 'Round 2'), ('r3', 'Round 3'), ('r4', 'Round 4'), ('r5', 'Round 5'), ('r6', 'Round 6'), ('r7', 'Round 7')):
    print(f"**{title}**\n")
    print("| seed | needs, in order to manifest | result |\n|---|---|---|")
    print('\n'.join(rows[rnd]))
    print()
