ENV=GOFLAGS=-mod=mod GOPROXY=off GOSUMDB=off GOTOOLCHAIN=local GOWORK=off
build:
	mkdir -p bin evidence && cd checker && $(ENV) go build -o ../bin/odbcheck .
quick: build
	@for p in $$(python3 -c "import json;[print(json.loads(l)['id']) for l in open('properties.jsonl')]"); do bin/odbcheck -property $$p -tier quick | grep -E '^property=|^VIOLATION|^KNOWN' ; done
