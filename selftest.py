#!/usr/bin/env python3
"""Checker self-test (not a registered check).

1. fixed findings: for every 'fixed' entry of known_findings.json, analyse the tree as it was just
   before the fix commit (a detached scratch worktree outside /repo and /verif, removed right away)
   and require a VIOLATION of that property naming that rule and construct.
2. seeded changes: for every /verif/seeded/<id>/, apply patch.diff to a scratch worktree of HEAD
   and require a VIOLATION of the property it breaks (meta.json: property, expect_rules).
3. refactorings: for every /verif/refactorings/<id>/patch.diff (behaviour-preserving edits written by
   independent sub-agents) all 20 checks must stay silent.
Usage: selftest.py [fixed|seeded|refactorings|all] [filter]
"""
import json, os, subprocess, sys, tempfile, shutil, re

VERIF = '/verif'
BIN = VERIF + '/bin/odbcheck'

def run_check(prop, repo):
    p = subprocess.run([BIN, '-property', prop, '-tier', 'quick', '-repo', repo, '-no-evidence'],
                       capture_output=True, text=True, cwd=VERIF)
    return p.returncode, p.stdout

def worktree(rev):
    d = tempfile.mkdtemp(prefix='odbwt-')
    os.rmdir(d)
    subprocess.check_call(['git', '-C', '/repo', 'worktree', 'add', '-q', '--detach', d, rev])
    return d

def drop(d):
    subprocess.call(['git', '-C', '/repo', 'worktree', 'remove', '--force', d])
    shutil.rmtree(d, ignore_errors=True)

def fixed(flt):
    k = json.load(open(VERIF + '/known_findings.json'))
    by_commit = {}
    for f in k['findings']:
        if f['status'] == 'fixed':
            by_commit.setdefault(f['commit'], []).append(f)
    bad = 0
    for c, fs in by_commit.items():
        if flt and flt not in c and not any(flt in f['property'] for f in fs):
            continue
        d = worktree(c + '^')
        try:
            for f in fs:
                rc, out = run_check(f['property'], d)
                hit = [l for l in out.splitlines() if l.startswith('VIOLATION') and 'rule=' + f['rule'] + ' ' in l + ' ' and f['construct'] in l]
                status = 'caught' if hit else 'MISSED'
                if not hit:
                    bad += 1
                print(f"{status:7} before {c} {f['property']} {f['rule']} {f['construct']}")
        finally:
            drop(d)
    return bad

def seeded(flt):
    bad = 0
    root = VERIF + '/seeded'
    if not os.path.isdir(root):
        return 0
    for name in sorted(os.listdir(root)):
        if flt and flt not in name:
            continue
        meta_p = os.path.join(root, name, 'meta.json')
        patch = os.path.join(root, name, 'patch.diff')
        if not (os.path.exists(meta_p) and os.path.exists(patch)):
            continue
        meta = json.load(open(meta_p))
        d = worktree('HEAD')
        try:
            if subprocess.call(['git', '-C', d, 'apply', patch]) != 0:
                print(f"SKIP    {name}: patch does not apply to HEAD")
                continue
            props = meta.get('detected_by_properties') or [meta['property']]
            caught = []
            # one load of the tree (-property ALL), then the verdict of every recorded property
            rc, out = run_check('ALL', d)
            for p in props:
                v = [l for l in out.splitlines() if l.startswith('VIOLATION property=' + p + ' ')]
                if v:
                    caught.append((p, [re.sub(r'replay=\S+ ', '', x) for x in v]))
            exp = meta.get('expected', 'caught')
            lacking = [p for p in props if p not in [c[0] for c in caught]]
            if caught and lacking and exp != 'missed':
                bad += 1
                print(f"PARTIAL {name} ({meta['property']}): recorded as detected by {props}, not reported by {lacking}")
            elif caught:
                print(f"caught  {name} ({meta['property']}): " + '; '.join(f"{p}: {v[0]}" for p, v in caught))
                if exp == 'missed':
                    print(f"        note: {name} was recorded as missed and is now caught — update meta.json")
            else:
                print(f"{'missed ' if exp == 'missed' else 'MISSED '} {name} ({meta['property']}) {meta.get('miss_reason', '')}")
                if exp != 'missed':
                    bad += 1
        finally:
            drop(d)
    return bad

def refactorings(flt):
    """behaviour-preserving refactorings written by independent sub-agents: every check must stay silent"""
    bad = 0
    root = VERIF + '/refactorings'
    props = [json.loads(l)['id'] for l in open(VERIF + '/properties.jsonl')]
    for name in sorted(os.listdir(root)) if os.path.isdir(root) else []:
        if flt and flt not in name:
            continue
        patch = os.path.join(root, name, 'patch.diff')
        d = worktree('HEAD')
        try:
            if subprocess.call(['git', '-C', d, 'apply', patch], stderr=subprocess.DEVNULL) != 0:
                print(f"SKIP    {name}: patch does not apply to HEAD")
                continue
            alarms = []
            # one load of the tree, every rule once, then every property's verdict (-property ALL)
            rc, out = run_check('ALL', d)
            seen = set(re.findall(r'^property=(C\d+) ', out, flags=re.M))
            if seen != set(props):
                alarms.append('checker did not report every property: ' + ','.join(sorted(set(props) - seen)))
            alarms += [re.sub(r'replay=\S+ ', '', l) for l in out.splitlines() if l.startswith('VIOLATION')]
            if alarms:
                bad += 1
                print(f"FALSE-ALARM {name}: " + '; '.join(alarms[:3]))
            else:
                print(f"silent  {name} (all {len(props)} checks)")
        finally:
            drop(d)
    return bad


if __name__ == '__main__':
    what = sys.argv[1] if len(sys.argv) > 1 else 'all'
    flt = sys.argv[2] if len(sys.argv) > 2 else ''
    bad = 0
    if what in ('fixed', 'all'):
        bad += fixed(flt)
    if what in ('seeded', 'all'):
        bad += seeded(flt)
    if what in ('refactorings', 'all'):
        bad += refactorings(flt)
    print('selftest:', 'OK' if bad == 0 else f'{bad} problem(s)')
    sys.exit(1 if bad else 0)
