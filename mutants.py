#!/usr/bin/env python3
"""Own single-edit variants of /repo used to test the checker both ways (not a registered check).

Each variant is one textual edit that still compiles. BREAKING variants must make the named
property's check report a VIOLATION; PRESERVING variants (behaviour-preserving refactorings)
must leave every listed check silent. Each is applied to a scratch git worktree outside /repo
and /verif, which is removed immediately afterwards.
Usage: mutants.py [name-filter]
"""
import json, os, subprocess, sys, tempfile, shutil, re

VERIF = '/verif'
BIN = VERIF + '/bin/odbcheck'
ENV = dict(os.environ, GOFLAGS='-mod=mod', GOPROXY='off', GOSUMDB='off', GOTOOLCHAIN='local', GOWORK='off')

BS = 'stores/basestore/base_store.go'
RP = 'stores/replicator/replicator.go'

# (name, [properties expected to fire], file, old, new)
BREAKING = [
 ('kv-index-getentries', ['C01', 'C06'], 'stores/kvstore/index.go', 'entries := oplog.Values().Slice()', 'entries := oplog.GetEntries().Slice()'),
 ('event-index-getentries', ['C08', 'C01'], 'stores/eventlogstore/index.go', 'return i.index.Values().Slice()', 'return i.index.GetEntries().Slice()'),
 ('kv-ascending-scan-with-guard', ['C06', 'C01'], 'stores/kvstore/index.go', 'operation.ParseOperation(entries[size-idx-1])', 'operation.ParseOperation(entries[idx+size-size])'),
 ('kv-del-not-deleting', ['C06'], 'stores/kvstore/index.go', 'delete(i.index, *item.GetKey())', 'i.index[*item.GetKey()] = nil'),
 ('doc-putall-opcode-typo', ['C07'], 'stores/documentstore/document.go', '"PUTALL", toAdd)', '"PUT_ALL", toAdd)'),
 ('doc-delete-no-presence-test', ['C07'], 'stores/documentstore/document.go', 'if e := o.Index().Get(key); e == nil {\n\t\treturn nil, fmt.Errorf("no entry with key \'%s\' in database", key)\n\t}\n', '_ = fmt.Sprint\n'),
 ('snapshot-join-no-refresh', ['C01', 'C10'], BS, 'if err := b.updateIndex(ctx); err != nil {\n\t\treturn fmt.Errorf("unable to update index: %w", err)\n\t}\n\n\treturn nil\n}\n\nfunc intPtr', 'return nil\n}\n\nfunc intPtr'),
 ('event-index-cached-listing', ['C08'], 'stores/eventlogstore/index.go', 'i.index = log\n', 'i.index = log\n\ti.cached = log.Values().Slice()\n'),
 ('write-ack-before-persist', ['C05'], BS, 'err = b.Cache().Put(ctx, datastore.NewKey("_localHeads"), marshaledEntry)\n\tif err != nil {\n\t\treturn nil, fmt.Errorf("unable to add data to cache: %w", err)\n\t}\n', 'go func() { _ = b.Cache().Put(ctx, datastore.NewKey("_localHeads"), marshaledEntry) }()\n'),
 ('write-put-error-dropped', ['C05'], BS, 'err = b.Cache().Put(ctx, datastore.NewKey("_localHeads"), marshaledEntry)\n\tif err != nil {\n\t\treturn nil, fmt.Errorf("unable to add data to cache: %w", err)\n\t}\n', '_ = b.Cache().Put(ctx, datastore.NewKey("_localHeads"), marshaledEntry)\n'),
 ('remote-heads-key-renamed-in-writer', ['C05'], BS, 'err = b.Cache().Put(ctx, datastore.NewKey("_remoteHeads"), headsBytes)', 'err = b.Cache().Put(ctx, datastore.NewKey("_remote_heads"), headsBytes)'),
 ('replicated-event-before-persist', ['C05', 'C16'], BS, '\t// only store heads that has been verified and merges\n\theads := oplog.Heads()\n', '\tif err := b.emitters.evtReplicated.Emit(stores.NewEventReplicated(b.Address(), entries, len(logs))); err != nil {\n\t\tb.Logger().Warn("early", zap.Error(err))\n\t}\n\t// only store heads that has been verified and merges\n\theads := oplog.Heads()\n'),
 ('write-event-before-index', ['C16'], BS, '\tb.recalculateReplicationStatus(e.GetClock().GetTime())\n\n\tif err := b.updateIndex(ctx); err != nil {\n\t\treturn nil, fmt.Errorf("unable to update index: %w", err)\n\t}\n\n\tif err := b.emitters.evtWrite.Emit(stores.NewEventWrite(b.Address(), e, oplog.Heads().Slice())); err != nil {\n\t\tb.logger.Warn("unable to emit event write", zap.Error(err))\n\t}\n', '\tb.recalculateReplicationStatus(e.GetClock().GetTime())\n\n\tif err := b.emitters.evtWrite.Emit(stores.NewEventWrite(b.Address(), e, oplog.Heads().Slice())); err != nil {\n\t\tb.logger.Warn("unable to emit event write", zap.Error(err))\n\t}\n\n\tif err := b.updateIndex(ctx); err != nil {\n\t\treturn nil, fmt.Errorf("unable to update index: %w", err)\n\t}\n'),
 ('write-event-pointer-type', ['C16'], BS, 'b.emitters.evtReady.Emit(stores.NewEventReady(b.Address(), b.OpLog().Heads().Slice()))', 'b.emitters.evtReady.Emit(&stores.EventReady{Address: b.Address()})'),
 ('drop-log-without-access-controller', ['C03', 'C04'], BS, '\t\tID:               b.id,\n\t\tAccessController: b.AccessController(),\n', '\t\tID:               b.id,\n'),
 ('ipfs-ac-verify-dropped', ['C03'], 'accesscontroller/ipfs/accesscontroller_ipfs.go', 'return p.VerifyIdentity(identity)', '_ = p\n\t\t\treturn nil'),
 ('orbitdb-ac-key-binding-failopen', ['C03'], 'accesscontroller/orbitdb/accesscontroller_orbitdb.go', '; !ok || !bytes.Equal(keyed.GetKey(), identity.PublicKey) {', '; ok && len(keyed.GetKey()) > 0 && !bytes.Equal(keyed.GetKey(), identity.PublicKey) && false {'),
 ('createstore-caller-ac', ['C03', 'C14'], 'baseorbitdb/orbitdb.go', '\t\tAccessController:  accessController,\n', '\t\tAccessController:  func() accesscontroller.Interface { _ = accessController; return nil }(),\n'),
 ('replicator-uses-announced-entry', ['C04', 'C12'], RP, '\tr.muBuffer.Lock()\n\tr.buffer = append(r.buffer, l)\n', '\tif pe, ok := item.(*processEntry); ok {\n\t\tif l2, err2 := ipfslog.NewLog(r.store.IPFS(), r.store.Identity(), &ipfslog.LogOptions{ID: r.store.OpLog().GetID(), AccessController: r.store.AccessController(), Entries: entry.NewOrderedMapFromEntries([]iface.IPFSLogEntry{pe.entry})}); err2 == nil {\n\t\t\tl = l2\n\t\t}\n\t}\n\tr.muBuffer.Lock()\n\tr.buffer = append(r.buffer, l)\n'),
 ('sync-skips-replicator', ['C02'], BS, '\tgo b.Replicator().Load(ctx, verified)\n\n\treturn nil', '\treturn nil'),
 ('exchange-sends-empty-heads', ['C02'], BS, '\t\tHeads:   heads,\n\t}\n\n\tpayload, err := b.messageMarshaler.Marshal(msg)\n\tif err != nil {\n\t\treturn fmt.Errorf("unable to marshall message: %w", err)', '\t\tHeads:   []*entry.Entry{},\n\t}\n\t_ = heads\n\n\tpayload, err := b.messageMarshaler.Marshal(msg)\n\tif err != nil {\n\t\treturn fmt.Errorf("unable to marshall message: %w", err)'),
 ('replicator-drops-next-links', ['C02'], RP, '\t\tnextValues = append(nextValues, e.GetNext()...)\n', ''),
 ('listener-filter-removed', ['C09'], BS, 'if evt.Address == nil || evt.Address.String() != b.Address().String() {', 'if evt.Address == nil {'),
 ('replicator-shared-bus-again', ['C09'], BS, '\t\tLogger: b.logger,\n\t\tTracer: b.tracer,\n\t})', '\t\tLogger:   b.logger,\n\t\tEventBus: b.eventBus,\n\t\tTracer:   b.tracer,\n\t})'),
 ('join-error-breaks-loop', ['C10'], BS, '\t\t\tb.Logger().Error("unable to join logs", zap.Error(err))\n\t\t\tcontinue', '\t\t\tb.Logger().Error("unable to join logs", zap.Error(err))\n\t\t\tbreak'),
 ('fetch-batch-size-16', ['C10'], RP, 'var batchSize = 1', 'var batchSize = 16'),
 ('failed-fetch-marked-fetched', ['C11'], RP, '\t} else {\n\t\t// the fetch failed or was cancelled: forget the hash, so that it is fetched\n\t\t// again the next time it is announced\n\t\tdelete(r.tasks, item.GetHash())\n\t}', '\t} else {\n\t\tr.tasks[item.GetHash()] = stateFetched\n\t}'),
 ('progress-reader-leaves-on-cancel', ['C11'], RP, '\t\tfor entry := range cprogress {\n\t\t\tif entry == nil {\n\t\t\t\tcontinue\n\t\t\t}\n', '\t\tfor {\n\t\t\tvar entry iface.IPFSLogEntry\n\t\t\tselect {\n\t\t\tcase <-ctx.Done():\n\t\t\t\treturn\n\t\t\tcase entry = <-cprogress:\n\t\t\t}\n\t\t\tif entry == nil {\n\t\t\t\treturn\n\t\t\t}\n'),
 ('frame-check-after-conversion', ['C12', 'C20'], 'pubsub/directchannel/channel.go', '\tif length64 > DelimitedReadMaxSize {', '\tif int(length64) > DelimitedReadMaxSize {'),
 ('frame-no-upper-bound', ['C12', 'C20'], 'pubsub/directchannel/channel.go', '\tif length64 > DelimitedReadMaxSize {\n\t\td.logger.Error(fmt.Sprintf("received data exceeding maximum allowed size (%d > %d)", length64, DelimitedReadMaxSize))\n\t\treturn\n\t}\n', '\t_ = fmt.Sprintf\n'),
 ('null-head-filter-removed', ['C12'], 'baseorbitdb/events_handler.go', '\t\tif h == nil {\n\t\t\t// a decoded null head must not be boxed: it would be a non-nil interface holding a nil pointer\n\t\t\tcontinue\n\t\t}\n', ''),
 ('snapshot-reader-little-endian', ['C13'], BS, 'headerLength := binary.BigEndian.Uint16(headerLengthRaw)', 'headerLength := binary.LittleEndian.Uint16(headerLengthRaw)'),
 ('snapshot-queue-key-renamed-in-reader', ['C13'], BS, 'b.Cache().Get(ctx, datastore.NewKey("queue"))', 'b.Cache().Get(ctx, datastore.NewKey("_queue"))'),
 ('manifest-with-timestamp', ['C14'], 'utils/create_db_manifest.go', '\t\tName:             name,', '\t\tName:             name + time.Now().String()[:0],'),
 ('address-prefix-mismatch', ['C14'], 'address/address.go', 'return path.Join("/orbitdb", a.root.String(), a.path)', 'return path.Join("/orbit-db", a.root.String(), a.path)'),
 ('create-skips-overwrite-guard', ['C14'], 'baseorbitdb/orbitdb.go', '\tif haveDB && (options.Overwrite == nil || !*options.Overwrite) {\n\t\treturn nil, fmt.Errorf("database %s already exists", dbAddress)\n\t}\n', '\t_ = haveDB\n'),
 ('open-type-from-options', ['C14', 'C03'], 'baseorbitdb/orbitdb.go', 'store, err := o.createStore(ctx, manifest.Type, parsedDBAddress, options)', 'st := manifest.Type\n\tif options.StoreType != nil {\n\t\tst = *options.StoreType\n\t}\n\tstore, err := o.createStore(ctx, st, parsedDBAddress, options)'),
 ('trim-without-upper-guard', ['C15'], BS, '\tif amount <= 0 || amount >= oplog.Len() {\n\t\treturn nil\n\t}', '\tif amount <= 0 {\n\t\treturn nil\n\t}'),
 ('load-joins-with-amount-again', ['C15'], BS, 'if _, inErr = oplog.Join(l, -1); inErr != nil {', 'if _, inErr = oplog.Join(l, amount); inErr != nil {'),
 ('legacy-fast-path-restored', ['C16'], 'events/events.go', '\t\t\tqueue.PushBack(e)\n\t\t\t// signal that we have element to process', '\t\t\tif queue.Len() == 0 {\n\t\t\t\tselect {\n\t\t\t\tcase cevent <- e:\n\t\t\t\t\tcondProcess.L.Unlock()\n\t\t\t\t\tcontinue\n\t\t\t\tdefault:\n\t\t\t\t}\n\t\t\t}\n\t\t\tqueue.PushBack(e)\n\t\t\t// signal that we have element to process'),
 ('append-lock-released-before-put', ['C17', 'C02'], BS, '\tmarshaledEntry, err := json.Marshal([]ipfslog.Entry{e})\n\tif err != nil {\n\t\treturn nil, fmt.Errorf("unable to marshal entry: %w", err)\n\t}\n\n\terr = b.Cache().Put', '\tb.muLocalHeads.Unlock()\n\tmarshaledEntry, err := json.Marshal([]ipfslog.Entry{e})\n\tb.muLocalHeads.Lock()\n\tif err != nil {\n\t\treturn nil, fmt.Errorf("unable to marshal entry: %w", err)\n\t}\n\n\terr = b.Cache().Put'),
 ('close-without-guard', ['C18'], BS, '\tif b.isClosed() {\n\t\treturn nil\n\t}\n\n\tb.cancel()', '\tb.cancel()'),
 ('close-forgets-replicator', ['C18'], BS, '\t// Replicator teardown logic\n\tb.Replicator().Stop()\n', ''),
 ('drop-without-close', ['C18'], BS, '\tif err = b.Close(); err != nil {\n\t\treturn fmt.Errorf("unable to close store: %w", err)\n\t}\n\n\terr = b.cacheDestroy()', '\terr = b.cacheDestroy()'),
 ('destroy-relocks', ['C18'], 'cache/cacheleveldown/leveldown.go', '\tl.muCaches.Lock()\n\twc, ok := l.caches[keyPath]\n\tl.muCaches.Unlock()\n', '\tl.muCaches.Lock()\n\tdefer l.muCaches.Unlock()\n\twc, ok := l.caches[keyPath]\n'),
 ('listener-loop-never-exits', ['C18'], BS, '\t\t\tselect {\n\t\t\tcase <-b.ctx.Done():\n\t\t\t\treturn\n\t\t\tcase e = <-sub.Out():\n\t\t\t}\n\n\t\t\tevt := e.(stores.EventWrite)', '\t\t\tselect {\n\t\t\tcase <-b.ctx.Done():\n\t\t\t\tcontinue\n\t\t\tcase e = <-sub.Out():\n\t\t\t}\n\n\t\t\tevt := e.(stores.EventWrite)'),
 ('status-progress-written-directly', ['C19'], BS, '\t\tb.recalculateReplicationMax(maxTotal)\n\n\t\t\t\tif err := b.emitters.evtReplicate', '\t\tb.recalculateReplicationMax(maxTotal)\n\t\t\t\tb.ReplicationStatus().SetProgress(maxTotal)\n\n\t\t\t\tif err := b.emitters.evtReplicate'),
 ('status-progress-min-instead-of-max', ['C19'], BS, '\tif opLogLen := b.OpLog().Len(); opLogLen > max {\n\t\tmax = opLogLen\n\n\t}\n\n\tb.ReplicationStatus().SetProgress(max)', '\tif opLogLen := b.OpLog().Len(); opLogLen < max {\n\t\tmax = opLogLen\n\n\t}\n\n\tb.ReplicationStatus().SetProgress(max)'),
 ('self-filter-removed-coreapi', ['C20'], 'pubsub/pubsubcoreapi/pubsub.go', '\t\t\tif msg.From() == p.ps.id {\n\t\t\t\tcontinue\n\t\t\t}\n', ''),
 ('channel-id-unsorted', ['C20'], 'pubsub/oneonone/channel.go', '\tsort.Slice(channelIDPeers, func(i, j int) bool {\n\t\treturn strings.Compare(channelIDPeers[i], channelIDPeers[j]) < 0\n\t})\n', '\t_ = sort.Strings\n'),
 ('frame-writer-fixed-width', ['C20'], 'pubsub/directchannel/channel.go', '\tlenbuf := make([]byte, binary.MaxVarintLen64)\n\tn := binary.PutUvarint(lenbuf, length)\n', '\tlenbuf := make([]byte, 8)\n\tbinary.BigEndian.PutUint64(lenbuf, length)\n\tn := 8\n'),
 ('payload-attributed-to-local-peer', ['C20'], 'pubsub/directchannel/channel.go', 's.Conn().RemotePeer()', 's.Conn().LocalPeer()'),
 ('wire-clock-read-unguarded', ['C12'], 'baseorbitdb/events_handler.go', '\t\tuntypedHeads = append(untypedHeads, h)\n', '\t\tif c := h.GetClock(); c != nil {\n\t\t\t_ = c.GetTime()\n\t\t}\n\t\tuntypedHeads = append(untypedHeads, h)\n'),
 ('snapshot-entries-read-before-count', ['C13'], 'stores/basestore/utils.go', '\toplog := b.OpLog()\n', '\toplog := b.OpLog()\n\tall := oplog.GetEntries().Slice()\n'),
 ('kv-index-reads-log-before-lock', ['C06', 'C17'], 'stores/kvstore/index.go', '\ti.muIndex.Lock()\n\tdefer i.muIndex.Unlock()\n\n\tentries := oplog.Values().Slice()', '\tentries := oplog.Values().Slice()\n\n\ti.muIndex.Lock()\n\tdefer i.muIndex.Unlock()'),
 ('doc-index-reads-log-before-lock', ['C07', 'C17'], 'stores/documentstore/index.go', '\ti.muIndex.Lock()\n\tdefer i.muIndex.Unlock()\n\n\tentries := oplog.Values().Slice()', '\tentries := oplog.Values().Slice()\n\n\ti.muIndex.Lock()\n\tdefer i.muIndex.Unlock()'),
 ('snapshot-load-raises-max-only', ['C19'], BS, '\t// the whole log is there: the progress catches up with the maximum raised above\n\tb.recalculateReplicationStatus(maxClock)\n', ''),
 ('status-recalculation-unlocked', ['C19'], BS, 'func (b *BaseStore) recalculateReplicationStatus(maxTotal int) {\n\tb.muStatus.Lock()\n\tdefer b.muStatus.Unlock()\n', 'func (b *BaseStore) recalculateReplicationStatus(maxTotal int) {\n'),
 ('determine-address-root-unchecked', ['C14'], 'baseorbitdb/orbitdb.go', '\tif !dbAddress.GetRoot().Equals(manifestHash) {', '\tif dbAddress == nil {'),
 ('load-refused-history-dropped', ['C05', 'C10'], BS, '\t\t\t\tb.joinOneByOne(ctx, oplog, l)\n', '\t\t\t\t_ = l\n'),
 ('write-counted-after-index', ['C19'], BS, '\tb.recalculateReplicationStatus(e.GetClock().GetTime())\n\n\tif err := b.updateIndex(ctx); err != nil {\n\t\treturn nil, fmt.Errorf("unable to update index: %w", err)\n\t}\n', '\tif err := b.updateIndex(ctx); err != nil {\n\t\treturn nil, fmt.Errorf("unable to update index: %w", err)\n\t}\n\n\tb.recalculateReplicationStatus(e.GetClock().GetTime())\n'),
]

# behaviour-preserving refactorings: every listed check must stay silent
PRESERVING = [
 ('snapshot-appenduint16', ['C13'], 'stores/basestore/utils.go', '\tsize := make([]byte, 2)\n\tbinary.BigEndian.PutUint16(size, uint16(headerSize))\n\trs := append(size, header...)\n', '\trs := binary.BigEndian.AppendUint16(nil, uint16(headerSize))\n\trs = append(rs, header...)\n'),
 ('sync-load-in-closure', ['C02', 'C04', 'C10', 'C11', 'C12'], BS, '\tgo b.Replicator().Load(ctx, verified)\n', '\tgo func() {\n\t\tb.Replicator().Load(ctx, verified)\n\t}()\n'),
 ('wire-clock-read-guarded', ['C12'], 'baseorbitdb/events_handler.go', '\t\tuntypedHeads = append(untypedHeads, h)\n', '\t\tif c := h.GetClock(); c != nil && c.Defined() {\n\t\t\t_ = c.GetTime()\n\t\t}\n\t\tuntypedHeads = append(untypedHeads, h)\n'),
 ('snapshot-unrelated-entries-read-first', ['C13'], 'stores/basestore/utils.go', '\toplog := b.OpLog()\n', '\toplog := b.OpLog()\n\t_ = oplog.GetEntries().Len()\n'),
 ('persist-helper-extracted', ['C05', 'C16', 'C17', 'C01'], BS,
  '\tmarshaledEntry, err := json.Marshal([]ipfslog.Entry{e})\n\tif err != nil {\n\t\treturn nil, fmt.Errorf("unable to marshal entry: %w", err)\n\t}\n\n\terr = b.Cache().Put(ctx, datastore.NewKey("_localHeads"), marshaledEntry)\n\tif err != nil {\n\t\treturn nil, fmt.Errorf("unable to add data to cache: %w", err)\n\t}\n\n\treturn e, nil\n}',
  '\tif err := b.persistLocalHead(ctx, e); err != nil {\n\t\treturn nil, err\n\t}\n\n\treturn e, nil\n}\n\nfunc (b *BaseStore) persistLocalHead(ctx context.Context, e ipfslog.Entry) error {\n\traw, err := json.Marshal([]ipfslog.Entry{e})\n\tif err != nil {\n\t\treturn fmt.Errorf("unable to marshal entry: %w", err)\n\t}\n\n\tif err := b.Cache().Put(ctx, datastore.NewKey("_localHeads"), raw); err != nil {\n\t\treturn fmt.Errorf("unable to add data to cache: %w", err)\n\t}\n\n\treturn nil\n}'),
 ('kv-index-switch-form', ['C06', 'C01'], 'stores/kvstore/index.go',
  '\t\t\tif item.GetOperation() == "PUT" {\n\t\t\t\ti.index[*item.GetKey()] = item.GetValue()\n\t\t\t} else if item.GetOperation() == "DEL" {\n\t\t\t\tdelete(i.index, *item.GetKey())\n\t\t\t}',
  '\t\t\tswitch item.GetOperation() {\n\t\t\tcase "PUT":\n\t\t\t\ti.index[*item.GetKey()] = item.GetValue()\n\t\t\tcase "DEL":\n\t\t\t\tdelete(i.index, *item.GetKey())\n\t\t\t}'),
 ('rename-add-operation', ['C05', 'C16', 'C17', 'C02'], BS, 'appendAndPersistHead', 'writeEntry'),
 ('frame-bound-switch-form', ['C12', 'C20'], 'pubsub/directchannel/channel.go', '\tif length64 > DelimitedReadMaxSize {\n\t\td.logger', '\tif max := uint64(DelimitedReadMaxSize); length64 > max {\n\t\td.logger'),
 ('recalc-max-with-builtin-shape', ['C19'], BS, '\tif opLogLen := b.OpLog().Len(); opLogLen > max {\n\t\tmax = opLogLen\n\t}\n\n\tif replMax := b.ReplicationStatus().GetMax(); replMax > max {\n\t\tmax = replMax\n\t}', '\treplMax := b.ReplicationStatus().GetMax()\n\topLogLen := b.OpLog().Len()\n\tif replMax > max {\n\t\tmax = replMax\n\t}\n\tif opLogLen > max {\n\t\tmax = opLogLen\n\t}'),
 ('close-explicit-emitter-closes', ['C18'], BS, '\t\tb.emitters.evtLoadProgress,\n', '\t\tb.emitters.evtLoadProgress, // explicit\n'),
 ('listener-filter-helper-var', ['C09'], BS, 'if evt.Address == nil || evt.Address.String() != b.Address().String() {', 'own := b.Address().String()\n\t\t\tif evt.Address == nil || own != evt.Address.String() {'),
]


def worktree():
    d = tempfile.mkdtemp(prefix='odbmut-')
    os.rmdir(d)
    subprocess.check_call(['git', '-C', '/repo', 'worktree', 'add', '-q', '--detach', d, 'HEAD'])
    return d


def drop(d):
    subprocess.call(['git', '-C', '/repo', 'worktree', 'remove', '--force', d])
    shutil.rmtree(d, ignore_errors=True)


def apply_edit(d, f, old, new):
    p = os.path.join(d, f)
    s = open(p).read()
    if old not in s:
        return 'anchor text not found (tree changed): ' + old[:50].replace('\n', ' ')
    s = s.replace(old, new, 1) if old != 'appendAndPersistHead' else s.replace(old, new)
    # extra plumbing some edits need
    if 'i.cached' in new:
        s = s.replace('type eventIndex struct {\n', 'type eventIndex struct {\n\tcached []ipfslog.Entry\n')
        s = s.replace('return i.index.Values().Slice()', 'return i.cached')
    if 'all := oplog.GetEntries' in new:
        s = s.replace('for _, e := range oplog.GetEntries().Slice() {', 'for _, e := range all {')
    if 'time.Now()' in new and '"time"' not in s:
        s = s.replace('import (\n', 'import (\n\t"time"\n', 1)
    if 'entry.NewOrderedMapFromEntries' in new and 'go-ipfs-log/entry"' not in s:
        s = s.replace('import (\n', 'import (\n\t"berty.tech/go-ipfs-log/entry"\n', 1)
    open(p, 'w').write(s)
    return None


def build(d):
    p = subprocess.run(['go', 'build', './...'], cwd=d, env=ENV, capture_output=True, text=True)
    return p.returncode == 0, p.stderr[-600:]


def check(prop, d):
    p = subprocess.run([BIN, '-property', prop, '-tier', 'quick', '-repo', d, '-no-evidence'], capture_output=True, text=True, cwd=VERIF)
    v = [re.sub(r'replay=\S+ ', '', l) for l in p.stdout.splitlines() if l.startswith('VIOLATION')]
    return v


def main():
    flt = sys.argv[1] if len(sys.argv) > 1 else ''
    bad = 0
    for kind, lst in (('breaking', BREAKING), ('preserving', PRESERVING)):
        for name, props, f, old, new in lst:
            if flt and flt not in name:
                continue
            d = worktree()
            try:
                err = apply_edit(d, f, old, new)
                if err:
                    print(f'SKIP     {name}: {err}')
                    continue
                ok, msg = build(d)
                if not ok:
                    print(f'NOBUILD  {name}: {msg.strip().splitlines()[-1] if msg.strip() else ""}')
                    bad += 1
                    continue
                for p in props:
                    v = check(p, d)
                    if kind == 'breaking':
                        if v:
                            print(f'caught   {name} [{p}] {v[0][:170]}')
                        else:
                            print(f'MISSED   {name} [{p}]')
                            bad += 1
                    else:
                        if v:
                            print(f'FALSE-ALARM {name} [{p}] {v[0][:200]}')
                            bad += 1
                        else:
                            print(f'silent   {name} [{p}]')
            finally:
                drop(d)
    print('mutants:', 'OK' if bad == 0 else f'{bad} problem(s)')
    sys.exit(1 if bad else 0)


main()
