#!/usr/bin/env python3
"""Validation and import of independently written seeded changes (not a registered check).

validate <ID> <mk>  : in a fresh scratch git worktree of /repo HEAD (outside /repo and /verif, removed
                      afterwards): patch applies, builds, the existing suite passes with it, the
                      demonstration fails with it and passes without it. Writes VALIDATION.json next
                      to the patch.
import <ID> <mk>    : copies a validated change to /verif/seeded/<ID>-<mk>/ (patch.diff, demo/, meta.json)
"""
import json, os, re, shutil, subprocess, sys, tempfile, time

ENV = dict(os.environ, GOFLAGS='-mod=mod', GOPROXY='off', GOSUMDB='off', GOTOOLCHAIN='local')
SRC = os.environ.get("SEED_SRC", "/tmp/mut")


def sh(cmd, cwd, timeout=1800):
    p = subprocess.run(cmd, shell=True, cwd=cwd, env=ENV, capture_output=True, text=True, timeout=timeout)
    return p.returncode, (p.stdout + p.stderr)


def worktree():
    d = tempfile.mkdtemp(prefix='seedval-')
    os.rmdir(d)
    subprocess.check_call(['git', '-C', '/repo', 'worktree', 'add', '-q', '--detach', d, 'HEAD'])
    return d


def drop(d):
    subprocess.call(['git', '-C', '/repo', 'worktree', 'remove', '--force', d])
    shutil.rmtree(d, ignore_errors=True)


def demo_plan(base):
    where = open(os.path.join(base, 'demo', 'WHERE.txt')).read()
    files = [f for f in os.listdir(os.path.join(base, 'demo')) if f != 'WHERE.txt' and not f.endswith('.log')]
    copies = []
    for f in files:
        ms = [x.lstrip('./') for x in re.findall(r'([\w./-]*/' + re.escape(f) + r')', where)]
        ms = [x for x in ms if not x.startswith('demo/')] or ms
        if not ms:
            raise SystemExit(f'no target path for {f} in WHERE.txt')
        copies.append((f, ms[0]))
    cmd = None
    for line in where.splitlines():
        if 'go test' in line or 'go run' in line:
            cmd = line.strip().lstrip('$ ').strip()
            cmd = re.sub(r'^cd\s+\S+\s*&&\s*', '', cmd)
            break
    if not cmd:
        raise SystemExit('no run command in WHERE.txt')
    return copies, cmd


def validate(pid, mk):
    base = os.path.join(SRC, pid + '-out', mk)
    res = {'property': pid, 'change': mk, 'at': time.strftime('%Y-%m-%dT%H:%M:%S'), 'repo_head': subprocess.check_output(['git', '-C', '/repo', 'rev-parse', '--short', 'HEAD']).decode().strip()}
    copies, cmd = demo_plan(base)
    res['demo_cmd'] = cmd
    d = worktree()
    try:
        # demo without the change
        for f, tgt in copies:
            os.makedirs(os.path.dirname(os.path.join(d, tgt)), exist_ok=True)
            shutil.copy(os.path.join(base, 'demo', f), os.path.join(d, tgt))
        rc, out = sh(cmd, d)
        res['demo_without_change'] = 'pass' if rc == 0 else 'FAIL'
        res['demo_without_tail'] = out[-600:]
        for f, tgt in copies:
            os.remove(os.path.join(d, tgt))
        # apply
        rc, out = sh('git apply ' + os.path.join(base, 'patch.diff'), d)
        res['applies'] = rc == 0
        if rc != 0:
            res['apply_err'] = out[-400:]
            return res
        rc, out = sh('go build ./... && go vet ./... 2>&1 | tail -3', d)
        res['builds'] = rc == 0
        # suite with the change (retry once: some replication tests are timing sensitive)
        for attempt in (1, 2):
            rc, out = sh('go test -mod=mod -vet=off -count=1 -timeout 8m ./...', d, timeout=2400)
            res['suite_with_change'] = 'pass' if rc == 0 else 'FAIL'
            res['suite_attempts'] = attempt
            if rc == 0:
                break
            res['suite_tail'] = out[-1500:]
        # demo with the change
        for f, tgt in copies:
            shutil.copy(os.path.join(base, 'demo', f), os.path.join(d, tgt))
        fails = 0
        for i in range(3):
            rc, out = sh(cmd, d)
            if rc != 0:
                fails += 1
                res['demo_with_tail'] = out[-900:]
        res['demo_with_change_fails'] = f'{fails}/3'
        res['valid'] = bool(res['applies'] and res['builds'] and res['suite_with_change'] == 'pass'
                            and res['demo_without_change'] == 'pass' and fails >= 2)
        return res
    finally:
        drop(d)


def repaired(pid, mk, patch):
    """a behaviour-preserving counterpart of a seeded change (kept under /verif/refactorings): the
    seeded change's demonstration must pass with it, and so must the existing suite."""
    base = os.path.join(SRC, pid + '-out', mk)
    copies, cmd = demo_plan(base)
    d = worktree()
    res = {'patch': patch, 'demo_of': f'{pid}-{mk}', 'demo_cmd': cmd}
    try:
        rc, out = sh('git apply ' + patch, d)
        res['applies'] = rc == 0
        if rc != 0:
            return res
        rc, out = sh('go build ./... && go vet ./... 2>&1 | tail -3', d)
        res['builds'] = rc == 0
        for f, tgt in copies:
            os.makedirs(os.path.dirname(os.path.join(d, tgt)), exist_ok=True)
            shutil.copy(os.path.join(base, 'demo', f), os.path.join(d, tgt))
        fails = 0
        for i in range(2):
            rc, out = sh(cmd, d)
            if rc != 0:
                fails += 1
                res['demo_tail'] = out[-900:]
        res['demo_fails'] = f'{fails}/2'
        for f, tgt in copies:
            os.remove(os.path.join(d, tgt))
        sh('git checkout -- go.mod go.sum', d)
        for attempt in (1, 2):
            rc, out = sh('go test -mod=mod -vet=off -count=1 -timeout 8m ./...', d, timeout=2400)
            res['suite'] = 'pass' if rc == 0 else 'FAIL'
            if rc == 0:
                break
            res['suite_tail'] = out[-1500:]
        res['preserving'] = bool(res['builds'] and fails == 0 and res['suite'] == 'pass')
        return res
    finally:
        drop(d)


def do_import(pid, mk):
    base = os.path.join(SRC, pid + '-out', mk)
    v = json.load(open(os.path.join(base, 'VALIDATION.json')))
    if not v.get('valid'):
        raise SystemExit('not validated')
    tag = os.environ.get('SEED_TAG', '')
    dst = os.path.join('/verif/seeded', f'{pid}-{tag}{mk}')
    os.makedirs(dst, exist_ok=True)
    shutil.copy(os.path.join(base, 'patch.diff'), os.path.join(dst, 'patch.diff'))
    if os.path.isdir(os.path.join(dst, 'demo')):
        shutil.rmtree(os.path.join(dst, 'demo'))
    shutil.copytree(os.path.join(base, 'demo'), os.path.join(dst, 'demo'), ignore=shutil.ignore_patterns('*.log'))
    readme = os.path.join(base, 'README.md')
    if os.path.exists(readme):
        shutil.copy(readme, os.path.join(dst, 'AUTHOR_README.md'))
    meta_p = os.path.join(dst, 'meta.json')
    meta = json.load(open(meta_p)) if os.path.exists(meta_p) else {}
    meta.update({
        'property': pid,
        'origin': 'written by an independent sub-agent given only the property text and a scratch worktree',
        'validated': {k: v[k] for k in ('at', 'repo_head', 'demo_cmd', 'applies', 'builds', 'suite_with_change', 'suite_attempts', 'demo_without_change', 'demo_with_change_fails')},
        'what_i_ran': 'seedtool.py validate: fresh scratch worktree of /repo HEAD; demo on unchanged code (pass); git apply patch; go build+vet; full existing suite (pass); demo x3 with the change (fail)',
    })
    table = json.load(open('/verif/seeds_table.json'))
    meta.update(table.get(f'{pid}-{tag}{mk}', {}))
    meta.setdefault('needs_to_manifest', '(see AUTHOR_README.md)')
    json.dump(meta, open(meta_p, 'w'), indent=1)
    print('imported', dst)


if __name__ == '__main__':
    op, pid, mk = sys.argv[1], sys.argv[2], sys.argv[3]
    if op == 'repaired':
        r = repaired(pid, mk, sys.argv[4])
        json.dump(r, open(os.path.join(os.path.dirname(sys.argv[4]), 'CHECKED.json'), 'w'), indent=1)
        print(sys.argv[4], 'PRESERVING' if r.get('preserving') else 'NOT-PRESERVING', {k: r.get(k) for k in ('applies', 'builds', 'demo_fails', 'suite')})
        sys.exit(0)
    if op == 'validate':
        r = validate(pid, mk)
        json.dump(r, open(os.path.join(SRC, pid + '-out', mk, 'VALIDATION.json'), 'w'), indent=1)
        print(pid, mk, 'VALID' if r.get('valid') else 'INVALID', {k: r.get(k) for k in ('applies', 'builds', 'suite_with_change', 'demo_without_change', 'demo_with_change_fails')})
    elif op == 'import':
        do_import(pid, mk)
